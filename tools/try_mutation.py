#!/usr/bin/env python3
"""Apply a seeded change to a scratch worktree of /repo, run the given checks against it, confirm the demonstration, and record the outcome.
usage: tools/try_mutation.py <mutation dir with patch.diff demo.py notes.md> <seed id e.g. C09-1> <Cxx> [<Cyy> ...] [--keep]
Writes /verif/seeded/<seed id>/{patch.diff, demo.py, notes.md, meta.json}."""
import json
import os
import shutil
import subprocess
import sys
import time

VERIF = os.path.dirname(os.path.dirname(os.path.abspath(__file__)))
src, sid = sys.argv[1], sys.argv[2]
props = [a for a in sys.argv[3:] if not a.startswith("--")]
wt = f"/var/tmp/seedwt-{sid}-{os.getpid()}"


def run(cmd, **kw):
    return subprocess.run(cmd, capture_output=True, text=True, **kw)


run(["git", "-C", "/repo", "worktree", "add", "-q", wt, "HEAD"])
meta = {"seed": sid, "breaks_property": props[0], "checks_run": {}, "time": time.strftime("%Y-%m-%d %H:%M:%S"),
        "repo_head": run(["git", "-C", "/repo", "rev-parse", "--short", "HEAD"]).stdout.strip()}
try:
    env0 = dict(os.environ, PYTHONPATH=os.path.join(wt, "src"), PYTHONDONTWRITEBYTECODE="1")
    sys.path.insert(0, os.path.join(VERIF, "tools"))
    os.environ["VERIF_REPO"] = wt
    from vlib import stage
    # demonstration on the unmodified worktree (with its own freshly built extension)
    so, err = stage.build_extension()
    shutil.copyfile(so, os.path.join(wt, "src", "pendulum", stage.SO_NAME))
    demo = os.path.join(src, "demo.py")
    d0 = [run(["/venv/bin/python", demo], env=dict(env0, PENDULUM_EXTENSIONS=e), cwd=wt).returncode for e in ("0", "1")]
    ap = run(["git", "-C", wt, "apply", os.path.abspath(os.path.join(src, "patch.diff"))])
    if ap.returncode != 0:
        print("patch does not apply:", ap.stderr)
        sys.exit(2)
    so, err = stage.build_extension()
    if not so:
        print("mutated rust does not build:", err[-800:])
        sys.exit(2)
    shutil.copyfile(so, os.path.join(wt, "src", "pendulum", stage.SO_NAME))
    d1 = [run(["/venv/bin/python", demo], env=dict(env0, PENDULUM_EXTENSIONS=e), cwd=wt).returncode for e in ("0", "1")]
    meta["demo_exit_unmodified_py_rs"] = d0
    meta["demo_exit_mutated_py_rs"] = d1
    # the unedited suite with the mutation
    b = run(["python3", os.path.join(VERIF, "tools", "run_baseline.py"), wt])
    meta["suite_with_mutation"] = b.stdout.strip().split("\n")[-1] if b.returncode == 0 else "FAILS: " + b.stdout[-400:]
    for p in props:
        t0 = time.time()
        r = run([os.path.join(VERIF, "check"), p], env=dict(os.environ, VERIF_REPO=wt), cwd=VERIF)
        viol = [l for l in r.stdout.split("\n") if l.startswith("VIOLATION")]
        last = r.stdout.strip().split("\n")[-1] if r.stdout.strip() else r.stderr[-300:]
        detail, kind = "", ""
        if viol:
            rp = viol[0].split("replay=")[1].split()[0]
            try:
                j = json.load(open(rp))
                detail = (j.get("why") or "; ".join(j.get("no_longer_checks", [])))[:600]
                kind = "concrete failing input" if j.get("kind") == "violation" else "tie broken, no-failing-input-found"
            except Exception as e:  # noqa
                detail = str(e)
        meta["checks_run"][p] = {"exit": r.returncode, "violation_line": viol[0] if viol else None, "what": detail, "kind": kind, "summary": last[:300], "wall_s": round(time.time() - t0, 1)}
        print(p, "exit", r.returncode, viol[0] if viol else "NO VIOLATION", "|", detail[:200])
    meta["caught_by"] = [p for p, v in meta["checks_run"].items() if v["exit"] == 1]
    out = os.path.join(VERIF, "seeded", sid)
    os.makedirs(out, exist_ok=True)
    for f in ("patch.diff", "demo.py", "notes.md"):
        if os.path.exists(os.path.join(src, f)):
            shutil.copyfile(os.path.join(src, f), os.path.join(out, f))
    notes = open(os.path.join(src, "notes.md")).read() if os.path.exists(os.path.join(src, "notes.md")) else ""
    meta["needs_to_manifest"] = notes[:1500]
    meta["what_i_ran"] = f"git worktree of /repo HEAD; demo.py before/after; tools/run_baseline.py on the mutated worktree; VERIF_REPO=<worktree> ./check {' '.join(props)}"
    json.dump(meta, open(os.path.join(out, "meta.json"), "w"), indent=1)
finally:
    run(["git", "-C", "/repo", "worktree", "remove", "--force", wt])
    shutil.rmtree(wt, ignore_errors=True)
