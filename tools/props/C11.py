"""C11 — DateTime, Date and Time are drop-in replacements for the native classes."""
from __future__ import annotations

import datetime as _dt
import random
import zoneinfo

from vlib import tzcases as T
from vlib import zones
from vlib.gens import g70_classes as G

ID = "C11"
PROPS = "Props/C11.v"
RULE = ("enumerated: for each chosen zone (quick: the 25 odd zones + seed-rotated others up to 60, 12 transitions each; thorough: every zone, every transition) every wall probe "
        "{start-1s, start-1us, start, start+1us, middle, end-1us, end, end+1us, end+1s} of each gap/overlap x fold {0,1}, the DateTime built with the plain constructor "
        "(so skipped wall times occur as values) is asked every standard accessor and compared (a) inside the staged interpreter with datetime.datetime(*fields, "
        "tzinfo=<the same tzinfo object>, fold) and (b) by the oracle with datetime.datetime(*fields, tzinfo=zoneinfo.ZoneInfo(name) | datetime.timezone(offset), fold); "
        "binary operators (six comparisons, hash equality, subtraction) on pairs: same zone across the transition / both folds, the same instant rendered in another "
        "zone, UTC and fixed offsets, far-apart values, naive/aware mixes, in five operand modes (pendulum-pendulum, pendulum-native and native-pendulum with the same "
        "tzinfo object or with the stdlib tzinfo); astimezone to pendulum and stdlib zones; replace; constructors; time()/timetz() incl. fold and tzinfo identity on named zones, fixed offsets and naive values; Dates over all month shapes x leap/common/century "
        "years; Times incl. tzinfo; the generated override table against the real MRO. Stream family dt-foreign-* (fn dt_foreign): operand pairs in which a DateTime (built by the "
        "constructor, obtained by astimezone(<object>) or by fromisoformat) or a native datetime CARRIES A FOREIGN tzinfo object - datetime.timezone.utc, datetime.timezone(offset) with "
        "and without a name, zoneinfo.ZoneInfo(key) (cached and no_cache), a key-less ZoneInfo.from_file object, dateutil tzfile/tzoffset/tzutc, a pytz per-offset tzinfo, two user "
        "tzinfo subclasses (constant offset / tz-database table without key/name/zone attribute) - against a partner in a pendulum zone (pendulum value or its native), the same foreign "
        "object, the same kind as another object, another foreign kind, a naive value; the same instant +-1us, near and unrelated walls incl. the zones' gaps/overlaps; every binary "
        "operation in BOTH orders (six comparisons, hash equality, subtraction, x.astimezone(y.tzinfo)); oracle = the same operations on native twins with the same fields and the very "
        "same tzinfo objects (inside the staged interpreter) AND on stdlib-only operands rebuilt by the oracle (dateutil/pytz replaced by their zoneinfo/datetime.timezone equivalents "
        "where these exist), instant order for aware pairs; model: the dt_binary entry of Model/DropIn.v (tzinfo identity + table; instance() of a native operand) wherever the "
        "kind has a table model (not key-less ZoneInfo, not pytz, not dateutil outside 1972..2036 / on skipped walls: oracle only). non-trivial = distinct (fn, args).")
EXHAUSTIVE = {"quick": False, "thorough": True}
TRUSTED = ["CPython's attribute lookup: a name that no pendulum class of the MRO binds is answered by the native C slot on the same fields "
           "(Gen/Classes.v is computed from the ast; the real type(x).__mro__ lookup is compared with it on every run, stream mro-table)",
           "Model/DropIn.v `native_*` functions are a model of CPython's _datetimemodule.c (comparison incl. the PEP 495 inter-zone exception, hash, subtraction, "
           "utctimetuple, timestamp); validated against datetime.datetime on every case by the oracle side of the correspondence",
           "zoneinfo + tz database as in C02 (Spec/Zone.v)"]
ASSUMPTIONS = ["strings (isoformat, strftime, ctime, tzname, __str__, __format__) and dst() are compared against the native object only (no Coq model); the C locale is in force",
               "hash equality is observed inside one interpreter (PYTHONHASHSEED=0); the model's hash key is compared through hash(timedelta(microseconds=key))",
               "naive timestamp() is evaluated with TZ=UTC (the staged environment)"]
VM_SUBSET = 120

STD = G.STD_NAMES
CLASSES = ["DateTime", "Date", "Time"]
OWNERS = ["", "DateTime", "Date", "Time", "FormattableMixin", "datetime", "date", "time", "object"]
NONE = 999999999999            # encodes None in integer vectors
FMT = "%Y|%m|%d|%H|%M|%S|%f|%z|%Z|%a|%A|%b|%B|%j|%U|%W|%w|%y|%p|%I|%c|%x|%X|%G|%V|%u|%%"
FMT_NOZ = FMT.replace("|%Z", "")
MODES = ["pp", "pn_a", "pn_b", "np_a", "np_b"]


# ----------------------------------------------------------------------------- canonical observations (stdlib only)
def _td_us(td):
    return None if td is None else (td.days * 86400 + td.seconds) * T.MEG + td.microseconds


def _tdt(td):
    return [_dt.timedelta.days.__get__(td), _dt.timedelta.seconds.__get__(td), _dt.timedelta.microseconds.__get__(td)]


def _try(f):
    try:
        return f()
    except Exception as e:  # noqa
        return ["E", type(e).__name__]


def _tname(o):
    return type(o).__name__


def obs_dt(x, fmt):
    """Every standard accessor of a datetime-like object, canonical: [(name, value)]."""
    o = []
    o.append(("isoformat", _try(lambda: x.isoformat())))
    o.append(("isoformat_sp", _try(lambda: x.isoformat(" "))))
    o.append(("isoformat_ms", _try(lambda: x.isoformat(timespec="milliseconds"))))
    o.append(("strftime", _try(lambda: x.strftime(fmt))))
    o.append(("fmt_pct", _try(lambda: format(x, fmt))))
    o.append(("ctime", _try(lambda: x.ctime())))
    o.append(("timetuple", _try(lambda: list(x.timetuple()))))
    o.append(("utctimetuple", _try(lambda: list(x.utctimetuple()))))
    o.append(("toordinal", _try(lambda: x.toordinal())))
    o.append(("weekday", _try(lambda: x.weekday())))
    o.append(("isoweekday", _try(lambda: x.isoweekday())))
    o.append(("isocalendar", _try(lambda: list(x.isocalendar()))))
    o.append(("timestamp", _try(lambda: x.timestamp().hex())))
    o.append(("utcoffset", _try(lambda: _td_us(x.utcoffset()))))
    o.append(("tzname", _try(lambda: x.tzname())))
    o.append(("dst", _try(lambda: _td_us(x.dst()))))
    o.append(("date", _try(lambda: (lambda d: [_tname(d), d.year, d.month, d.day])(x.date()))))
    o.append(("time", _try(lambda: (lambda t: [_tname(t), t.hour, t.minute, t.second, t.microsecond, t.fold, t.tzinfo is None])(x.time()))))
    o.append(("fields", [x.year, x.month, x.day, x.hour, x.minute, x.second, x.microsecond, x.fold]))
    return o


def obs_date(x):
    o = []
    o.append(("isoformat", _try(lambda: x.isoformat())))
    o.append(("strftime", _try(lambda: x.strftime(FMT_NOZ))))
    o.append(("fmt_pct", _try(lambda: format(x, FMT_NOZ))))
    o.append(("ctime", _try(lambda: x.ctime())))
    o.append(("timetuple", _try(lambda: list(x.timetuple()))))
    o.append(("toordinal", _try(lambda: x.toordinal())))
    o.append(("weekday", _try(lambda: x.weekday())))
    o.append(("isoweekday", _try(lambda: x.isoweekday())))
    o.append(("isocalendar", _try(lambda: list(x.isocalendar()))))
    o.append(("fields", [x.year, x.month, x.day]))
    return o


def obs_time(x):
    o = []
    o.append(("isoformat", _try(lambda: x.isoformat())))
    o.append(("isoformat_ms", _try(lambda: x.isoformat(timespec="milliseconds"))))
    o.append(("strftime", _try(lambda: x.strftime("%H|%M|%S|%f|%z|%p|%I|%X"))))
    o.append(("fmt_pct", _try(lambda: format(x, "%H|%M|%S|%f|%z|%p|%I|%X"))))
    o.append(("utcoffset", _try(lambda: _td_us(x.utcoffset()))))
    o.append(("tzname", _try(lambda: x.tzname())))
    o.append(("dst", _try(lambda: _td_us(x.dst()))))
    o.append(("fields", [x.hour, x.minute, x.second, x.microsecond, x.fold]))
    return o


PTYPE = {"date": "Date", "time": "Time", "datetime": "DateTime"}


def expect_pendulum(nat_obs):
    """The native observation with the result types replaced by the pendulum types the property asks for."""
    out = []
    for k, v in nat_obs:
        if k in ("date", "time") and isinstance(v, list) and v and v[0] in PTYPE:
            v = [PTYPE[v[0]]] + v[1:]
        out.append((k, v))
    return out


def diff_obs(a, b, skip=()):
    return [ka for (ka, va), (kb, vb) in zip(a, b) if ka not in skip and va != vb]


def stringy(p_obs):
    """[(name, str(x)-style extras)] — relations between the pendulum object's own answers"""
    return p_obs


def _ops(x, y):
    """six comparisons, hash equality: 0/1, 2 = TypeError, 3 = other exception"""
    import operator
    out = []
    for op in (operator.eq, operator.ne, operator.lt, operator.le, operator.gt, operator.ge):
        try:
            r = op(x, y)
            out.append(1 if r is True else 0 if r is False else 4)
        except TypeError:
            out.append(2)
        except Exception:  # noqa
            out.append(3)
    out.append(1 if hash(x) == hash(y) else 0)
    return out


def _sub(x, y):
    try:
        r = x - y
    except Exception as e:  # noqa
        return ["E", type(e).__name__]
    if not isinstance(r, _dt.timedelta):
        return ["T", _tname(r)]
    return [_tname(r)] + _tdt(r)


def native_pair(a, same_obj_policy):
    """The two native operands of a binary case; tzinfo objects identical iff the implementation's operands share theirs."""
    s1, W1, f1, s2, W2, f2, mode = a
    z1 = None if s1 is None else T.ref_zone(s1)
    if s2 is None:
        z2 = None
    elif s1 == s2 and same_obj_policy:
        z2 = z1
    elif isinstance(s2, int):
        z2 = _dt.timezone(_dt.timedelta(seconds=s2))          # a fresh object
    else:
        z2 = zoneinfo.ZoneInfo.no_cache(s2)
    return T.native(W1, f1, z1), T.native(W2, f2, z2)


def shares_tzinfo(a):
    """Do the implementation's two operands carry the very same tzinfo object?  (pendulum caches one object per name / offset)"""
    s1, _, _, s2, _, _, mode = a
    if s1 is None or s2 is None:
        return s1 is None and s2 is None
    return s1 == s2 and MODES[mode] in ("pp", "pn_a", "np_a")


# ----------------------------------------------------------------------------- operands carrying FOREIGN tzinfo kinds (stream family dt-foreign-*)
# An operand is [carrier, kind, param, inst, W, fold]:
#   carrier  "p"  pendulum.DateTime(*fields, tzinfo=<object>, fold)            (the plain constructor)
#            "pa" <pendulum UTC value of the same instant>.astimezone(<object>)   (how ordinary code obtains such a value)
#            "pf" pendulum.DateTime.fromisoformat(<native isoformat>)           (datetime.timezone kinds only; the tzinfo object is made by fromisoformat)
#            "n"  datetime.datetime(*fields, tzinfo=<object>, fold)             (a native operand)
#   kind     "naive" | "pz" pendulum zone (param = name | offset) | "tzutc" datetime.timezone.utc | "tz" datetime.timezone(offset) |
#            "tzn" datetime.timezone(offset, name) | "zi" zoneinfo.ZoneInfo(key) | "zif" key-less ZoneInfo.from_file | "du" dateutil.tz.gettz(key) |
#            "duo" dateutil.tz.tzoffset(None, offset) | "duu" dateutil.tz.tzutc() | "user" UserFixed(offset, name) | "usert" UserTable(key) |
#            "pytz" pytz.timezone(key).localize(<wall>, is_dst=<the offset of fold>).tzinfo
#   inst     two operands of one case carry the SAME tzinfo object iff (kind, param, inst) agree (singletons/caches: always)
F_CARRIERS = ("p", "pa", "pf", "n")
F_FIXED_KINDS = ("tzutc", "tz", "tzn", "duo", "duu", "user")
F_NAMED_KINDS = ("zi", "zif", "du", "usert", "pytz")
F_PA_KINDS = ("tzutc", "tz", "tzn", "user")          # astimezone() targets whose fromutc is CPython's own (datetime.timezone / tzinfo.fromutc)
F_PY_FROMUTC = ("du", "duo", "duu", "pytz")           # tzinfo classes whose fromutc is written in Python with `dt + delta` / dt.replace(...)
F_KEYLESS = ("tzutc", "tz", "tzn", "zif", "du", "duo", "duu", "user", "usert")       # no key / name / zone attribute


class UserFixed(_dt.tzinfo):
    """A user tzinfo subclass with a constant offset (no key / name / zone attribute)."""

    def __init__(self, off, label):
        self._o = _dt.timedelta(seconds=off)
        self._l = label

    def utcoffset(self, dt):
        return self._o

    def dst(self, dt):
        return _dt.timedelta(0)

    def tzname(self, dt):
        return self._l


class UserTable(_dt.tzinfo):
    """A user tzinfo subclass answering from a tz database table (it hides a ZoneInfo; no key / name / zone attribute)."""

    def __init__(self, key):
        self._z = zoneinfo.ZoneInfo.no_cache(key)

    def _as(self, dt):
        return _dt.datetime(dt.year, dt.month, dt.day, dt.hour, dt.minute, dt.second, dt.microsecond, tzinfo=self._z, fold=dt.fold)

    def utcoffset(self, dt):
        return self._z.utcoffset(None) if dt is None else self._as(dt).utcoffset()

    def dst(self, dt):
        return None if dt is None else self._as(dt).dst()

    def tzname(self, dt):
        return "usert" if dt is None else self._as(dt).tzname()

    def fromutc(self, dt):
        r = self._z.fromutc(self._as(dt))
        return type(dt)(r.year, r.month, r.day, r.hour, r.minute, r.second, r.microsecond, tzinfo=self, fold=r.fold)


def _tzfile_path(key):
    import os
    for d in zoneinfo.TZPATH:
        p = os.path.join(d, key)
        if os.path.isfile(p):
            return p
    return None


def f_spec(kind, param):
    """The zone spec (tz database name | fixed offset in seconds | None) whose table the tzinfo kind presents."""
    if kind == "naive":
        return None
    if kind in ("tzutc", "duu"):
        return 0
    if kind in ("tz", "duo"):
        return param
    if kind in ("tzn", "user"):
        return param[0]
    return param


def _f_key(op):
    carrier, kind, param, inst, W, f = op
    if kind in ("pz", "tzutc", "duu", "duo"):
        inst = 0                                         # one object per name / offset (pendulum's and dateutil's caches, singletons)
    k = (kind, repr(param), inst)
    if kind == "tz" and param == 0:
        k = ("tzutc", "None", 0)                       # datetime.timezone(timedelta(0)) IS the timezone.utc singleton
    if carrier == "pf" and k[0] != "tzutc":
        k = ("pf", repr(param), W, f)                  # fromisoformat makes a datetime.timezone object of its own
    if kind == "pytz":
        k = (kind, param, T.off_s(T.native(W, f, zoneinfo.ZoneInfo(param))))     # pytz: one tzinfo object per (zone, offset)
    return k


def f_tzobj(op, memo, side):
    """The tzinfo object of an operand.  side "impl": inside the staged interpreter; "ref": the stdlib-only equivalent for the oracle
    (None where there is none)."""
    carrier, kind, param, inst, W, f = op
    if kind == "naive":
        return None
    k = _f_key(op)
    if k in memo:
        return memo[k]
    td = _dt.timedelta
    if kind == "pz":
        if side == "impl":
            o = T.pzone(param)
        else:                                            # an object of its own (pendulum's zone objects are never the stdlib caches' objects)
            o = zoneinfo.ZoneInfo.no_cache(param) if isinstance(param, str) else _dt.timezone(td(seconds=param), "pz")
    elif kind == "tzutc":
        o = _dt.timezone.utc
    elif kind == "tz":
        o = _dt.timezone(td(seconds=param))
    elif kind == "tzn":
        o = _dt.timezone(td(seconds=param[0]), param[1])
    elif kind == "zi":
        o = zoneinfo.ZoneInfo(param) if inst == 0 else zoneinfo.ZoneInfo.no_cache(param)
    elif kind == "zif":
        with open(_tzfile_path(param), "rb") as fh:
            o = zoneinfo.ZoneInfo.from_file(fh)
    elif kind == "user":
        o = UserFixed(param[0], param[1])
    elif kind == "usert":
        o = UserTable(param)
    elif side == "ref":
        if kind == "du":
            o = zoneinfo.ZoneInfo.no_cache(param)
        elif kind == "duo":
            o = _dt.timezone(td(seconds=param), "duo")
        elif kind == "duu":
            o = _dt.timezone(td(0), "UTC")
        else:                                            # pytz: one object per offset; the offset of (W, fold) in the zone
            o = _dt.timezone(T.native(W, f, zoneinfo.ZoneInfo(param)).utcoffset(), "pytz")
    else:
        if kind == "du":
            import dateutil.tz
            o = dateutil.tz.gettz(param) if inst == 0 else dateutil.tz.gettz.nocache(param)
        elif kind == "duo":
            import dateutil.tz
            o = dateutil.tz.tzoffset(None, param)
        elif kind == "duu":
            import dateutil.tz
            o = dateutil.tz.tzutc()
        else:
            import pytz
            z = pytz.timezone(param)
            want = T.native(W, f, zoneinfo.ZoneInfo(param)).utcoffset()
            o = None
            for is_dst in (False, True):
                try:
                    cand = z.localize(T.native(W, 0, None), is_dst=is_dst).tzinfo
                except Exception:  # noqa
                    continue
                if getattr(cand, "_utcoffset", _dt.timedelta(0)) == want:
                    o = cand
            if o is None:
                raise LookupError("pytz has no tzinfo with the wanted offset")
    memo[k] = o
    return o


def f_ref_ok(op):
    """Does the stdlib-only reference object answer as the interpreter-side object does for this operand?  dateutil's tzfile ignores the
    POSIX footer (years after 2037) and reads a skipped wall time differently from zoneinfo: there the in-interpreter native twin is the only oracle."""
    carrier, kind, param, inst, W, f = op
    if kind == "du":
        y = T.fields_of(W)[0]
        return 1972 <= y <= 2036 and len(T.solutions(zoneinfo.ZoneInfo(param), W // T.MEG)) >= 1
    # a pytz tzinfo is one offset of its zone; its fromutc() answers with ANOTHER object of the zone: no stdlib equivalent for astimezone targets
    return kind != "pytz"


def _f_astz(x, y):
    if x.tzinfo is None or y.tzinfo is None:
        return ["-"]
    try:
        r = x.astimezone(y.tzinfo)
    except Exception as e:  # noqa
        return ["E", type(e).__name__]
    return [_tname(r), T.wall_of(r), r.fold, T.off_s(r), 1 if r.tzinfo is y.tzinfo else 0]


def f_obs(x, y):
    """Every binary operation of the property on the ordered pair, both orders."""
    return [_ops(x, y), _sub(x, y), _ops(y, x), _sub(y, x), _f_astz(x, y), _f_astz(y, x)]


def _f_off2(n):
    """utcoffset of the wall time under fold 0 and fold 1"""
    if n.tzinfo is None:
        return [None, None]
    return [T.off_s(n.replace(fold=0)), T.off_s(n.replace(fold=1))]


def f_build(pendulum, op, memo):
    """(operand, its native twin with the same fields and the same tzinfo object, the tzinfo object asked for)"""
    carrier, kind, param, inst, W, f = op
    tz = f_tzobj(op, memo, "impl")
    n = T.native(W, f, tz)
    y, mo, d, h, mi, s, us = T.fields_of(W)
    if carrier == "n":
        return n, n, tz
    if carrier == "p":
        x = pendulum.DateTime(y, mo, d, h, mi, s, us, tzinfo=tz, fold=f)
    elif carrier == "pa":
        u = n.astimezone(_dt.timezone.utc)
        x = pendulum.DateTime(u.year, u.month, u.day, u.hour, u.minute, u.second, u.microsecond, tzinfo=pendulum.UTC).astimezone(tz)
    else:
        x = pendulum.DateTime.fromisoformat(n.isoformat())
    twin = _dt.datetime(x.year, x.month, x.day, x.hour, x.minute, x.second, x.microsecond, tzinfo=x.tzinfo, fold=x.fold)
    return x, twin, tz


def f_impl(pendulum, a):
    memo = {}
    (x1, n1, t1), (x2, n2, t2) = f_build(pendulum, a[0], memo), f_build(pendulum, a[1], memo)
    info = [[_tname(x), T.wall_of(x), x.fold, 1 if x.tzinfo is t else 0] + _f_off2(n) for x, n, t in ((x1, n1, t1), (x2, n2, t2))]
    return [0, f_obs(x1, x2), f_obs(n1, n2), info, 1 if x1.tzinfo is x2.tzinfo else 0]


def f_reference(a):
    """The same observations on native operands built with stdlib-only tzinfo objects (None: no stdlib equivalent in this region)."""
    if not (f_ref_ok(a[0]) and f_ref_ok(a[1])):
        return None
    memo = {}
    ns = []
    for op in a:
        ns.append(T.native(op[4], op[5], f_tzobj(op, memo, "ref")))
    return f_obs(ns[0], ns[1]), [_f_off2(n) for n in ns], ns[0].tzinfo is ns[1].tzinfo


# ----------------------------------------------------------------------------- process-wide configuration + naive receivers (stream family dt-cfg-*)
# fn dt_cfg, args [steps, route, W, fold, target, kind]: the case performs the configuration HISTORY `steps` itself (and restores what it found), then asks a
# NAIVE DateTime every standard accessor and astimezone:
#   steps   [["set", zone | None], ["test_enter", zone], ["test_exit"], ["rejected", k]]   set_local_timezone / test_local_timezone / a rejected configuration call
#   route   0 DateTime(*fields, fold) | 1 pendulum.naive(*fields, fold) | 2 DateTime(*fields, tzinfo=<Europe/Paris>, fold).replace(tzinfo=None)
#   target  zone spec | None ;  kind 0 the pendulum timezone object | 1 the stdlib tzinfo | 2 astimezone() without argument
CFG_ZONES = ["Asia/Tokyo", "America/Toronto", "Asia/Kathmandu", "Europe/Paris", "Australia/Lord_Howe", "Pacific/Apia", 20700, -12600, 3600, "UTC", 0]
CFG_TARGETS = ["UTC", "Europe/Paris", "America/New_York", "Asia/Kolkata", "Australia/Lord_Howe", "Asia/Kathmandu", 0, 3600, -12600, 19800]
CFG_REJECTED = 4


def _cfg_histories(rnd):
    z = lambda: CFG_ZONES[rnd.randrange(len(CFG_ZONES))]   # noqa
    return [[], [["set", z()]], [["test_enter", z()]], [["set", z()], ["set", z()]], [["rejected", rnd.randrange(CFG_REJECTED)], ["set", z()]],
            [["set", z()], ["rejected", rnd.randrange(CFG_REJECTED)]], [["set", z()], ["set", None]], [["test_enter", z()], ["test_exit"]],
            [["set", z()], ["test_enter", z()], ["test_exit"]], [["rejected", rnd.randrange(CFG_REJECTED)]], [["set", None], ["test_enter", z()]]]


def cfg_cases(tier, seed):
    rnd = random.Random(seed * 104729 + 5)
    out = []
    walls = list(F_WALLS) + [_w(2021, 1, 15, 12), _w(2021, 7, 15, 23, 30, 15, 123456), _w(1999, 12, 31, 23, 59, 59, 999999)]
    n = 700 if tier == "quick" else 12000
    i = 0
    while len(out) < n:
        for h in _cfg_histories(rnd):
            i += 1
            if i % 3 == 0:
                W = walls[rnd.randrange(len(walls))]
            elif i % 3 == 1:
                # around a transition of the target / a configured zone (read as UTC and as local wall time)
                name = [zz for zz in CFG_ZONES + CFG_TARGETS if isinstance(zz, str)][rnd.randrange(13)]
                trs = T.transition_probes(name, rnd, per_zone=2)
                W = None
                if trs:
                    tt, o_pre, o_post = trs[rnd.randrange(len(trs))]
                    pr = [w for w in T.wall_probes(tt, o_pre, o_post) if _ok_wall(w)]
                    if pr:
                        W = pr[rnd.randrange(len(pr))] - (o_pre if rnd.randrange(2) else 0) * T.MEG
                if W is None or not _ok_wall(W):
                    W = rnd.randrange(T.US_DAY * 400, T.MAX_WALL - T.US_DAY * 400)
            else:
                W = rnd.randrange(T.US_DAY * 400, T.MAX_WALL - T.US_DAY * 400)
            kind = rnd.randrange(3) if i % 5 else 2
            target = None if kind == 2 else CFG_TARGETS[rnd.randrange(len(CFG_TARGETS))]
            stream = "dt-cfg-" + ("default" if not h else "rejected-only" if all(st[0] == "rejected" for st in h) else "local-timezone")
            out.append({"stream": stream, "fn": "dt_cfg", "args": [h, i % 3, W, rnd.randrange(2), target, kind]})
    return out[:n]


def _cfg_determined(steps):
    """does the history itself fix the local-timezone setting (so that the answer of pendulum.local_timezone() may be reported)?"""
    return any(st[0] in ("set", "test_enter", "test_exit") for st in steps)


def _cfg_impl(pendulum, a):
    import sys
    steps, route, W, f, target, kind = a
    lt = sys.modules["pendulum.tz.local_timezone"]
    saved = lt._mock_local_timezone
    cms = []
    try:
        for st in steps:
            if st[0] == "set":
                pendulum.set_local_timezone(None if st[1] is None else T.pzone(st[1]))
            elif st[0] == "test_enter":
                cm = pendulum.test_local_timezone(T.pzone(st[1]))
                cm.__enter__()
                cms.append(cm)
            elif st[0] == "test_exit":
                if cms:
                    cms.pop().__exit__(None, None, None)
                else:
                    pendulum.set_local_timezone()
            else:
                try:
                    [lambda: pendulum.set_locale("tlh"), lambda: pendulum.week_starts_at(9), lambda: pendulum.timezone("No/Where"),
                     lambda: pendulum.set_local_timezone(pendulum.timezone("Mars/Olympus"))][st[1] % CFG_REJECTED]()
                except Exception:  # noqa: expected
                    pass
        y, mo, d, h, mi, s, us = T.fields_of(W)
        if route == 0:
            p = pendulum.DateTime(y, mo, d, h, mi, s, us, fold=f)
        elif route == 1:
            p = pendulum.naive(y, mo, d, h, mi, s, us, fold=f)
        else:
            p = pendulum.DateTime(y, mo, d, h, mi, s, us, tzinfo=T.pzone("Europe/Paris"), fold=f).replace(tzinfo=None)
        n = T.native(W, f, None)
        tz2 = None if kind == 2 else T.pzone(target) if kind == 0 else T.ref_zone(target)

        def astz(x):
            try:
                r = x.astimezone() if kind == 2 else x.astimezone(tz2)
            except Exception as e:  # noqa
                return ["E", type(e).__name__]
            same = (type(r.tzinfo) is _dt.timezone) if kind == 2 else (r.tzinfo is tz2)
            return [_tname(r), T.wall_of(r), r.fold, T.off_s(r), 1 if same else 0]
        ra, ea = astz(p), astz(n)
        po = obs_dt(p, FMT_NOZ)
        da = diff_obs(po, expect_pendulum(obs_dt(n, FMT_NOZ)))
        cmpn = [1 if p == n else 0, 1 if n == p else 0, 1 if hash(p) == hash(n) else 0]
        loc_off = None
        if _cfg_determined(steps):
            u = T.native(W - W % T.MEG, 0, _dt.timezone.utc)
            loc_off = T.off_s(u.astimezone(pendulum.local_timezone()))
        return [0, ra, ea, [_tname(p), T.wall_of(p), p.fold, 1 if p.tzinfo is None else 0], da, cmpn, dict(po)["timestamp"], loc_off]
    finally:
        while cms:
            try:
                cms.pop().__exit__(None, None, None)
            except Exception:  # noqa
                pass
        pendulum.set_local_timezone(saved)


def _cfg_zone_enc(spec, W):
    u = T.unix_of_wall(W)
    return T.zone_enc(spec, u - 100000, u + 100000)


def cfg_model_calls(a):
    steps, route, W, f, target, kind = a
    enc = [0, 0, len(steps)]                           # the system zone: UTC (TZ=UTC in the staged environment)
    for st in steps:
        if st[0] == "set":
            enc += [0] if st[1] is None else [1] + _cfg_zone_enc(st[1], W)
        elif st[0] == "test_enter":
            enc += [2] + _cfg_zone_enc(st[1], W)
        elif st[0] == "test_exit":
            enc += [3]
        else:
            enc += [4]
    t = 0 if target is None else target
    return [("dt_astz_cfg", enc + [W, f, 1 if isinstance(t, int) else 0] + _cfg_zone_enc(t, W) + [kind])]


def cfg_norm(a, r):
    ra, loc = r[1], r[7]
    if ra[0] == "E":
        return [1, T.EXN.get(ra[1], 14), loc]
    return [0, 1 if ra[0] == "DateTime" else 0] + ra[1:] + [loc]


def cfg_deviations(a, r):
    steps, route, W, f, target, kind = a
    dev = []
    ra, ea, recv, da, cmpn, ts, loc = r[1:8]
    if recv != ["DateTime", W, f, 1]:
        dev.append(f"route:receiver obtained by route {route} is {recv}, expected a naive DateTime with wall {W} fold {f}")
        return dev
    for k in da:
        dev.append(f"{k}: differs from the naive datetime.datetime with the same fields (after the configuration history {steps})")
    if cmpn != [1, 1, 1]:
        dev.append(f"eq/hash: the naive DateTime does not compare/hash equal to the native value {cmpn}")
    # the native answer, by the stdlib alone: a naive value is system local time; the staged environment has TZ=UTC
    if kind == 2:
        exp = ["DateTime", W, 0, 0, 1]
    else:
        try:
            w2, f2, o2 = T.ref_render(T.ref_zone(target), W)
            exp = ["DateTime", w2, f2, o2, 1]
        except (OverflowError, ValueError):
            exp = None
    if exp is not None:
        if ea[0] == "E" or ea[1:4] != exp[1:4]:
            dev.append(f"twin:native the native naive datetime inside the interpreter answers {ea}, the stdlib reference (TZ=UTC) {exp}")
        elif ra[0] == "E":
            dev.append(f"astimezone:raises {ra[1]} but the native naive datetime gives {exp} (history {steps})")
        elif ra[:4] != exp[:4]:
            dev.append(f"astimezone: naive receiver after the configuration history {steps}: {ra} but the native naive datetime gives {exp}")
        elif ra[4] != 1:
            dev.append(f"astimezone:tzinfo the result's tzinfo is not the tz argument ({ra})")
    if W > 86400 * T.MEG * 366 and ts != ((W - T.EPOCH_US) / T.MEG).hex():
        dev.append(f"timestamp: {ts} expected {((W - T.EPOCH_US) / T.MEG).hex()} (TZ=UTC)")
    return dev


# ----------------------------------------------------------------------------- __format__ specs (stream family fmt-spec-*, fn fmt_spec)
# args [cls, zone, W, fold, spec]: cls 0 DateTime | 1 Date | 2 Time ; the value has the fields of the wall value W (Date: its date, Time: its time of day, zone None | int | "UTC")
FMT_CONV = "aAbBcdDeFgGhHIjmMnpRSTuUVwWxXyYzZ"
FMT_FLAGS = ["-", "_", "^", "#", "0", ":", "4", "10", "-3", "E", "O", "_5"]
FMT_LIT = ["", ":", ".", " ", "-", "/", "T", "[", "]", "100", "é", "at ", "YYYY", "d"]
FMT_FIXED = ["", "%", "%%", "100%", "100%%", "%Y%", "a%", "%-d", "%-H:%-M", "%_d", "%^b", "%^a", "%#Z", "%4Y", "%:z", "[%:z]", "%-d.%-m.", "%-I", "%-j", "%_H", "%-S s", "%e", "%Ex", "%Od",
             "YYYY [100%]", "%5%", "% d", "%é", "%-", "%:", "%::z", "%Y-%m-%d", "%H:%M:%S.%f", "%A %d %B %Y", "%j|%U|%W", "%I %p", "%z", "%Z", "%-y", "%-m/%-d/%Y", "%%Y", "%%%-d",
             "YYYY-MM-DD", "dddd", "HH:mm", "[x]", "Do MMMM", "LT", "x", " "]
FMT_ZONES = [None, "UTC", "Europe/Paris", "America/St_Johns", "Asia/Kathmandu", 3600, -12600]
FMT_PORTABLE = set("aAbBdHIjmMpSUwWyYzZ%")


def _fmt_random_spec(rnd, cls_kind):
    """cls_kind 0: every directive flagged | 1: plain directives | 2: mixed | 3: percent signs only | 4: no percent sign"""
    parts = []
    for _ in range(1 + rnd.randrange(4)):
        lit = FMT_LIT[rnd.randrange(len(FMT_LIT))]
        if cls_kind == 4:
            parts.append(lit or "MM")
            continue
        if cls_kind == 3:
            parts.append(lit + ["%%", "%%", "%"][rnd.randrange(3)] if parts or rnd.randrange(2) else lit + "%%")
            continue
        flagged = cls_kind == 0 or (cls_kind == 2 and rnd.randrange(2))
        parts.append(lit + "%" + (FMT_FLAGS[rnd.randrange(len(FMT_FLAGS))] if flagged else "") + FMT_CONV[rnd.randrange(len(FMT_CONV))])
    s = "".join(parts)
    if cls_kind == 3:
        # a lone '%' only at the very end (a '%' followed by a letter would be a directive)
        s = s.replace("%%", "\0").replace("%", "").replace("\0", "%%") + ("%" if rnd.randrange(2) else "")
        s = s or "%"
    return s


def fmt_cases(tier, seed):
    rnd = random.Random(seed * 15485863 + 3)
    out = []
    walls = list(F_WALLS) + [_w(2024, 2, 9, 7, 5, 3, 40), _w(1999, 12, 31, 23, 59, 59, 999999), _w(2020, 11, 3), _w(1000, 1, 1, 0, 0, 1), _w(9999, 12, 28, 23, 59, 59, 999999)]
    k = 0
    for spec in FMT_FIXED:
        for cls in (0, 1, 2):
            for j in range(2):
                k += 1
                zone = FMT_ZONES[(k + j) % len(FMT_ZONES)]
                if cls == 2 and isinstance(zone, str):
                    zone = "UTC"
                if cls == 1:
                    zone = None
                out.append({"stream": "fmt-spec-" + ["datetime", "date", "time"][cls], "fn": "fmt_spec", "args": [cls, zone, walls[(k * 5 + j) % len(walls)], k % 2, spec]})
    n = 900 if tier == "quick" else 20000
    for i in range(n):
        cls = i % 3
        ck = [0, 0, 1, 2, 3, 4, 0, 2][i % 8] if i % 16 else 0
        spec = _fmt_random_spec(rnd, ck)
        zone = FMT_ZONES[rnd.randrange(len(FMT_ZONES))]
        if cls == 2 and isinstance(zone, str):
            zone = "UTC"
        if cls == 1:
            zone = None
        W = walls[rnd.randrange(len(walls))] if i % 2 else rnd.randrange(_w(1000, 1, 1), T.MAX_WALL - T.US_DAY * 3)
        out.append({"stream": "fmt-spec-" + ["datetime", "date", "time"][cls], "fn": "fmt_spec", "args": [cls, zone, W, rnd.randrange(2), spec]})
    for c in out:
        if c["args"][4] != "" and "%" not in c["args"][4]:
            c["ambient_depends"] = ["locale"]      # pendulum's own formatter (a spec without '%') legitimately follows set_locale (C08)
    return out


_FMT_PROBES = {}


def _fmt_probe_classes(pendulum):
    if not _FMT_PROBES:
        def mk(base):
            return type("Probe", (base,), {"strftime": lambda self, fmt: "S", "format": lambda self, fmt, locale=None: "F", "__str__": lambda self: "E"})
        for nm in ("DateTime", "Date", "Time"):
            _FMT_PROBES[nm] = mk(getattr(pendulum, nm))
        for nm, base in (("datetime", _dt.datetime), ("date", _dt.date), ("time", _dt.time)):
            _FMT_PROBES[nm] = type("NProbe", (base,), {"strftime": lambda self, fmt: "S", "__str__": lambda self: "E"})
    return _FMT_PROBES


def _fmt_build(classes, cls, tz, W, f):
    """(value of the class `classes[0]`, of `classes[1]`, ...) with the fields of W"""
    y, mo, d, h, mi, s, us = T.fields_of(W)
    if cls == 0:
        return [c(y, mo, d, h, mi, s, us, tzinfo=tz, fold=f) for c in classes]
    if cls == 1:
        return [c(y, mo, d) for c in classes]
    return [c(h, mi, s, us, tzinfo=tz, fold=f) for c in classes]


def _fmt_impl(pendulum, a):
    import sys
    cls, zone, W, f, spec = a
    pr = _fmt_probe_classes(pendulum)
    pn, nn = ["DateTime", "Date", "Time"][cls], ["datetime", "date", "time"][cls]
    tz = None if zone is None else T.pzone(zone)
    p, n, pp, npb = _fmt_build([getattr(pendulum, pn), getattr(_dt, nn), pr[pn], pr[nn]], cls, tz, W, f)
    g = [_try(lambda: format(p, spec)), _try(lambda: "{:{}}".format(p, spec)), _try(lambda: "{0:{1}}|{0:{1}}".format(p, spec)), _try(lambda: p.__format__(spec)),
         _try(lambda: p.strftime(spec))]
    e = [_try(lambda: format(n, spec)), _try(lambda: n.strftime(spec))]
    return [0, g, e, _try(lambda: format(pp, spec)), _try(lambda: format(npb, spec)), _tname(p), list(sys.version_info[:2])]


def _fmt_portable(spec):
    i = 0
    while i < len(spec):
        if spec[i] == "%":
            if i + 1 >= len(spec) or spec[i + 1] not in FMT_PORTABLE:
                return False
            i += 2
        else:
            i += 1
    return spec.isascii()


def fmt_deviations(a, r):
    cls, zone, W, f, spec = a
    dev = []
    g, e, route, nroute, tn, ver = r[1:7]
    kindname = ["DateTime", "Date", "Time"][cls]
    if tn != kindname:
        dev.append(f"type is {tn}")
    twice = g[0] + "|" + g[0] if isinstance(g[0], str) else g[0]
    if not (g[0] == g[1] == g[3]) or g[2] != twice:
        dev.append(f"format:spellings format(x, spec), str.format and x.__format__ disagree for spec {spec!r}: {g[:4]}")
    if nroute != ("E" if spec == "" else "S"):
        dev.append(f"twin:route the native {kindname.lower()} routes spec {spec!r} to {nroute}")
    if spec == "" or "%" in spec:
        # the native __format__: str(self) for the empty spec, strftime(spec) for EVERY other one
        if g[0] != e[0]:
            dev.append(f"format: {kindname} format(x, {spec!r}) = {g[0]!r} but the native object with the same fields and tzinfo gives {e[0]!r}")
        if spec != "" and g[4] != e[1]:
            dev.append(f"strftime: {kindname} strftime({spec!r}) = {g[4]!r} but native gives {e[1]!r}")
        if route != ("E" if spec == "" else "S"):
            dev.append(f"format:route spec {spec!r} is answered by {'format()' if route == 'F' else route} instead of {'str()' if spec == '' else 'strftime()'}")
        # the in-interpreter native twin against the stdlib alone (portable directives only: the runner's CPython / glibc may differ otherwise)
        y = T.fields_of(W)[0]
        if (spec == "" or _fmt_portable(spec)) and y >= 1000 and not (isinstance(zone, int) and ("%Z" in spec or spec == "")) and isinstance(e[0], str):
            tz = None if zone is None else T.ref_zone(zone)
            ref = _fmt_build([[_dt.datetime, _dt.date, _dt.time][cls]], cls, tz, W, f)[0]
            want = _try(lambda: format(ref, spec))
            if want != e[0]:
                dev.append(f"twin:native format(native, {spec!r}) inside the interpreter is {e[0]!r}, by the stdlib alone {want!r}")
    else:
        if route != "F":
            dev.append(f"format:route spec {spec!r} without a percent sign is answered by {route}, not by pendulum's formatter")
    return dev


# ----------------------------------------------------------------------------- cases
def _zones_for(tier, rnd):
    if tier == "thorough":
        return list(zones.names())
    return zones.pick_zones(rnd, 60)


FIXED = [0, 3600, -3600, 19800, 20700, -12600, 86340, -86340, 45 * 60, 14 * 3600, 1, -59]
MONTH_SHAPES = [(y, m) for y in (1, 4, 100, 400, 1900, 1999, 2000, 2023, 2024, 2100, 9996, 9999) for m in range(1, 13)]


W_PARIS_0230_OCT = (63518428800 + 9000) * T.MEG        # 2013-10-27T02:30:00 wall (repeated in Europe/Paris)
W_PARIS_0330_MAR = (63500284800 + 12600) * T.MEG       # 2013-03-31T03:30:00 wall


def _ok_wall(W):
    return T.US_DAY * 3 < W < T.MAX_WALL - T.US_DAY * 3


def _instant_of(spec, W, f):
    n = T.native(W, f, T.ref_zone(spec))
    return W - T.off_s(n) * T.MEG


def _render(spec, U):
    w, f, o = T.ref_render(T.ref_zone(spec), U)
    return w, f


F_KINDS = [("tzutc", None), ("tz", 0), ("tz", 19800), ("tz", -12600), ("tz", 3600), ("tz", 86340), ("tzn", [-10800, "X"]), ("tzn", [0, "Z"]), ("tzn", [3600, "CET"]),
           ("zi", "Europe/Paris"), ("zi", "America/New_York"), ("zi", "UTC"), ("zi", "Australia/Lord_Howe"), ("zif", "Europe/Paris"), ("zif", "America/New_York"),
           ("du", "Europe/Paris"), ("du", "America/New_York"), ("duo", 19800), ("duo", 0), ("duo", -3600), ("duu", None),
           ("user", [3600, "U1"]), ("user", [0, "UTC"]), ("user", [-16200, "U2"]), ("usert", "Europe/Paris"), ("usert", "America/St_Johns"),
           ("pytz", "Europe/Paris"), ("pytz", "America/New_York"), ("pytz", "UTC")]
F_PARTNERS = ["UTC", "Europe/Paris", "America/New_York", "Australia/Lord_Howe", "Asia/Kathmandu", 0, 3600, -12600, 19800]
def _w(*a):
    return T.wall_of(_dt.datetime(*a))


F_WALLS = [_w(2013, 10, 27, 2, 30),                  # repeated in Europe/Paris
           _w(2013, 3, 31, 2, 30),                   # skipped in Europe/Paris
           _w(2013, 3, 31, 3, 30, 0, 123456),
           _w(1970, 1, 1),
           _w(2021, 6, 15, 12),
           _w(2021, 11, 7, 1, 0, 0, 1),              # repeated in America/New_York
           _w(2021, 3, 14, 2, 30),                   # skipped in America/New_York
           _w(2000, 2, 29, 13, 14, 15, 16)]
F_LO, F_HI = _w(1972, 1, 1), _w(2037, 1, 1)


def _f_carriers_for(kind, W, f, rnd):
    c = ["p", "n", "p"]
    if kind in F_PA_KINDS:
        c += ["pa", "pa"]
    if kind in ("tz", "tzutc"):
        c.append("pf")
    return c[rnd.randrange(len(c))]


def _f_wall_for(kind, param, rnd, i):
    """a wall time for an operand of this kind: fixed witnesses, probes around the zone's own transitions, random"""
    if i % 3 == 0:
        W = F_WALLS[rnd.randrange(len(F_WALLS))]
    elif kind in F_NAMED_KINDS or (kind == "pz" and isinstance(param, str)):
        trs = T.transition_probes(param, rnd, per_zone=3)
        W = None
        if trs:
            tt, o_pre, o_post = trs[rnd.randrange(len(trs))]
            pr = [w for w in T.wall_probes(tt, o_pre, o_post) if _ok_wall(w)]
            if pr:
                W = pr[rnd.randrange(len(pr))]
        if W is None:
            W = rnd.randrange(T.US_DAY * 3, T.MAX_WALL - T.US_DAY * 3)
    elif i % 3 == 1:
        W = rnd.randrange(_w(1970, 1, 1), _w(2030, 1, 1))
    else:
        W = rnd.randrange(T.US_DAY * 3, T.MAX_WALL - T.US_DAY * 3)
    if kind in ("du", "pytz"):
        # dateutil / pytz tables end in 2037 (no POSIX footer rule): keep their operands inside 1972..2036
        lo, hi = F_LO, F_HI
        if not lo <= W < hi:
            W = rnd.randrange(lo, hi)
    return W


def foreign_cases(tier, seed):
    rnd = random.Random(seed * 7919 + 11)
    out = []
    n_round = 6 if tier == "quick" else 60
    i = 0
    for rd in range(n_round):
        for (kind, param) in F_KINDS:
            # partner classes: a pendulum zone (pendulum value / its native), the same foreign object, the same kind as another object, another foreign kind, naive
            for pc in range(6):
                i += 1
                W1 = _f_wall_for(kind, param, rnd, i)
                f1 = rnd.randrange(2)
                if kind == "pytz" and len(T.solutions(zoneinfo.ZoneInfo(param), W1 // T.MEG)) == 0:
                    f1 = 0
                c1 = _f_carriers_for(kind, W1, f1, rnd)
                op1 = [c1, kind, param, 0, W1, 0 if kind in F_FIXED_KINDS and c1 != "p" else f1]
                if pc in (0, 1):
                    spec = F_PARTNERS[rnd.randrange(len(F_PARTNERS))]
                    k2, p2, inst2 = "pz", spec, 0
                    c2 = "p" if (pc == 0 or c1 == "n") else "n"
                elif pc == 2:
                    k2, p2, inst2 = kind, param, 0
                    c2 = "n" if c1 != "n" and rnd.randrange(2) else "p"
                elif pc == 3:
                    k2, p2, inst2 = kind, param, 1
                    c2 = "n" if c1 != "n" and rnd.randrange(2) else "p"
                elif pc == 4:
                    k2, p2 = F_KINDS[rnd.randrange(len(F_KINDS))]
                    inst2 = rnd.randrange(2)
                    c2 = "n" if c1 != "n" and rnd.randrange(3) == 0 else "p"
                else:
                    k2, p2, inst2 = "naive", None, 0
                    c2 = "p" if c1 == "n" else ["p", "n"][rnd.randrange(2)]
                # the second operand: the same instant rendered in its zone (+-1 us), a near value, or an unrelated one
                mode = rnd.randrange(4)
                W2, f2 = None, rnd.randrange(2)
                if mode < 2 and k2 != "naive":
                    try:
                        U = W1 - T.off_s(T.native(W1, op1[5], f_tzobj(op1, {}, "ref"))) * T.MEG
                        if _ok_wall(U):
                            W2, f2 = _render(f_spec(k2, p2), U + (mode * 2 - 1) * (i % 2))
                    except (OverflowError, ValueError):
                        W2 = None
                if W2 is None or not _ok_wall(W2):
                    W2 = W1 + rnd.randrange(-2 * T.US_DAY, 2 * T.US_DAY) if mode < 3 else _f_wall_for(k2, p2, rnd, i + 1)
                    f2 = rnd.randrange(2)
                if k2 in ("du", "pytz") or kind in ("du", "pytz"):
                    lo, hi = F_LO, F_HI
                    if not (lo <= W2 < hi and lo <= W1 < hi):
                        continue
                if not _ok_wall(W2):
                    continue
                if k2 == "pytz" and len(T.solutions(zoneinfo.ZoneInfo(p2), W2 // T.MEG)) == 0:
                    f2 = 0
                if k2 in F_FIXED_KINDS or k2 == "naive" or (k2 == "pz" and isinstance(p2, int)):
                    f2 = f2 if c2 in ("p", "n") else 0
                op2 = [c2, k2, p2, inst2, W2, f2]
                pair = [op1, op2] if i % 2 else [op2, op1]
                stream = "dt-foreign-" + ("pendulum-zone" if pc < 2 else "same-object" if pc == 2 else "same-kind" if pc == 3 else "mixed" if pc == 4 else "naive")
                out.append({"stream": stream, "fn": "dt_foreign", "args": pair})
    return out


def cases(tier, seed):
    rnd = random.Random(seed)
    out = []
    zs = _zones_for(tier, rnd)
    per = None if tier == "thorough" else 12
    others = ["UTC", "Europe/Paris", "America/New_York", "Australia/Lord_Howe", "Asia/Kathmandu", "Pacific/Apia"]
    k = 0
    for name in zs:
        trs = T.transition_probes(name, rnd, per_zone=per)
        for (tt, o_pre, o_post) in trs:
            probes = [W for W in T.wall_probes(tt, o_pre, o_post) if _ok_wall(W)]
            for W in probes:
                for f in (0, 1):
                    out.append({"stream": "dt-unary-transition", "fn": "dt_unary", "args": [name, W, f]})
            if not probes:
                continue
            # binary: pairs inside the same zone around the transition (all fold combinations rotate), both orders
            for i in range(0, len(probes), 2):
                W1 = probes[i]
                W2 = probes[(i * 3 + 1 + k) % len(probes)]
                f1, f2 = (k >> 0) & 1, (k >> 1) & 1
                mode = k % 5
                k += 1
                out.append({"stream": "dt-binary-same-zone", "fn": "dt_binary", "args": [name, W1, f1, name, W2, f2, mode]})
                out.append({"stream": "dt-binary-same-zone", "fn": "dt_binary", "args": [name, W1, f1, name, W1, 1 - f1, (mode + 1) % 5]})
                # the same instant in another zone / fixed offset (equal values in different zones), and one microsecond apart
                oth = others[k % len(others)] if k % 3 else FIXED[k % len(FIXED)]
                try:
                    U = _instant_of(name, W1, f1)
                    if not _ok_wall(U):
                        continue
                    W3, f3 = _render(oth, U + (k % 3 - 1))
                except (OverflowError, ValueError):
                    continue
                if _ok_wall(W3):
                    out.append({"stream": "dt-binary-cross-zone", "fn": "dt_binary", "args": [name, W1, f1, oth, W3, f3, (mode + 2) % 5]})
                    out.append({"stream": "dt-binary-cross-zone", "fn": "dt_binary", "args": [oth, W3, f3, name, W1, f1, (mode + 3) % 5]})
                    out.append({"stream": "dt-astimezone", "fn": "dt_astz", "args": [name, W1, f1, oth, k % 2]})
                    out.append({"stream": "dt-astimezone", "fn": "dt_astz", "args": [oth, W3, f3, name, (k + 1) % 2]})
            # replace onto the probes from an ordinary value of the zone
            for W in probes[::3]:
                out.append({"stream": "dt-replace", "fn": "dt_replace", "args": [name, probes[0] - 40 * T.US_DAY, k % 2, W, (k >> 1) % 2]})
                k += 1
            W = probes[len(probes) // 2]
            out.append({"stream": "dt-timetz", "fn": "dt_timetz", "args": [name, W, k % 2]})
    # random walls, named zones / fixed offsets / naive
    n_rand = 1500 if tier == "quick" else 40000
    for i in range(n_rand):
        spec = [zs[rnd.randrange(len(zs))], FIXED[rnd.randrange(len(FIXED))], None][i % 3]
        W = rnd.randrange(T.US_DAY * 3, T.MAX_WALL - T.US_DAY * 3)
        f = rnd.randrange(2)
        out.append({"stream": "dt-unary-random", "fn": "dt_unary", "args": [spec, W, f]})
        if i % 2 == 0:
            out.append({"stream": "dt-timetz", "fn": "dt_timetz", "args": [spec, W, f]})
        spec2 = [zs[rnd.randrange(len(zs))], FIXED[rnd.randrange(len(FIXED))], None, spec][rnd.randrange(4)]
        # mostly near (within two days), sometimes centuries apart (float round trip of the Interval length)
        W2 = W + rnd.randrange(-2 * T.US_DAY, 2 * T.US_DAY) if i % 4 else rnd.randrange(T.US_DAY * 3, T.MAX_WALL - T.US_DAY * 3)
        if _ok_wall(W2):
            out.append({"stream": "dt-binary-random", "fn": "dt_binary", "args": [spec, W, f, spec2, W2, rnd.randrange(2), rnd.randrange(5)]})
        if spec is not None and spec2 is not None:
            out.append({"stream": "dt-astimezone", "fn": "dt_astz", "args": [spec, W, f, spec2, i % 2]})
    # the witnesses of the repaired findings time-drops-fold / timetz-returns-native-time, as ordinary cases (every seed, both tiers)
    for spec in ("Europe/Paris", 3600, None):
        for W in (W_PARIS_0230_OCT, W_PARIS_0330_MAR):
            for f in (0, 1):
                out.append({"stream": "dt-time-witness", "fn": "dt_unary", "args": [spec, W, f]})
                out.append({"stream": "dt-time-witness", "fn": "dt_timetz", "args": [spec, W, f]})
    # values at the edges of the supported range
    for W in (0, 1, T.US_DAY - 1, T.US_DAY, T.MAX_WALL, T.MAX_WALL - T.US_DAY):
        for spec in (None, "UTC", 3600, -3600, "Pacific/Kiritimati", "America/New_York"):
            out.append({"stream": "dt-unary-edge", "fn": "dt_unary", "args": [spec, W, 0]})
            # binary operators: keep the UTC instant inside years 1..9999 (outside, Interval.__init__ -> precise_diff raises OverflowError on the
            # pure-Python backend only: that is C06's function, not an accessor of this property)
            Wb = min(max(W, 2 * T.US_DAY), T.MAX_WALL - 2 * T.US_DAY)
            out.append({"stream": "dt-binary-edge", "fn": "dt_binary", "args": [spec, Wb, 0, "UTC" if spec is not None else None, T.MAX_WALL // 2, 0, W % 5]})
    # constructors
    for i in range(300 if tier == "quick" else 5000):
        spec = [zs[rnd.randrange(len(zs))], FIXED[rnd.randrange(len(FIXED))]][i % 2]
        t_us = rnd.randrange(-T.EPOCH_US + 5 * T.US_DAY, T.MAX_WALL - T.EPOCH_US - 5 * T.US_DAY)
        t_us = t_us - t_us % T.MEG + [0, 500000, 250000, 750000, 125000][i % 5]       # fractions that a float carries exactly
        out.append({"stream": "dt-ctor", "fn": "dt_ctor", "args": ["fromtimestamp", spec, t_us]})
        out.append({"stream": "dt-ctor", "fn": "dt_ctor", "args": ["fromordinal", None, rnd.randrange(1, 3652060)]})
        W = rnd.randrange(T.US_DAY * 3, T.MAX_WALL - T.US_DAY * 3)
        out.append({"stream": "dt-ctor", "fn": "dt_ctor", "args": ["combine", spec if i % 4 else None, W, (i // 4 + i) % 2]})   # naive combine with both folds
        out.append({"stream": "dt-ctor", "fn": "dt_ctor", "args": ["strptime", FIXED[i % len(FIXED)] // 60 * 60 if i % 3 else None, W - W % T.MEG]})
    # dates over all month shapes
    for (y, m) in MONTH_SHAPES:
        last = [31, 29 if (y % 4 == 0 and (y % 100 != 0 or y % 400 == 0)) else 28, 31, 30, 31, 30, 31, 31, 30, 31, 30, 31][m - 1]
        for d in sorted({1, 2, 15, last - 1, last}):
            out.append({"stream": "date-unary", "fn": "date_unary", "args": [y, m, d]})
            y2, m2 = MONTH_SHAPES[rnd.randrange(len(MONTH_SHAPES))]
            d2 = rnd.randrange(1, 29)
            for mode in range(3):
                out.append({"stream": "date-binary", "fn": "date_binary", "args": [y, m, d, y2, m2, d2, mode]})
            out.append({"stream": "date-binary", "fn": "date_binary", "args": [y, m, d, y, m, d, d % 3]})
    for _ in range(300 if tier == "quick" else 20000):
        n1, n2 = rnd.randrange(1, 3652060), rnd.randrange(1, 3652060)
        a, b = _dt.date.fromordinal(n1), _dt.date.fromordinal(n2)
        out.append({"stream": "date-unary", "fn": "date_unary", "args": [a.year, a.month, a.day]})
        out.append({"stream": "date-binary", "fn": "date_binary", "args": [a.year, a.month, a.day, b.year, b.month, b.day, rnd.randrange(3)]})
    # times
    tvals = [(0, 0, 0, 0), (23, 59, 59, 999999), (12, 0, 0, 0), (1, 2, 3, 4), (0, 0, 0, 1), (11, 59, 59, 500000)]
    for _ in range(200 if tier == "quick" else 5000):
        tvals.append((rnd.randrange(24), rnd.randrange(60), rnd.randrange(60), rnd.randrange(10 ** 6)))
    for i, tv in enumerate(tvals):
        tz = [None, 0, 3600, -12600, "UTC"][i % 5]
        out.append({"stream": "time-unary", "fn": "time_unary", "args": list(tv) + [tz, i % 2]})
        tv2 = tvals[(i * 7 + 3) % len(tvals)]
        out.append({"stream": "time-binary", "fn": "time_binary", "args": list(tv) + list(tv2) + [i % 3]})
    # operands carrying foreign tzinfo kinds
    out += foreign_cases(tier, seed)
    # naive receivers under a history of process-wide configuration calls; __format__ specs
    out += cfg_cases(tier, seed)
    out += fmt_cases(tier, seed)
    # the generated override table against the real MRO
    for ci, c in enumerate(CLASSES):
        for ni, n in enumerate(STD):
            out.append({"stream": "mro-table", "fn": "mro", "args": [ci, ni]})
    return out


def search_cases(seed):
    return [c for c in cases("thorough", seed) if c["fn"] in ("dt_unary", "dt_binary", "dt_astz")][::5] + foreign_cases("thorough", seed + 1) \
        + cfg_cases("thorough", seed + 1) + fmt_cases("thorough", seed + 1)


def nontrivial(c):
    return True


# ----------------------------------------------------------------------------- implementation (runs inside the staged interpreter)
def _pdt(pendulum, spec, W, f):
    y, mo, d, h, mi, s, us = T.fields_of(W)
    return pendulum.DateTime(y, mo, d, h, mi, s, us, tzinfo=None if spec is None else T.pzone(spec), fold=f)


def _operands(pendulum, a):
    s1, W1, f1, s2, W2, f2, mode = a
    m = MODES[mode]
    p1, p2 = _pdt(pendulum, s1, W1, f1), _pdt(pendulum, s2, W2, f2)

    def nat(p, spec, W, f, same):
        if spec is None:
            return T.native(W, f, None)
        return T.native(W, f, p.tzinfo if same else T.ref_zone(spec))
    if m == "pp":
        return p1, p2
    if m == "pn_a":
        return p1, nat(p2, s2, W2, f2, True)
    if m == "pn_b":
        return p1, nat(p2, s2, W2, f2, False)
    if m == "np_a":
        return nat(p1, s1, W1, f1, True), p2
    return nat(p1, s1, W1, f1, False), p2


def impl_run(cases):
    import warnings
    import pendulum
    warnings.simplefilter("ignore")
    out = []
    for c in cases:
        fn, a = c["fn"], c["args"]
        try:
            if fn == "dt_unary":
                spec, W, f = a
                p = _pdt(pendulum, spec, W, f)
                fmt = FMT_NOZ if isinstance(spec, int) else FMT      # %Z: FixedTimezone names itself "+01:00", datetime.timezone "UTC+01:00" (by design)
                po = obs_dt(p, fmt)
                na = T.native(W, f, p.tzinfo)
                da = diff_obs(po, expect_pendulum(obs_dt(na, fmt)))
                extra = [str(p), format(p, ""), p.for_json(), type(p).__name__,
                         1 if p == na else 0, 1 if na == p else 0, 1 if hash(p) == hash(na) else 0, hash(p) if spec is not None else 0]
                out.append([0, [list(kv) for kv in po], da, extra])
            elif fn == "dt_timetz":
                spec, W, f = a
                p = _pdt(pendulum, spec, W, f)
                t = p.timetz()
                out.append([0, _tname(t), t.hour, t.minute, t.second, t.microsecond, t.fold, 1 if t.tzinfo is p.tzinfo else 0])
            elif fn == "dt_binary":
                x, y = _operands(pendulum, a)
                out.append([0, _ops(x, y), _sub(x, y), 1 if (x.tzinfo is y.tzinfo) else 0])
            elif fn == "dt_foreign":
                out.append(f_impl(pendulum, a))
            elif fn == "dt_cfg":
                out.append(_cfg_impl(pendulum, a))
            elif fn == "fmt_spec":
                out.append(_fmt_impl(pendulum, a))
            elif fn == "dt_astz":
                s1, W, f, s2, kind = a
                p = _pdt(pendulum, s1, W, f)
                tz2 = T.pzone(s2) if kind == 0 else T.ref_zone(s2)
                r = p.astimezone(tz2)
                out.append([0, _tname(r), T.wall_of(r), r.fold, T.off_s(r), 1 if r.tzinfo is tz2 else 0])
            elif fn == "dt_replace":
                spec, W, f, W2, f2 = a
                p = _pdt(pendulum, spec, W, f)
                y, mo, d, h, mi, s, us = T.fields_of(W2)
                r = p.replace(year=y, month=mo, day=d, hour=h, minute=mi, second=s, microsecond=us, fold=f2)
                out.append([0, _tname(r), T.wall_of(r), r.fold, T.off_s(r), 1 if r.tzinfo is p.tzinfo else 0])
            elif fn == "dt_ctor":
                kind = a[0]
                if kind == "fromtimestamp":
                    _, spec, t_us = a
                    r = pendulum.DateTime.fromtimestamp(t_us / T.MEG, tz=T.pzone(spec))
                elif kind == "fromordinal":
                    r = pendulum.DateTime.fromordinal(a[2])
                elif kind == "combine":
                    _, spec, W, fold = a
                    y, mo, d, h, mi, s, us = T.fields_of(W)
                    r = pendulum.DateTime.combine(_dt.date(y, mo, d), _dt.time(h, mi, s, us, fold=fold), tzinfo=None if spec is None else T.pzone(spec))
                else:
                    _, off, W = a
                    y, mo, d, h, mi, s, us = T.fields_of(W)
                    txt = f"{y:04d}-{mo:02d}-{d:02d} {h:02d}:{mi:02d}:{s:02d}"
                    if off is None:
                        r = pendulum.DateTime.strptime(txt, "%Y-%m-%d %H:%M:%S")
                    else:
                        txt += " " + ("-" if off < 0 else "+") + f"{abs(off) // 3600:02d}{abs(off) // 60 % 60:02d}"
                        r = pendulum.DateTime.strptime(txt, "%Y-%m-%d %H:%M:%S %z")
                o = T.off_s(r)
                out.append([0, _tname(r), T.wall_of(r), r.fold, NONE if o is None else o])
            elif fn == "date_unary":
                y, m, d = a
                p = pendulum.Date(y, m, d)
                n = _dt.date(y, m, d)
                po = obs_date(p)
                da = diff_obs(po, obs_date(n))
                r = p.replace(day=1)
                extra = [str(p), format(p, ""), p.for_json(), _tname(p), 1 if p == n else 0, 1 if n == p else 0, 1 if hash(p) == hash(n) else 0,
                         _tname(r), _tname(p + _dt.timedelta(days=1)) if p < _dt.date.max else "Date", _tname(_dt.timedelta(days=-1) + p) if p > _dt.date.min else "Date",
                         _tname(pendulum.Date.fromordinal(p.toordinal())), pendulum.Date.fromordinal(p.toordinal()) == n]
                out.append([0, [list(kv) for kv in po], da, extra])
            elif fn == "date_binary":
                y1, m1, d1, y2, m2, d2, mode = a
                x = pendulum.Date(y1, m1, d1) if mode != 2 else _dt.date(y1, m1, d1)
                y = pendulum.Date(y2, m2, d2) if mode != 1 else _dt.date(y2, m2, d2)
                out.append([0, _ops(x, y), _sub(x, y)])
            elif fn == "time_unary":
                h, mi, s, us, tz, fold = a
                tzi = None if tz is None else T.pzone(tz)
                p = pendulum.Time(h, mi, s, us, tzinfo=tzi, fold=fold)
                n = _dt.time(h, mi, s, us, tzinfo=tzi, fold=fold)
                po = obs_time(p)
                da = diff_obs(po, obs_time(n))
                r = p.replace(minute=(mi + 1) % 60)
                extra = [str(p), format(p, ""), p.for_json(), _tname(p), 1 if p == n else 0, 1 if n == p else 0, 1 if hash(p) == hash(n) else 0,
                         _tname(r), [r.hour, r.minute, r.second, r.microsecond, 1 if r.tzinfo is tzi else 0]]
                out.append([0, [list(kv) for kv in po], da, extra])
            elif fn == "time_binary":
                h1, mi1, s1, us1, h2, mi2, s2, us2, mode = a
                x = pendulum.Time(h1, mi1, s1, us1) if mode != 2 else _dt.time(h1, mi1, s1, us1)
                y = pendulum.Time(h2, mi2, s2, us2) if mode != 1 else _dt.time(h2, mi2, s2, us2)
                out.append([0, _ops(x, y), _sub(x, y)])
            elif fn == "mro":
                ci, ni = a
                cls = getattr(pendulum, CLASSES[ci])
                name = STD[ni]
                owner = next((k for k in cls.__mro__ if name in k.__dict__), None)
                if owner is None:
                    out.append([0, 2, 0])
                else:
                    out.append([0, 0 if owner.__module__.startswith("pendulum") else 1, OWNERS.index(owner.__name__)])
            else:
                out.append([9])
        except Exception as ex:  # noqa
            out.append([1, type(ex).__name__])
    return out


# ----------------------------------------------------------------------------- model
def _zenc(spec, W):
    if spec is None:
        return [0, 0, 0, 0]
    u = T.unix_of_wall(W)
    return [1, 1 if isinstance(spec, int) else 0] + T.zone_enc(spec, u - 100000, u + 100000)


def _operand_enc(spec, W, f):
    return _zenc(spec, W) + [W, f]


F_MODEL_KINDS = ("naive", "pz", "tzutc", "tz", "tzn", "zi", "user", "usert", "duo", "duu", "du")


def _f_offset_at(op):
    return T.off_s(T.native(op[4], op[5], f_tzobj(op, {}, "ref")))


def _f_pkey(op):
    """the pendulum timezone object (by cache key) that DateTime.instance() -> _safe_timezone attaches to a NATIVE operand; a pendulum operand keeps its tzinfo"""
    carrier, kind, param, inst, W, f = op
    if kind == "naive":
        return None
    if kind == "pz":
        return param
    if carrier != "n":
        return ("foreign",)
    if kind == "zi":
        return param                                   # hasattr(tz, "key")
    if kind in ("tzutc", "duu") or (kind == "tz" and param == 0) or (kind in ("tzn", "user") and param[1] == "UTC"):
        return "UTC"                                   # tz.tzname(None) == "UTC"
    if kind in ("tz", "duo"):
        return param
    if kind in ("tzn", "user"):
        return param[0]
    return _f_offset_at(op)                            # usert / du: FixedTimezone(int(tz.utcoffset(dt).total_seconds()))


def _f_modelled(op):
    carrier, kind, param, inst, W, f = op
    if kind not in F_MODEL_KINDS:
        return False                                   # key-less ZoneInfo (raises, finding keyless-zoneinfo-operand-raises), pytz: oracle only
    if kind == "du" and not f_ref_ok(op):
        return False
    if carrier == "n" and kind in ("usert", "du") and len(T.solutions(zoneinfo.ZoneInfo(param), W // T.MEG)) != 1:
        return False                                   # instance() freezes the offset of (wall, fold): a table operand becomes a fixed-offset one
    return True


def f_model_calls(a):
    """dt_foreign -> the dispatch entry dt_binary of Model/DropIn.v: an operand is (is_pendulum, identity of its tzinfo object, identity of pendulum's
    timezone object that instance() would attach, the table its tzinfo presents, wall, fold)"""
    if not (_f_modelled(a[0]) and _f_modelled(a[1])):
        return None
    k1, k2 = _f_pkey(a[0]), _f_pkey(a[1])
    pid1, pid2 = 1, (1 if (k1 == k2 and k1 is not None and k1 != ("foreign",)) else 2)
    o1 = pid1 if a[0][1] == "pz" else 11
    o2 = pid2 if a[1][1] == "pz" else (11 if (a[0][1] != "pz" and _f_key(a[0]) == _f_key(a[1])) else 12)
    enc = []
    for op, o, pid in ((a[0], o1, pid1), (a[1], o2, pid2)):
        enc += [0 if op[0] == "n" else 1, o, pid] + _operand_enc(f_spec(op[1], op[2]), op[4], op[5])
    return [("dt_binary", enc)]


def model_calls(c, backend):
    fn, a = c["fn"], c["args"]
    if fn == "dt_unary":
        spec, W, f = a
        if backend == "rs" and c.get("stream") == "dt-unary-transition" and (W // T.MEG + f) % 2:
            return None      # DateTime is pure Python in both backends: the compiled backend is modelled on every other transition probe (oracle: all)
        return [("dt_unary", _operand_enc(spec, W, f)), ("dt_str", _operand_enc(spec, W, f))]
    if fn == "dt_timetz":
        spec, W, f = a
        return [("dt_timetz", _operand_enc(spec, W, f))]
    if fn == "dt_binary":
        s1, W1, f1, s2, W2, f2, mode = a
        m = MODES[mode]
        isp1, isp2 = (0 if m.startswith("n") else 1), (0 if m[1] == "n" else 1)
        nb1, nb2 = m == "np_b", m == "pn_b"

        def pkey(spec, native_b):
            # the pendulum timezone object that instance() attaches: datetime.timezone(0) is mapped to Timezone("UTC")
            return "UTC" if (native_b and spec == 0) else spec
        k1, k2 = pkey(s1, nb1), pkey(s2, nb2)
        pid1, pid2 = 1, (1 if k1 == k2 else 2)
        # identity of the tzinfo object the operand actually carries: pendulum's object (shared per name/offset) or a stdlib object of its own
        o1 = 11 if nb1 else 1
        o2 = 12 if nb2 else (1 if s1 == s2 and not nb1 else 2)
        return [("dt_binary", [isp1, o1, pid1] + _operand_enc(s1, W1, f1) + [isp2, o2, pid2] + _operand_enc(s2, W2, f2))]
    if fn == "dt_foreign":
        return f_model_calls(a)
    if fn == "dt_cfg":
        return cfg_model_calls(a)
    if fn == "fmt_spec":
        return [("fmt_route", [ord(ch) for ch in a[4]])]
    if fn == "dt_astz":
        s1, W, f, s2, kind = a
        try:
            U = _instant_of(s1, W, f)
        except (OverflowError, ValueError):
            U = W
        return [("dt_astz", _operand_enc(s1, W, f) + _zenc(s2, U)[1:] + [1 if (s1 == s2 and kind == 0) else 0, kind])]
    if fn == "dt_replace":
        spec, W, f, W2, f2 = a
        return [("dt_replace", _zenc(spec, W2) + [W2, f2])]
    if fn == "dt_ctor":
        kind = a[0]
        if kind == "fromtimestamp":
            _, spec, t_us = a
            return [("ctor_fromtimestamp", _zenc(spec, t_us + T.EPOCH_US)[1:] + [t_us])]
        if kind == "fromordinal":
            return [("ctor_fromordinal", [a[2]])]
        if kind == "combine":
            _, spec, W, fold = a
            return [("ctor_instance", _zenc(spec, W) + [W, fold])]
        _, off, W = a
        # a naive native value gets instance()'s default tz=UTC
        return [("ctor_instance", _zenc("UTC" if off is None else off, W) + [W, 0])]
    if fn == "date_unary":
        return [("date_unary", a)]
    if fn == "date_binary":
        return [("date_binary", a)]
    if fn == "time_binary":
        return [("time_binary", a[:8])]
    if fn == "mro":
        ci, ni = a
        return [("std_entry", [ci * len(STD) + ni])]
    return None


def _naive_ts_safe(W):
    return 400 * T.US_DAY < W < T.MAX_WALL - 400 * T.US_DAY


def _proj_unary(po, extra, spec, W):
    """The integer projection of a unary observation that the Coq model computes."""
    d = dict((k, v) for k, v in po)

    def iv(v, n):
        return list(v) if isinstance(v, list) and v and v[0] != "E" else ["E"] * 1
    tt = d["timetuple"]
    ut = d["utctimetuple"]
    return {"toordinal": d["toordinal"], "weekday": d["weekday"], "isoweekday": d["isoweekday"], "isocalendar": d["isocalendar"],
            "utcoffset": d["utcoffset"], "timestamp": d["timestamp"] if (spec is not None or _naive_ts_safe(W)) else None, "timetuple8": tt[:8] if tt and tt[0] != "E" else tt,
            "utctimetuple": ut, "date": d["date"], "time": d["time"][:6] if d["time"][0] != "E" else d["time"],
            "hash": extra[7] if spec is not None else None, "type": extra[3],
            "strings": [extra[0], d["isoformat"], extra[2], extra[1]]}


def model_result(c, backend, outs):
    fn, a = c["fn"], c["args"]
    o = outs[0]
    if fn == "dt_unary":
        spec = a[0]
        if o[0] != 0:
            return o
        so = outs[1]
        strings = None
        if so and so[0] == 0:
            parts, cur = [], []
            for ch in so[1:]:
                if ch == -1:
                    parts.append(cur)
                    cur = []
                else:
                    cur.append(ch)
            parts.append(cur)
            strings = ["".join(chr(ch) if 0 <= ch < 256 else "?" for ch in part) for part in parts]
        if len(o) != 34:
            return o          # an accessor without a model ([-2]) or a result of the wrong type ([-3]): reported as a difference
        (_, ordn, wd, iwd, iy, iw, idd, off, U, hk, y, mo, d, hh, mi, ss, yday, uflag, uy, umo, ud, uh, umi, us_, uwd, uyd, dy, dm, dd, th, tm, ts, tus, tf) = o
        if spec is None:
            # naive timestamp: local time is UTC in the staged environment
            ts_hex = ((a[1] - T.EPOCH_US) / T.MEG).hex() if _naive_ts_safe(a[1]) else None
        else:
            ts_hex = ((U - T.EPOCH_US) / T.MEG).hex()
        return {"toordinal": ordn, "weekday": wd, "isoweekday": iwd, "isocalendar": [iy, iw, idd],
                "utcoffset": None if off == NONE else off * T.MEG, "timestamp": ts_hex, "timetuple8": [y, mo, d, hh, mi, ss, wd, yday],
                "utctimetuple": [uy, umo, ud, uh, umi, us_, uwd, uyd, 0] if uflag == 0 else ["E", "OverflowError"],
                "date": ["Date", dy, dm, dd], "time": ["Time", th, tm, ts, tus, tf],
                # datetime_hash: hash(timedelta(days=toordinal, seconds, microseconds) - utcoffset(fold=0)): the wall value counted from ordinal 0
                "hash": None if spec is None else hash(_dt.timedelta(microseconds=hk + T.US_DAY)), "type": "DateTime",
                "strings": strings}
    return o


def _norm_impl(c, r):
    fn, a = c["fn"], c["args"]
    if r[0] == 1:
        return [1, T.EXN.get(r[1], 14)]
    if r[0] != 0:
        return r
    if fn == "dt_unary":
        return _proj_unary(r[1], r[3], a[0], a[1])
    if fn == "dt_timetz":
        return [0, 1 if r[1] == "Time" else 0] + r[2:]
    if fn in ("dt_binary", "dt_foreign"):
        ops, sub, same = (r[1], r[2], r[3]) if fn == "dt_binary" else (r[1][0], r[1][1], r[4])
        if sub[0] == "E":
            s = [1, T.EXN.get(sub[1], 14)]
        elif sub[0] == "Interval":
            s = [0] + [(sub[1] * 86400 + sub[2]) * T.MEG + sub[3]]
        else:
            s = [7, 0]
        return [0] + ops + s + [same]
    if fn in ("dt_astz", "dt_replace"):
        return [0, 1 if r[1] == "DateTime" else 0] + r[2:]
    if fn == "dt_cfg":
        return cfg_norm(a, r)
    if fn == "fmt_spec":
        code = {"E": 0, "S": 1, "F": 2}
        return [0, code.get(r[3], -1) if isinstance(r[3], str) else -1, code.get(r[4], -1) if isinstance(r[4], str) else -1]
    if fn == "dt_ctor":
        return [0, 1 if r[1] == "DateTime" else 0] + r[2:]
    if fn == "date_unary":
        d = dict((k, v) for k, v in r[1])
        tt = d["timetuple"]
        return [0, d["toordinal"], d["weekday"], d["isoweekday"]] + d["isocalendar"] + [tt[7]]
    if fn == "date_binary":
        ops, sub = r[1], r[2]
        s = [1, T.EXN.get(sub[1], 14)] if sub[0] == "E" else [0, (sub[1] * 86400 + sub[2]) * T.MEG + sub[3]]
        return [0] + ops + s
    if fn == "time_binary":
        ops, sub = r[1], r[2]
        if sub[0] == "E":
            s = [1, T.EXN.get(sub[1], 14)]
        elif sub[0] == "T":
            s = [7, 0]
        else:
            s = [0, (sub[1] * 86400 + sub[2]) * T.MEG + sub[3]]
        return [0] + ops[:6] + s
    return r


def same(c, m, r):
    fn = c["fn"]
    if fn == "time_unary":
        return True
    n = _norm_impl(c, r)
    if fn == "dt_cfg" and isinstance(n, list) and n and n[-1] is None and isinstance(m, list):
        # the history does not fix the local-timezone setting (empty / rejected calls only): its value is whatever the process had before
        return m[:-1] == n[:-1]
    if fn == "date_binary" and c["args"][6] == 2:
        # native - pendulum Date is answered by the native date.__sub__ (no override involved): a timedelta; same integers
        pass
    if fn == "time_binary" and c["args"][8] == 2:
        pass
    return m == n


# ----------------------------------------------------------------------------- the property (stdlib only)
def _is_fixed(spec):
    return isinstance(spec, int)


def _skip_for(spec):
    # datetime.timezone and FixedTimezone are different tzinfo classes: names ("UTC+01:00" vs "+01:00") and dst() (None vs 0) differ by design
    return ("tzname", "dst") if _is_fixed(spec) else ()


F_NAMES = ["==", "!=", "<", "<=", ">", ">=", "hash-eq"]


def f_deviations(a, r):
    """dt_foreign: every difference between the implementation's answers and the native operands' (same fields, same tzinfo objects)."""
    dev = []
    P, N, info, share = r[1], r[2], r[3], r[4]
    pend = [op[0] != "n" for op in a]
    route_ok = True
    for i, op in enumerate(a):
        tn, w, fo, same_tz, o0, o1 = info[i]
        if (tn == "DateTime") != pend[i]:
            dev.append(f"route:type operand {i + 1} ({op[0]}) is a {tn}")
            route_ok = False
        if [w, fo] != [op[4], op[5]]:
            dev.append(f"route:fields operand {i + 1} obtained by {op[0]} has fields {T.fields_of(w)} fold {fo}; the native value has {T.fields_of(op[4])} fold {op[5]}")
            route_ok = False
        if not same_tz and op[0] != "pf":
            dev.append(f"astimezone:tzinfo operand {i + 1} obtained by {op[0]} does not carry the tzinfo object it was given")
    for o, (iops, isub, iastz) in enumerate(((0, 1, 4), (2, 3, 5))):
        lab = "x,y" if o == 0 else "y,x"
        recv_pend = pend[o]
        for nme, g, e in zip(F_NAMES, P[iops], N[iops]):
            if g != e:
                dev.append(f"op {nme} ({lab}): {g} but the native operands give {e}")
        sub, es = P[isub], N[isub]
        if es[0] == "E":
            if sub != es:
                dev.append(f"sub: ({lab}) {sub} but native raises {es[1]}")
        elif sub[0] == "E":
            dev.append(f"sub:raises ({lab}) {sub[1]} but the native operands give {es[1:]}")
        elif sub[0] != "Interval":
            dev.append(f"sub:type ({lab}) result is {sub} not an Interval")
        elif sub[1:] != es[1:]:
            dev.append(f"sub:value ({lab}) {sub[1:]} but native subtraction gives {es[1:]}")
        az, ea = P[iastz], N[iastz]
        if ea[0] == "-" or az[0] == "-":
            if az != ea:
                dev.append(f"astimezone: ({lab}) {az} vs {ea}")
        elif ea[0] == "E":
            if az != ea:
                dev.append(f"astimezone: ({lab}) {az} but native raises {ea[1]}")
        elif az[0] == "E":
            dev.append(f"astimezone:raises ({lab}) {az[1]} but native gives {ea}")
        else:
            if az[1:4] != ea[1:4]:
                dev.append(f"astimezone: ({lab}) {az} but native gives {ea}")
            elif az[4] != ea[4]:
                dev.append(f"astimezone:tzinfo ({lab}) the result's tzinfo is not the tz argument ({az})")
            if az[0] != ("DateTime" if recv_pend else "datetime"):
                dev.append(f"astimezone:type ({lab}) returns a {az[0]}")
    # ordering of two aware DateTimes is the ordering of their instants
    if a[0][1] != "naive" and a[1][1] != "naive" and route_ok:
        U = [info[i][1] - info[i][4 + info[i][2]] * T.MEG for i in (0, 1)]
        want = [0, 0, 1 if U[0] < U[1] else 0, 1 if U[0] <= U[1] else 0, 1 if U[0] > U[1] else 0, 1 if U[0] >= U[1] else 0]
        for i in (2, 3, 4, 5):
            if P[0][i] != want[i]:
                dev.append(f"order:instant {F_NAMES[i]} gives {P[0][i]} but the instants order as {want[i]}")
                break
    # the in-interpreter native operands against stdlib-only ones built by the oracle
    if route_ok:
        R = f_reference(a)
        if R is not None:
            robs, roffs, rshare = R
            if roffs != [info[0][4:6], info[1][4:6]]:
                dev.append(f"twin:offsets the tzinfo objects answer utcoffset {[info[0][4:6], info[1][4:6]]}, the stdlib reference {roffs}")
            elif robs != N:
                bad = [k for k in range(6) if robs[k] != N[k]]
                dev.append(f"twin:native the native operands inside the interpreter answer {[N[k] for k in bad]}, stdlib-only operands {[robs[k] for k in bad]}")
            if bool(rshare) != bool(share) and "pytz" not in (a[0][1], a[1][1]) and "pf" not in (a[0][0], a[1][0]):
                dev.append(f"harness: operands share tzinfo object = {share}, reference {rshare}")
    return dev


def deviations(c, r):
    """All differences between the implementation's answers and the native object's, as short strings."""
    fn, a = c["fn"], c["args"]
    dev = []
    if r[0] != 0:
        return [f"raised {r}"]
    if fn == "dt_foreign":
        return f_deviations(a, r)
    if fn == "dt_cfg":
        return cfg_deviations(a, r)
    if fn == "fmt_spec":
        return fmt_deviations(a, r)
    if fn == "dt_unary":
        spec, W, f = a
        po = [tuple(kv) for kv in r[1]]
        for k in r[2]:
            dev.append(f"{k}: differs from datetime.datetime(*fields, tzinfo=<same tzinfo object>, fold={f})")
        fmt = FMT_NOZ if _is_fixed(spec) else FMT
        nb = T.native(W, f, None if spec is None else T.ref_zone(spec))
        eo = expect_pendulum(obs_dt(nb, fmt))
        skip = set(_skip_for(spec))
        y = T.fields_of(W)[0]
        if y < 1000:
            skip |= {"strftime", "fmt_pct"}      # %Y/%G padding of small years differs between CPython versions
        if spec is None:
            skip |= {"timestamp"}
        for k in diff_obs(po, eo, skip):
            if k == "timetuple" and _is_fixed(spec):
                pv, ev = dict(po)[k], dict(eo)[k]
                if pv[:8] == ev[:8]:
                    continue
            dev.append(f"{k}: {dict(po)[k]!r} but the native object with the stdlib tzinfo answers {dict(eo)[k]!r}")
        if spec is None:
            exp_ts = _try(lambda: ((W - T.EPOCH_US) / T.MEG).hex())
            if 86400 * T.MEG * 366 < W and dict(po)["timestamp"] != exp_ts:
                dev.append(f"timestamp: {dict(po)['timestamp']} expected {exp_ts} (TZ=UTC)")
        s, fe, fj, tn, e1, e2, he, _h = r[3]
        d = dict(po)
        if s != d["isoformat_sp"]:
            dev.append(f"__str__: {s!r} is not isoformat(' ') = {d['isoformat_sp']!r}")
        if s != str(nb) and not _is_fixed(spec):
            dev.append(f"__str__: {s!r} but str(native) = {str(nb)!r}")
        if fe != s:
            dev.append(f"__format__(''): {fe!r} is not str(x)")
        if fj != d["isoformat"]:
            dev.append(f"for_json: {fj!r} is not isoformat()")
        if tn != "DateTime":
            dev.append(f"type is {tn}")
        if not (e1 and e2):
            dev.append("does not compare equal to the native object with the same fields and tzinfo")
        if not he:
            dev.append("does not hash equal to the native object with the same fields and tzinfo")
    elif fn == "dt_timetz":
        spec, W, f = a
        nb = T.native(W, f, None if spec is None else T.ref_zone(spec)).timetz()
        if r[2:7] != [nb.hour, nb.minute, nb.second, nb.microsecond, nb.fold] or (r[7] != 1):
            dev.append(f"timetz: fields/tzinfo {r[2:]} differ from the native {nb!r}")
        if r[1] != "Time":
            dev.append(f"timetz:type returns a {r[1]} instead of pendulum.Time")
    elif fn == "dt_binary":
        ops, sub, same_obj = r[1], r[2], r[3]
        share = shares_tzinfo(a)
        if bool(same_obj) != share:
            dev.append(f"harness: operands share tzinfo object = {same_obj}, expected {share}")
        nx, ny = native_pair(a, share)
        eops = _ops(nx, ny)
        names = ["==", "!=", "<", "<=", ">", ">=", "hash-eq"]
        for nme, g, e in zip(names, ops, eops):
            if g != e:
                dev.append(f"op {nme}: {g} but native operands give {e}")
        es = _sub(nx, ny)
        if es[0] == "E":
            if sub != es:
                dev.append(f"sub: {sub} but native raises {es[1]}")
        else:
            if sub[0] != "Interval":
                dev.append(f"sub:type result is {sub} not an Interval")
            elif sub[1:] != es[1:]:
                dev.append(f"sub:value {sub[1:]} but native subtraction gives {es[1:]}")
        # ordering of two aware DateTimes is the ordering of their instants
        s1, W1, f1, s2, W2, f2, mode = a
        if s1 is not None and s2 is not None:
            U1, U2 = W1 - T.off_s(nx) * T.MEG, W2 - T.off_s(ny) * T.MEG
            want = [0, 0, 1 if U1 < U2 else 0, 1 if U1 <= U2 else 0, 1 if U1 > U2 else 0, 1 if U1 >= U2 else 0]
            for i in (2, 3, 4, 5):
                if ops[i] != want[i]:
                    dev.append(f"order:instant {names[i]} gives {ops[i]} but the instants order as {want[i]}")
                    break
    elif fn == "dt_astz":
        s1, W, f, s2, kind = a
        # datetime.timezone(timedelta(0)) is the timezone.utc singleton: give the source its own object, as FixedTimezone(0) is on the pendulum side
        nb = T.native(W, f, _dt.timezone(_dt.timedelta(seconds=s1), "src") if isinstance(s1, int) else T.ref_zone(s1))
        try:
            e = nb.astimezone(T.ref_zone(s2) if s1 != s2 else zoneinfo.ZoneInfo.no_cache(s2) if isinstance(s2, str) else _dt.timezone(_dt.timedelta(seconds=s2)))
            exp = [0, "DateTime", T.wall_of(e), e.fold, T.off_s(e), 1]
        except OverflowError:
            exp = [1, "OverflowError"]
        if s1 == s2 and kind == 0 and exp[0] == 0:
            exp = [0, "DateTime", W, f, T.off_s(nb), 1]        # astimezone(self.tzinfo) returns the same fields
        if r[:5] != exp[:5]:
            dev.append(f"astimezone: {r} but native gives {exp}")
        elif r != exp:
            dev.append(f"astimezone:tzinfo the result's tzinfo is not the tz argument ({r} vs {exp})")
    elif fn == "dt_replace":
        spec, W, f, W2, f2 = a
        tz = None if spec is None else T.ref_zone(spec)
        if r[1] != "DateTime" or r[5] != 1:
            dev.append(f"replace: returns {r[1]} / tzinfo kept = {r[5]}")
        e = T.native(W2, f2, tz)
        skipped = tz is not None and not _is_fixed(spec) and len(T.solutions(tz, W2 // T.MEG)) == 0
        if skipped:
            g = T.gap_around(tz, W2 // T.MEG)
            gap = (g[2] - g[1]) * T.MEG
            expW = W2 + gap if f2 else W2 - gap       # pendulum's documented normalisation (C02); native replace keeps the impossible wall time
            if r[2] != expW:
                dev.append(f"replace: skipped wall time normalised to {T.fields_of(r[2])}, expected {T.fields_of(expW)}")
        else:
            ef = 0 if _is_fixed(spec) else f2
            if [r[2], r[4]] != [W2, T.off_s(e)] or (r[3] != ef and len(T.solutions(tz, W2 // T.MEG)) == 2 if tz is not None and not _is_fixed(spec) else False):
                dev.append(f"replace: {r} but native replace gives wall {W2} fold {f2} offset {T.off_s(e)}")
    elif fn == "dt_ctor":
        kind = a[0]
        if r[1] != "DateTime":
            dev.append(f"{kind}: returns a {r[1]}")
        if kind == "fromtimestamp":
            _, spec, t_us = a
            e = _dt.datetime.fromtimestamp(t_us / T.MEG, tz=T.ref_zone(spec))
            exp = [T.wall_of(e), e.fold if not _is_fixed(spec) else 0, T.off_s(e)]
        elif kind == "fromordinal":
            e = _dt.datetime.fromordinal(a[2])
            exp = [T.wall_of(e), 0, NONE]
        elif kind == "combine":
            _, spec, W, fold = a
            y, mo, d, h, mi, s, us = T.fields_of(W)
            tz = None if spec is None else T.ref_zone(spec)
            e = _dt.datetime.combine(_dt.date(y, mo, d), _dt.time(h, mi, s, us, fold=fold), tzinfo=tz)
            exp = None
            if tz is None or _is_fixed(spec) or len(T.solutions(tz, W // T.MEG)) == 1:
                exp = [W, None, NONE if tz is None else T.off_s(e)]
        else:
            _, off, W = a
            # datetime.strptime gives a naive value for a string without %z; DateTime.instance() then applies its default tz=UTC (documented default of instance())
            exp = [W, 0, 0 if off is None else off]
        if exp is not None and (r[2] != exp[0] or r[4] != exp[2] or (exp[1] is not None and r[3] != exp[1])):
            dev.append(f"{kind}: {r} but native gives {exp}")
    elif fn == "date_unary":
        y, m, d = a
        for k in r[2]:
            dev.append(f"{k}: differs from datetime.date")
        n = _dt.date(y, m, d)
        po = [tuple(kv) for kv in r[1]]
        skip = {"strftime", "fmt_pct"} if y < 1000 else set()
        for k in diff_obs(po, obs_date(n), skip):
            dev.append(f"{k}: {dict(po)[k]!r} but native date answers {dict(obs_date(n))[k]!r}")
        s, fe, fj, tn, e1, e2, he, t_rep, t_add, t_radd, t_ford, ford_eq = r[3]
        if s != n.isoformat() or fe != s or fj != s:
            dev.append(f"__str__/__format__/for_json: {s!r} {fe!r} {fj!r} vs {n.isoformat()!r}")
        if not (e1 and e2 and he):
            dev.append("Date does not compare/hash equal to the native date")
        for what, t in (("replace", t_rep), ("+timedelta", t_add), ("timedelta+", t_radd), ("fromordinal", t_ford)):
            if t != "Date":
                dev.append(f"type: {what} returns {t}")
        if not ford_eq:
            dev.append("fromordinal(toordinal()) is not the same date")
    elif fn == "date_binary":
        y1, m1, d1, y2, m2, d2, mode = a
        nx, ny = _dt.date(y1, m1, d1), _dt.date(y2, m2, d2)
        eops, es = _ops(nx, ny), _sub(nx, ny)
        for nme, g, e in zip(["==", "!=", "<", "<=", ">", ">=", "hash-eq"], r[1], eops):
            if g != e:
                dev.append(f"op {nme}: {g} but native gives {e}")
        if r[2][1:] != es[1:]:
            dev.append(f"sub:value {r[2]} but native gives {es}")
        if mode != 2 and r[2][0] != "Interval":
            dev.append(f"sub:type {r[2][0]}")
    elif fn == "time_unary":
        h, mi, s, us, tz, fold = a
        for k in r[2]:
            dev.append(f"{k}: differs from datetime.time with the same tzinfo")
        n = _dt.time(h, mi, s, us, tzinfo=None if tz is None else T.ref_zone(tz), fold=fold)
        po = [tuple(kv) for kv in r[1]]
        skip = set(_skip_for(tz))
        for k in diff_obs(po, obs_time(n), skip):
            dev.append(f"{k}: {dict(po)[k]!r} but native time answers {dict(obs_time(n))[k]!r}")
        st, fe, fj, tn, e1, e2, he, t_rep, rep = r[3]
        if st != dict(po)["isoformat"] or fe != st or fj != st:
            dev.append(f"__str__/__format__/for_json: {st!r} {fe!r} {fj!r}")
        if not (e1 and e2 and he):
            dev.append("Time does not compare/hash equal to the native time")
        if t_rep != "Time" or rep != [h, (mi + 1) % 60, s, us, 1]:
            dev.append(f"replace: {t_rep} {rep}")
    elif fn == "time_binary":
        h1, mi1, s1, us1, h2, mi2, s2, us2, mode = a
        nx, ny = _dt.time(h1, mi1, s1, us1), _dt.time(h2, mi2, s2, us2)
        eops = _ops(nx, ny)
        for nme, g, e in zip(["==", "!=", "<", "<=", ">", ">=", "hash-eq"], r[1], eops):
            if g != e:
                dev.append(f"op {nme}: {g} but native gives {e}")
        if r[2][0] not in ("Duration",):
            dev.append(f"sub:type Time - time returns {r[2]}")
        else:
            # Time - time is the exact difference of the two times of day, microseconds included (Time.diff, repaired by f98403b)
            k1 = ((h1 * 60 + mi1) * 60 + s1) * T.MEG + us1
            k2 = ((h2 * 60 + mi2) * 60 + s2) * T.MEG + us2
            if (r[2][1] * 86400 + r[2][2]) * T.MEG + r[2][3] != k1 - k2:
                dev.append(f"sub:value Time - time gives {r[2][1:]} but the times of day differ by {k1 - k2} us")
    elif fn == "mro":
        pass
    return dev


def _fixed_name(off):
    sign = "-" if off < 0 else "+"
    minutes = off / 60
    hour, minute = divmod(abs(int(minutes)), 60)
    return f"{sign}{hour:02d}:{minute:02d}"


def oracle(c, backend, r):
    dev = deviations(c, r)
    if not dev:
        return None
    return f"{c['fn']}{c['args']}: " + "; ".join(dev[:4])


def _walls_skipped(spec, W):
    return isinstance(spec, str) and len(T.solutions(T.ref_zone(spec), W // T.MEG)) == 0


def _f_gap(op):
    """a native operand whose tzinfo names a tz database zone (key / zone attribute) on a skipped wall time: instance() -> create() shifts it"""
    carrier, kind, param, inst, W, f = op
    return carrier == "n" and (kind in ("zi", "pytz") or (kind == "pz" and isinstance(param, str))) and _walls_skipped(param, W)


def f_known(a, backend, r):
    """dt_foreign: EVERY deviation of the case must be explained by a listed finding (by call site + region); returns the first one's id."""
    if r[0] != 0:
        return None
    dev = f_deviations(a, r)
    P, N, info, share = r[1], r[2], r[3], r[4]
    aware = a[0][1] != "naive" and a[1][1] != "naive"
    offs = [info[i][4 + info[i][2]] for i in (0, 1)]
    ids = []
    for d in dev:
        tag = d.split(" ")[0]
        o = 1 if "(y,x)" in d else 0
        left, right = a[o], a[1 - o]
        fid = None
        if tag == "order:instant" and aware and share and offs[0] != offs[1]:
            fid = "same-zone-order-is-wall-order"
        elif tag == "sub:value" and (aware or (a[0][1] == "naive" and a[1][1] == "naive")):
            es = N[1 + 2 * o]
            if aware and share and offs[0] != offs[1]:
                fid = "sub-same-tzinfo-uses-instants"
            elif aware and (_f_gap(a[0]) or _f_gap(a[1])):
                fid = "sub-native-operand-in-gap-normalised"
            elif es[0] != "E" and abs((es[1] * 86400 + es[2]) * T.MEG + es[3]) >= 2 ** 33 * T.MEG:
                fid = "sub-length-float-roundtrip"
        elif tag == "astimezone:tzinfo" and "(" in d.split(" ")[1] and right[1] == "zi" and left[0] != "n" and P[4 + o][0] == "DateTime" and P[4 + o][2] == 1:
            fid = "astimezone-fold1-swaps-stdlib-tzinfo"
        elif tag in ("astimezone:", "astimezone:tzinfo", "astimezone:raises") and "(" in d.split(" ")[1] and left[0] != "n" and right[1] in F_PY_FROMUTC \
                and _f_key(left) != _f_key(right):
            fid = "astimezone-python-fromutc-target"
        elif "zif" in (a[0][1], a[1][1]):
            nat_zif = any(op[1] == "zif" and op[0] == "n" for op in a)
            pen_zif = any(op[1] == "zif" and op[0] != "n" for op in a)
            if tag in ("sub:raises", "sub:"):
                got = P[1 + 2 * o]
                if got == ["E", "AttributeError"] and nat_zif:
                    fid = "keyless-zoneinfo-operand-raises"
                elif got == ["E", "TypeError"] and pen_zif and backend == "rs" and tag == "sub:raises":
                    fid = "keyless-zoneinfo-operand-raises"
            elif tag == "astimezone:raises" and right[1] == "zif" and left[0] != "n" and P[4 + o] == ["E", "AttributeError"] and N[4 + o][2] == 1:
                fid = "keyless-zoneinfo-operand-raises"
        if fid is None:
            return None
        ids.append(fid)
    return ids[0] if ids else None


def known(c, backend, r):
    """Classify by the exact set of deviations AND the input region; anything else stays a violation."""
    fn, a = c["fn"], c["args"]
    if fn == "dt_foreign":
        return f_known(a, backend, r)
    dev = deviations(c, r)
    kinds = {d.split(" ")[0] for d in dev}
    if fn == "dt_timetz" and kinds == {"timetz:type"}:
        return "timetz-returns-native-time"
    if fn == "dt_unary" and kinds == {"time:"} and a[2] == 1 and r[0] == 0:
        t = dict((k, v) for k, v in r[1])["time"]
        y, mo, d, h, mi, s, us = T.fields_of(a[1])
        if t == ["Time", h, mi, s, us, 0, True]:
            return "time-drops-fold"
    if fn == "dt_cfg" and kinds == {"astimezone:tzinfo"} and a[5] == 1 and isinstance(a[4], str) and r[0] == 0 and r[1][0] == "DateTime" and r[1][2] == 1:
        return "astimezone-fold1-swaps-stdlib-tzinfo"
    if fn == "dt_astz" and kinds == {"astimezone:tzinfo"} and a[4] == 1 and isinstance(a[3], str) and r[0] == 0 and r[3] == 1:
        return "astimezone-fold1-swaps-stdlib-tzinfo"
    if fn == "dt_binary":
        s1, W1, f1, s2, W2, f2, mode = a
        m = MODES[mode]
        aware = s1 is not None and s2 is not None
        share = shares_tzinfo(a)
        nx, ny = native_pair(a, share)
        if kinds == {"order:instant"} and aware and share and T.off_s(nx) != T.off_s(ny):
            return "same-zone-order-is-wall-order"
        if kinds <= {"sub:value", "order:instant"} and "sub:value" in kinds and aware:
            # (1) same tzinfo object and different offsets: Interval subtracts the offsets, native ignores them
            if share and T.off_s(nx) != T.off_s(ny) and (kinds == {"sub:value"} or True):
                return "sub-same-tzinfo-uses-instants"
            # (2) a native operand on a skipped wall time is normalised by instance() before subtracting
            nat_first = m in ("np_a", "np_b")
            nat_second = m in ("pn_a", "pn_b")
            if (nat_first and _walls_skipped(s1, W1)) or (nat_second and _walls_skipped(s2, W2)):
                if kinds == {"sub:value"} or (share and T.off_s(nx) != T.off_s(ny)):
                    return "sub-native-operand-in-gap-normalised"
            # (3) the Interval length goes through float seconds: microseconds can be lost once |delta| >= 2**33 s (~272 years)
            es = _sub(nx, ny)
            if kinds == {"sub:value"} and es[0] != "E" and abs((es[1] * 86400 + es[2]) * T.MEG + es[3]) >= 2 ** 33 * T.MEG:
                return "sub-length-float-roundtrip"
        if kinds == {"sub:value"} and s1 is None and s2 is None:
            es = _sub(nx, ny)
            if es[0] != "E" and abs((es[1] * 86400 + es[2]) * T.MEG + es[3]) >= 2 ** 33 * T.MEG:
                return "sub-length-float-roundtrip"
    if fn == "date_binary" and kinds == {"sub:value"}:
        return None
    return None


LEVEL_TEXT = ("Machine-checked Coq theorems over a dispatch model: Gen/Classes.v (computed from the class bodies' ast and the C3 MRO on every run) says which class answers each "
              "standard accessor; every override of a native attribute has a hand model (every_override_is_modelled, fail closed for new overrides; pinned sources); inherited "
              "accessors are the native function on the same fields by definition (trusted CPython inheritance); overridden ones are proved equal to the native function "
              "(date()/time()/timetz() fields incl. fold and the tzinfo object, astimezone, __str__ = isoformat(' ')), equality/hash with the native object, subtraction length (exact when the float round trip is, with "
              "refutations for the same-tzinfo offset 'fix', for native operands on skipped wall times and beyond 2^53 us), inter-zone order = instant order for every well-formed "
              "zone, with the same-zone wall-order counterexample proved. Tied to /repo by ~10^5 differential cases per run against native objects in both backends.")
DESIGN_REF = "DESIGN.md section 4 C11"
LEVEL_NOTE = ("Trusted: Coq kernel+VM; CPython's attribute lookup (an inherited C slot sees the same fields) — validated by the mro-table stream and by comparing every accessor with "
              "the native object; Model/DropIn.v's model of _datetimemodule.c comparison/hash/subtraction (validated on every binary case); strings are compared, not modelled.")
TECHNIQUE = "generated override table + Coq dispatch model (vm_compute reflection, lia over zone tables) + differential testing against native datetime objects"


# ---- specification side tied to CPython's own source (appended) ----
# coq/Gen/StdlibDT.v is the machine translation of CPython's pure-Python datetime arithmetic (_pydatetime.py: timedelta.__new__ [integer
# path] / __add__ / __sub__ / __neg__, _check_time_fields, _check_utc_offset, datetime.__new__ / utcoffset / __sub__ / _cmp / __add__ / replace,
# date.toordinal / __add__ / __sub__), regenerated on every run from the file the staged interpreter imports (tools/vlib/gens/g14_stdlib_dt.py);
# Props/C11.v spec_is_stdlib_* prove the native semantics of Model/DropIn.v, Spec/NativeDT.v and Spec/TdFloat.v equal to it.
_NSPEC_NEW = (
    "the NATIVE semantics used as specification (Model/DropIn.v native_utcoffset / native_sub / cmp_key / native_ord / native_eq, Spec/NativeDT.v "
    "ndt_add_td / ndt_replace_ymd, Spec/TdFloat.v td_norm / td_of_int_args) is PROVED equal to the translation of CPython's pure-Python reference "
    "implementation _pydatetime.py (Gen/StdlibDT.v, regenerated from the staged interpreter's stdlib on every run; theorems "
    "spec_is_stdlib_timedelta_new/_add/_sub/_neg, spec_is_stdlib_datetime_utcoffset/_sub/_cmp/_eq/_add/_add_ndt/_replace, spec_is_stdlib_date_add_ndt/"
    "_date_sub, spec_is_stdlib_field_order). Each function is partially evaluated under stated assumptions: operand types as in the call (other is a "
    "datetime / a timedelta), timedelta.__new__ on INTEGER arguments only (the float branches are out of scope; the float literals of the integer path "
    "are integral and are represented by the integers they equal), datetime.__new__ not in its pickle form, replace() called with year/month/day, "
    "self an exact datetime/date (type(self)(...) is the native constructor - a subclass such as pendulum's overrides it, which is what Part 2 of "
    "DropIn.v models). NOT translated and still hand-written: astimezone (native_astimezone = Model/TzConvert.v in_tz; its pieces self - offset, "
    "replace(tzinfo=tz) and tz.fromutc are covered by spec_is_stdlib_datetime_sub/_add and C02's spec_is_stdlib_fromutc, their composition is not), "
    "datetime.__hash__, timetuple/utctimetuple/timestamp/isoformat/date()/time()/timetz(), time.__new__ / combine / fromordinal (the result of "
    "dt + timedelta is built from the translated _ord2ymd with fold = 0), the object model coq/Model/StdlibDTObj.v (slots as record fields, identity "
    "of tzinfo objects as a tag, a tzinfo as its utcoffset function, equality/order/truth of timedeltas, the range test of _check_utc_offset, "
    "_cmp on tuples, replace(fold=not fold)). What remains trusted on the spec side: the C accelerator _datetime (what `datetime` actually is) "
    "agrees with _pydatetime.py - still covered by the oracle/correspondence streams of this property")
TRUSTED = [t for t in TRUSTED] + [_NSPEC_NEW]
LEVEL_NOTE = (LEVEL_NOTE + " The native subtraction / comparison / equality (PEP 495 exception) / addition / replace / utcoffset / timedelta "
              "normalisation rules of the specification side are no longer only hand-written from the documentation: they are proved equal "
              "(spec_is_stdlib_*) to the translation of CPython's _pydatetime.py, regenerated from the staged interpreter's standard library on every "
              "run; astimezone's composition, __hash__ and the formatting accessors remain hand-written; what remains trusted there is that the C "
              "accelerator _datetime agrees with _pydatetime.py (covered by the oracle streams).")
LEVEL_TEXT = (LEVEL_TEXT + " The native datetime rules the specification uses (aware subtraction and comparison, __eq__ with the PEP 495 exception, "
              "dt + timedelta resetting fold, replace, timedelta normalisation with its OverflowError bound) are proved equal to the translation of "
              "CPython's own pure-Python datetime source.")
LEVEL_NOTE = (LEVEL_NOTE + " Operands carrying foreign tzinfo kinds (dt-foreign-* streams) are inside the Coq model through the existing dt_binary entry (a tzinfo is an identity + a table; "
              "DateTime.instance() of a native operand re-attaches pendulum's object) for datetime.timezone / ZoneInfo / dateutil tzoffset,tzutc,tzfile (1972..2036, real walls) / user "
              "tzinfo subclasses; key-less ZoneInfo.from_file, pytz and the astimezone() results of this family are ORACLE-ONLY (native twins on the same tzinfo objects); two genuine "
              "defects found there are listed (astimezone-python-fromutc-target, keyless-zoneinfo-operand-raises).")


# some override bodies are translated from /repo on every run and their hand models are PROVED equal to the translation
TRUSTED = list(TRUSTED) + [
    "tools/vlib/pyfloat2gallina.py + tools/vlib/gens/g71_dropin_methods.py + coq/Model/DropInPrims.v (DateTime.date / time / timetz / __str__, FormattableMixin.for_json / __format__(''), "
    "DateTime.fromordinal translated from /repo on every run; reading rules in the generator's docstring: self.<field> = the component of the wall value, Date(..) / Time(..) = the observation "
    "tuple with the class called as type tag, self.isoformat(sep) = native_isoformat, cls.instance(datetime.fromordinal(n), tz=None) = native_fromordinal then pd_instance): "
    "model_is_code_dropin_date / _time / _timetz / _str_for_json_format / _fromordinal / _time_sub replace the trust in the hand transcription of THESE overrides in coq/Model/DropIn.v "
    "(closed under the global context)",
    "coq/Proofs/DropInGlueFacts.v: pd_create / pd_replace / pd_instance / pd_astimezone and fixed_utcoffset / fixed_dst / fixed_fromutc of coq/Model/DropIn.v are PROVED to answer what the bodies of "
    "DateTime.create / replace / instance / astimezone and FixedTimezone.utcoffset / fromutc / dst translated from /repo on every run answer (coq/Gen/TzGlue.v by g15_tz_glue.py — its reading rules and its "
    "hand-modelled native calls nat_new / nat_astimezone / nat_add are trusted as listed for C01-C03 — and coq/Gen/DropInMethods.v), through the value bridge tzi_of / dtv_of: model_is_code_dropin_create / "
    "_replace / _instance / _astimezone / _fixed_timezone. Side conditions: fields and wall value of a real datetime, fold 0 or 1, coherent timezone objects (gtz_ok, same_obj, tz_ok); instance: tz=None and "
    "the value carries a pendulum timezone object or is naive (either fold: the fold is kept). This tie found that pd_instance answered fold 0 for a naive value with fold 1 "
    "(DateTime.combine(date, time(fold=1))): the model was corrected and the naive combine cases now carry both folds. The remaining overrides stay hand-written + pinned (pinned_sources): __sub__ / __rsub__ / "
    "Interval.__new__, fromtimestamp / utcfromtimestamp, combine / strptime (one-line wrappers of instance), Date.__sub__, _cmp",
]
LEVEL_NOTE = LEVEL_NOTE + (" Model = code for the overrides date(), time(), timetz(), __str__, for_json, __format__(''), fromordinal and Time.__sub__: coq/Gen/DropInMethods.v is translated on every run and "
                           "Proofs/DropInMethodsFacts.v proves it equal to Model/DropIn.v (self-tested by mutation: time() dropping fold again, timetz() without tzinfo, date() with month / day swapped, "
                           "for_json via str(self)); create, replace, instance, astimezone and FixedTimezone.utcoffset / dst / fromutc are tied to the bodies translated in Gen/TzGlue.v (Proofs/DropInGlueFacts.v), "
                           "which exposed one wrong answer of the hand model (pd_instance on a naive value with fold 1), since corrected. Still hand + pinned: __sub__ / __rsub__ / "
                           "Interval.__new__, fromtimestamp, utcfromtimestamp, combine, strptime, Date.__sub__, _cmp.")


# ---- process-wide configuration x naive receivers, and __format__ specs (appended, round 6) ----
RULE = RULE + (" Stream family dt-cfg-* (fn dt_cfg; quick 700, thorough 12000 cases): ONE case = a HISTORY of process-wide configuration calls performed by the case itself "
               "(set_local_timezone(z) / set_local_timezone() / entering and leaving test_local_timezone(z) / rejected calls set_locale('tlh'), week_starts_at(9), timezone('No/Where'); 11 history "
               "shapes incl. the empty one, zones Asia/Tokyo, America/Toronto, Asia/Kathmandu, Europe/Paris, Australia/Lord_Howe, Pacific/Apia, fixed offsets, UTC; the previous setting is restored), "
               "then a NAIVE DateTime (plain constructor | pendulum.naive | aware.replace(tzinfo=None); both folds; fixed witnesses, walls around the transitions of the configured / target zones read "
               "as UTC and as local time, random) is asked every standard accessor (obs_dt: isoformat, strftime, format, ctime, timetuple, utctimetuple, timestamp, utcoffset, tzname, dst, date(), "
               "time(), ...), ==/hash against the native value, and astimezone(pendulum zone | stdlib tzinfo | no argument); oracle = the naive datetime.datetime with the same fields inside the "
               "same process AND the stdlib-only expectation (a naive value is system local time = UTC in the staged environment: the result is the rendering of the wall value read as a UTC "
               "instant); model = dispatch entry dt_astz_cfg of Model/DropInCfg.v (the history is an INPUT of the model: run_cfg, pd_local_timezone is compared with pendulum.local_timezone() "
               "after the history whenever the history fixes it; astimezone_after must not depend on it). The empty-history cases are ordinary naive-receiver cases and are sampled by the "
               "runner's reverse / failed / ambient (set_local_timezone(Asia/Kathmandu)) passes. Stream family fmt-spec-{datetime,date,time} (fn fmt_spec; quick 1200, thorough 20300 cases): "
               "format(x, spec), '{:{}}'.format(x, spec), a doubled str.format field, x.__format__(spec) and x.strftime(spec) for DateTime / Date / Time (zones None, UTC, Europe/Paris, "
               "America/St_Johns, Asia/Kathmandu, +01:00, -03:30; both folds; years 1000..9999) over 50 fixed specs and grammar-generated ones in five classes: EVERY directive carries a glibc flag / "
               "width / colon / E,O modifier (%-d %_d %^b %#Z %4Y %10j %:z %Ex %Od), plain directives, mixed, percent signs only (%%, a trailing lone %, 100%%), no percent sign (pendulum tokens), "
               "and the empty spec; oracle = the native object with the same fields and the same tzinfo object inside the process (native __format__ = str for the empty spec, strftime for every "
               "other), the stdlib-only native object for portable directives, equality of all spellings, and the ROUTE observed through probe subclasses that override strftime / format / "
               "__str__ (pendulum and native); model = dispatch entry fmt_route (Model/DropInCfg.v fmt_route / native_fmt_route over the spec's code points). Specs without a percent sign go to "
               "pendulum's own formatter by documented design: only the agreement of the spellings and the route are checked there (they follow set_locale: ambient_depends).")
LEVEL_NOTE = LEVEL_NOTE + (" Round 6: process-wide configuration is INSIDE the Coq model for the one setting a drop-in method could consult (Model/DropInCfg.v: configuration = last successfully set "
                           "local timezone, a rejected call changes nothing, test_local_timezone restores the default; astimezone of a naive DateTime = the native answer in the SYSTEM zone after every "
                           "history; theorems failed_set_keeps_configuration, local_timezone_is_last_set, naive_astimezone_independent_of_history, naive_astimezone_is_native, "
                           "naive_astimezone_utc_instant, naive_astimezone_configured_zone_refuted), tied by the dt-cfg correspondence (model vs implementation, incl. pendulum.local_timezone() after the "
                           "history); the system zone is UTC (TZ=UTC of the staged environment; a system zone with transitions - C mktime semantics on skipped walls - is not exercised). The routing of "
                           "FormattableMixin.__format__ is in the model as well (fmt_route; format_percent_spec_is_strftime, format_route_differs_only_without_percent) and is observed on the "
                           "implementation through probe subclasses; the strftime TEXT stays oracle-only (platform strftime, compared with the native object). The accessor observations of the dt-cfg "
                           "cases (obs_dt under configuration) are oracle-only.")
ASSUMPTIONS = list(ASSUMPTIONS) + ["dt-cfg: the system local zone is UTC (TZ=UTC); glibc strftime extensions (flags, widths, %:z on CPython >= 3.12) are compared only against the native object in the same process"]
