"""C03 — adding fixed-length units moves the instant by exactly that elapsed time."""
from __future__ import annotations

import datetime as _dt
import math
import random

from vlib import tzcases as T
from vlib import zones

ID = "C03"
PROPS = "Props/C03.v"
RULE = ("enumerated: for ~60 zones (thorough: all) the offset-changing transitions, start instants on both sides of / inside each gap or overlap and both folds of repeated times, "
        "amounts (hours, minutes, seconds, microseconds) with mixed signs, carries across several units, landing before/at/after the transition, |total| up to 10^9 s and beyond "
        "(results outside years 1..9999 must raise), through add(), subtract(), + timedelta, - timedelta; naive DateTimes; subtract() undoing add(). "
        "add_duration itself (translated) is run on naive values and dates. "
        "FLOAT route (dt + td, dt - td, td + dt with a plain timedelta; model FloatRoutes.add_timedelta / sub_timedelta over SpecFloat): td-boundary = +-(2^k s +- j us), k <= 33, and the "
        "carries at 58..61 s, 3599/3600 s, 86399/86400 s, 1 year, sub-second negatives such as timedelta(microseconds=-1), each landing on / starting in / crossing every kind of tz transition, "
        "UTC and fixed offsets; td-random (log-uniform |td| < 2^33 s); td-beyond-2-33 (|td| >= 2^33 s: the listed finding); td-naive; td-add-duration-float / td-add-seconds-float = ARBITRARY doubles "
        "(neighbours of microsecond values, exact halves n + j/128, 59.999..., subnormals, inf, nan) through helpers.add_duration(dt, seconds=x) and DateTime.add(seconds=x). "
        "ZONE-CTOR (stream zone-ctor, fn add_ctor; in the model: the same add_fixed / add_timedelta / sub_timedelta entries, whose zone is the TABLE, so the constructor path cannot matter there and "
        "add_moves_instant_exactly / model_is_code_datetime_add quantify over every tz object): the zone of the start value is obtained by EVERY constructor path -- pendulum.timezone(name), Timezone(name), "
        "Timezone.no_cache(name), tz='Name' string, a stdlib zoneinfo.ZoneInfo passed as tz=, Timezone.from_file(open(TZif)) with and without key= (no key: name None), the local-timezone paths "
        "(set_local_timezone(file zone) + tz='local', test_local_timezone(file zone), TZ=<path> through _get_unix_timezone() and through pendulum.local_timezone(), a regular-file <root>/etc/localtime), "
        "in_timezone(file zone) from UTC, pendulum.instance(native datetime in a file zone); fixed offsets by pendulum.timezone(int), tz.fixed_timezone, FixedTimezone(offset), FixedTimezone(offset, name=), "
        "tz=<float hours>, tz=datetime.timezone(...) -- each x {add, subtract, + td, - td, td + dt} x {crossing a transition forwards / backwards, landing on it, starting inside it}; the oracle also "
        "demands that the result carries the SAME tzinfo object / timezone_name as the start. "
        "LOCALTZ-CONFIG (stream localtz-config, fn localtz_run; model Model/LocalTzConfig.v, dispatch localtz_run): random histories of set_local_timezone(zone) / set_local_timezone() / "
        "get_local_timezone() with the system zone (TZ=<TZif path>) changing between the calls / test_local_timezone(zone), over named zones, file-loaded zones without key and fixed offsets; per get the zone "
        "handed out (mock by identity, system zone by its offsets) is compared with the model and add(hours=720 / -4800 / 1) and + timedelta on a tz='local' value must be exact in it. "
        "non-trivial = distinct (zone, constructor path, instant, amount, route) / distinct history.")
EXHAUSTIVE = {"quick": False, "thorough": False}
TRUSTED = ["zoneinfo / tzdata as in C01, C02", "Model/TzConvert.v add_fixed / add_naive hand model of DateTime.add (tied by correspondence); helpers.add_duration is translated (Gen/AddDuration.v)",
           "Model/FloatRoutes.v: hand model of the float route (_add_timedelta_/_subtract_timedelta -> add(seconds=<float>) -> add_duration's float carry chain -> CPython's timedelta(float args): "
           "accum/modf/round-half-even), over Coq's SpecFloat binary64 (Spec/TdFloat.v); tied to /repo by the td-* correspondence streams (both backends), incl. arbitrary doubles",
           "the float theorems (float_carry_chain_exact, add_timedelta_*, sub_timedelta_*, naive_plus_timedelta_*) are proved with Flocq and depend on the axioms of Coq's classical real numbers as "
           "printed by Print Assumptions: ClassicalDedekindReals.sig_forall_dec, ClassicalDedekindReals.sig_not_dec, FunctionalExtensionality.functional_extensionality_dep, Classical_Prop.classic "
           "(no axiom of our own; the SpecFloat model itself is axiom-free and the boundary-family theorem is a closed kernel computation)"]
ASSUMPTIONS = ["native datetime arithmetic of CPython (naive + timedelta) is Spec/NativeDT.v ndt_add_td; validated by the add_duration stream"]
ROUTES = ["add", "subtract", "plus_td", "minus_td"]
TD_ROUTES = ["plus_td", "minus_td", "radd_td"]
CTOR_ROUTES = ["add", "subtract", "plus_td", "minus_td", "radd_td"]
# every way a caller can come by the zone of a DateTime (the property says "aware in any zone")
NAMED_CTORS = ["timezone", "Timezone", "no_cache", "str", "zoneinfo", "from_file", "from_file_key", "local_set", "local_test", "local_env", "local_env_get",
               "local_etc", "in_tz_file", "instance_file"]
FIXED_CTORS = ["timezone_int", "fixed_timezone", "FixedTimezone", "FixedTimezone_named", "float_hours", "stdlib_timezone"]
# zones of the local-timezone histories: mock id i+1 = LTZ_UNIVERSE[i] (even i: loaded from its TZif file, no key; odd i: by name), then the fixed offsets;
# system id 101+i = TZ=<path of LTZ_UNIVERSE[i]'s file>.  Pairwise different offsets at LTZ_PROBE (the fingerprint that identifies a system zone).
LTZ_UNIVERSE = ["Europe/Paris", "America/New_York", "Australia/Lord_Howe", "Asia/Kathmandu", "Asia/Tehran", "Pacific/Apia"]
LTZ_FIXED = [20700, -12600]
LTZ_HOURS = [24 * 30, -24 * 200, 1]
B33 = 2 ** 33 * 10 ** 6          # microseconds in 2^33 seconds: below it float total_seconds() round-trips exactly (theorem)
FINDING_TD = "timedelta-float-seconds-beyond-2-33"


# ----------------------------------------------------------------------------- floats on the wire: (tag, mantissa, exponent) = TdFloat.sf_code
def fcode(x):
    x = float(x)
    if x != x:
        return [6, 0, 0]
    if x == math.inf:
        return [4, 0, 0]
    if x == -math.inf:
        return [5, 0, 0]
    if x == 0:
        return [1, 0, 0] if math.copysign(1.0, x) < 0 else [0, 0, 0]
    m, e = math.frexp(abs(x))
    m = int(m * 2 ** 53)
    e -= 53
    if e < -1074:
        m >>= (-1074 - e)
        e = -1074
    return [3 if x < 0 else 2, m, e]


def td_float_roundtrip(N):
    """timedelta(seconds=timedelta(microseconds=N).total_seconds()) in microseconds (stdlib only)."""
    t = _dt.timedelta(seconds=_dt.timedelta(microseconds=N).total_seconds())
    return (t.days * 86400 + t.seconds) * T.MEG + t.microseconds


def _td_boundary_amounts():
    """Deterministic boundary family for the timedelta route: +-(2^k s +- j us), k <= 33, and the carries of add_duration's float chain."""
    out = set()
    for k in range(0, 34):
        for j in (0, 1, -1, 2, 499999, 500000, 500001, -500000, 999999):
            out.add(2 ** k * T.MEG + j)
    for sec in (58, 59, 60, 61, 119, 120, 3540, 3599, 3600, 3601, 3659, 3660, 7199, 7200, 82800, 86339, 86340, 86399, 86400, 86401, 86459, 86460,
                89999, 90000, 172799, 172800, 31535999, 31536000):
        for j in (0, 1, -1, 500000, 999999, -999999):
            out.add(sec * T.MEG + j)
    for u in (1, 2, 3, 499999, 500000, 500001, 999998, 999999, 1000000, 1000001):
        out.add(u)
    out = {n for n in out if 0 < n < B33}
    return sorted(out | {-n for n in out} | {0})


def _td_beyond_amounts(rnd):
    """|td| >= 2^33 s: total_seconds() has a spacing above 1 us, the route can be off by microseconds (listed finding)."""
    out = []
    for k in range(33, 39):
        for j in (0, 1, 3, 7, 500001, -1, -3):
            n = 2 ** k * T.MEG + j
            if abs(n) >= B33:
                out.append(n)
    for _ in range(60):
        out.append(rnd.randrange(B33, 3 * 10 ** 11 * T.MEG))
    return out + [-n for n in out]


def _float_samples(rnd, n_rand):
    """Arbitrary doubles (not only total_seconds() values) for add_duration(dt, seconds=x) / dt.add(seconds=x): as float.hex() strings."""
    xs = []
    for N in _td_boundary_amounts()[::7]:
        x = N / T.MEG
        xs += [x, math.nextafter(x, math.inf), math.nextafter(x, -math.inf)]
    for base in (0, 1, 58, 59, 60, 61, 3599, 3600, 86399, 86400, 2 ** 20, 2 ** 31 - 1, 2 ** 33):
        for j in (1, 3, 63, 64, 65, 127):        # base + j/128: 1e6 * j/128 is exact and ends in .5 -> exact-half leftovers
            xs.append(base + j / 128.0)
    xs += [59.0, math.nextafter(59.0, math.inf), 59.9999999, 60 - 2.0 ** -47, 59.99999999999999, 3599.9999999, 3599.9999995, 86399.9999996, 86399.99999999999,
           1e-7, 4.9e-7, 5e-7, 5.1e-7, 1.5e-6, 2.5e-6, 5e-324, 2.2250738585072014e-308, 0.1, 0.3, 1 / 3.0, 2 / 3.0, 1e9 + 0.1, 1e10 + 0.7, 2.0 ** 40 + 0.5,
           1e11 / 3, 123456789.987654321, 23 * 3600.0, 24 * 3600.0 - 2.0 ** -37, 1439 * 60.0, 1440 * 60.0, 0.0]
    for _ in range(n_rand):
        k = rnd.randrange(6)
        if k == 0:
            xs.append(rnd.uniform(0, 120))
        elif k == 1:
            xs.append(rnd.uniform(0, 200000))
        elif k == 2:
            xs.append(math.ldexp(rnd.random() + 0.5, rnd.randrange(-30, 38)))
        elif k == 3:
            xs.append(rnd.randrange(0, 10 ** 7) * 60 + rnd.choice([0.0, 0.5, 59.999999, 59.9999996, 2.0 ** -20]))
        elif k == 4:
            xs.append(rnd.randrange(0, 2 ** 35) + rnd.randrange(0, 128) / 128.0)
        else:
            xs.append(rnd.randrange(0, 10 ** 15) / 10 ** 6)
    out = []
    for x in xs:
        out.append(float(x).hex())
        out.append((-float(x)).hex())
    return out


def _amounts(rnd, total_hint=None):
    kind = rnd.randrange(8)
    if kind == 0:
        return [rnd.randrange(-30, 31), 0, 0, 0]
    if kind == 1:
        return [0, rnd.randrange(-2000, 2001), 0, 0]
    if kind == 2:
        return [0, 0, rnd.randrange(-100000, 100001), 0]
    if kind == 3:
        return [0, 0, 0, rnd.randrange(-5 * 10 ** 9, 5 * 10 ** 9)]
    if kind == 4:   # mixed signs with carries
        return [rnd.randrange(-50, 51), rnd.randrange(-200, 201), rnd.randrange(-5000, 5001), rnd.randrange(-3 * 10 ** 6, 3 * 10 ** 6)]
    if kind == 5:   # boundaries of the carry tests
        return [rnd.choice([23, 24, 25, -23, -24, -25]), rnd.choice([59, 60, 61, -59, -60, -61]), rnd.choice([59, 60, 61, -59, -60, -61]),
                rnd.choice([999999, 1000000, 1000001, -999999, -1000000, -1000001])]
    if kind == 6:   # large
        return [rnd.randrange(-300000, 300001), rnd.randrange(-10 ** 6, 10 ** 6), rnd.randrange(-10 ** 9, 10 ** 9), rnd.randrange(-10 ** 12, 10 ** 12)]
    return [0, 0, rnd.choice([1, -1, 3599, 3600, 3601, -3600, 1800, 86399, 86400]), rnd.choice([0, 1, -1])]


def cases(tier, seed):
    rnd = random.Random(seed)
    out = []
    zs = list(zones.names()) if tier == "thorough" else zones.pick_zones(rnd, 60)
    k = 0
    for name in zs:
        trs = T.transition_probes(name, rnd, per_zone=None if tier == "thorough" else 10)
        for (tt, o_pre, o_post) in trs:
            sh = abs(o_post - o_pre)
            base = (tt + T.EPOCH_S) * T.MEG
            starts = [base - 3600 * T.MEG, base - 1, base, base + (sh // 2) * T.MEG, base + sh * T.MEG - 1, base + sh * T.MEG + 5, base - sh * T.MEG - 7]
            for U in starts:
                if not (T.US_DAY * 400 < U < T.MAX_WALL - T.US_DAY * 400):
                    continue
                for _ in range(2):
                    am = _amounts(rnd)
                    if rnd.random() < 0.5:   # land exactly around the transition
                        delta = base - U + rnd.choice([-1, 0, 1, sh * T.MEG, -sh * T.MEG])
                        am = [0, 0, delta // T.MEG, delta % T.MEG]
                    out.append({"stream": "transition", "fn": "add_fixed", "args": [name, U, am, ROUTES[k % 4]]})
                    k += 1
    # add_duration re-clamps the day with helpers.is_leap(year) (either backend) even for fixed units:
    # a start whose UTC date is Feb 29 exercises is_leap for EVERY leap year 1..9999
    import calendar
    for y in range(4, 10000, 4):
        if calendar.isleap(y):
            U = ((_dt.date(y, 2, 29).toordinal() - 1) * 86400 + 12 * 3600 + (y % 3600)) * T.MEG
            spec = ["UTC", "Europe/Paris", "Asia/Tokyo", -18000][y // 4 % 4]
            out.append({"stream": "feb29-every-leap-year", "fn": "add_fixed", "args": [spec, U, [1, 0, 0, 0] if y % 8 else [0, 0, 0, -1], ROUTES[(y // 4) % 2]]})
    fixed = [0, 3600, -12600, 20700, 86340, -86340]
    for _ in range(3000 if tier == "quick" else 40000):
        spec = zs[rnd.randrange(len(zs))] if rnd.random() < 0.8 else fixed[rnd.randrange(len(fixed))]
        U = rnd.randrange(T.US_DAY * 400, T.MAX_WALL - T.US_DAY * 400)
        out.append({"stream": "random", "fn": "add_fixed", "args": [spec, U, _amounts(rnd), ROUTES[rnd.randrange(4)]]})
    for _ in range(1500 if tier == "quick" else 20000):
        W = rnd.randrange(T.US_DAY * 400, T.MAX_WALL - T.US_DAY * 400)
        out.append({"stream": "naive", "fn": "add_naive", "args": [W, _amounts(rnd), ROUTES[rnd.randrange(2)]]})
    # results outside the representable range
    for spec in ("UTC", "Europe/Paris", 3600):
        for U, sgn in ((T.US_DAY * 2, -1), (T.MAX_WALL - T.US_DAY * 2, 1)):
            out.append({"stream": "range-edge", "fn": "add_fixed", "args": [spec, U, [sgn * 100, 0, 0, 0], "add"]})
            out.append({"stream": "range-edge", "fn": "add_fixed", "args": [spec, U, [0, 0, sgn * 10 ** 15, 0], "add"]})
    # the translated add_duration on naive datetimes and dates (all eight arguments)
    for _ in range(3000 if tier == "quick" else 40000):
        W = rnd.randrange(T.US_DAY * 400, T.MAX_WALL - T.US_DAY * 400)
        isdt = rnd.randrange(2)
        if not isdt:
            W -= W % T.US_DAY
        ym = [rnd.randrange(-30, 31), rnd.randrange(-40, 41), rnd.randrange(-60, 61), rnd.randrange(-500, 501)]
        am = _amounts(rnd) if isdt or rnd.random() < 0.2 else [0, 0, 0, 0]
        out.append({"stream": "add_duration", "fn": "add_duration", "args": [W, isdt, ym + am]})
    out += _td_cases(tier, rnd, zs)
    out += _ctor_cases(tier, rnd, zs)
    return out


def _split(rnd, delta):
    """Some (hours, minutes, seconds, microseconds) with mixed signs whose total is delta microseconds."""
    k = rnd.randrange(4)
    if k == 0:
        return [0, 0, delta // T.MEG, delta % T.MEG]
    if k == 1:
        return [0, 0, 0, delta]
    h, m = rnd.randrange(-30, 31), rnd.randrange(-200, 201)
    rest = delta - (h * 60 + m) * 60 * T.MEG
    if k == 2:
        return [h, m, rest // T.MEG, rest % T.MEG]
    us = rnd.randrange(-3 * 10 ** 6, 3 * 10 ** 6)
    rest -= us
    return [h, m + rest // (60 * T.MEG), (rest % (60 * T.MEG)) // T.MEG, us + rest % T.MEG]


def _ctor_cases(tier, rnd, zs):
    """Zones obtained by every constructor path (named, file-loaded without key, local-timezone loader, fixed offsets), around transitions, every route."""
    out = []
    must = ["Europe/Paris", "America/New_York", "Australia/Lord_Howe", "Europe/Dublin", "Africa/Casablanca", "Pacific/Apia", "America/St_Johns", "Asia/Tehran"]
    extra = [z for z in zs if z not in must and z != "UTC"]
    names = [z for z in must if z in zones.names()] + extra[:6 if tier == "quick" else 60]
    cnt = {}
    for name in names:
        trs = T.transition_probes(name, rnd, per_zone=4 if tier == "quick" else 10)
        for (tt, o_pre, o_post) in trs:
            sh = abs(o_post - o_pre)
            base = (tt + T.EPOCH_S) * T.MEG
            for ctor in NAMED_CTORS:
                for rep in range(2):
                    k = cnt[ctor] = cnt.get(ctor, -1) + 1       # per constructor path: every (mode, route) pair in turn
                    mode = k % 4
                    d1 = rnd.choice([1, T.MEG, 1800 * T.MEG, rnd.randrange(1, 2 * T.US_DAY), rnd.randrange(1, 40 * T.US_DAY)])
                    d2 = rnd.choice([0, 1, sh * T.MEG, rnd.randrange(0, 2 * T.US_DAY), rnd.randrange(0, 40 * T.US_DAY)])
                    if mode == 0:       # forwards across the transition
                        U, delta = base - d1, d1 + d2
                    elif mode == 1:     # backwards across it
                        U, delta = base + d2, -(d1 + d2)
                    elif mode == 2:     # land on / just around it
                        U = base + rnd.choice([-1, 1]) * d1
                        delta = base - U + rnd.choice([-1, 0, 1, sh * T.MEG, -sh * T.MEG, sh * T.MEG - 1])
                    else:               # start inside the gap / overlap, any amount
                        U = base + rnd.choice([0, 1, (sh // 2) * T.MEG, sh * T.MEG - 1, -sh * T.MEG, -1])
                        delta = _total(_amounts(rnd))
                    route = CTOR_ROUTES[(k // 4) % 5]
                    if not (_in_range(U) and _in_range(U + delta)):
                        continue
                    out.append({"stream": "zone-ctor", "fn": "add_ctor", "args": [name, ctor, U, _split(rnd, delta), route]})
    for off in [0, 3600, -12600, 20700, 49500, -34200, 86340, -86340, 1, -3599]:
        for ctor in FIXED_CTORS:
            if ctor == "float_hours" and int((off / 3600) * 60 * 60) != off:
                continue
            if ctor == "stdlib_timezone" and off == 0:
                continue        # datetime.timezone.utc is mapped to the named zone UTC (a different, equally exact, zone): covered by the named paths
            for route in CTOR_ROUTES:
                U = rnd.randrange(T.US_DAY * 400, T.MAX_WALL - T.US_DAY * 400)
                am = _amounts(rnd)
                if _in_range(U + _total(am)):
                    out.append({"stream": "zone-ctor", "fn": "add_ctor", "args": [off, ctor, U, am, route]})
    # the local-timezone configuration itself as a state machine (Model/LocalTzConfig.v): histories of set / clear / get / test-context, the system zone
    # (TZ=<path of a TZif file>) changing between the calls; after every get, 30 days are added across a transition in the zone handed out
    for _ in range(150 if tier == "quick" else 1500):
        ops = []
        for _ in range(rnd.randrange(2, 9)):
            code = rnd.choice([0, 0, 1, 2, 2, 2, 3])
            arg = {0: rnd.randrange(1, len(LTZ_UNIVERSE) + len(LTZ_FIXED) + 1), 1: 0, 2: 101 + rnd.randrange(len(LTZ_UNIVERSE)),
                   3: rnd.randrange(1, len(LTZ_UNIVERSE) + len(LTZ_FIXED) + 1)}[code]
            ops += [code, arg]
        ops += [2, 101 + rnd.randrange(len(LTZ_UNIVERSE))]
        out.append({"stream": "localtz-config", "fn": "localtz_run", "args": [ops]})
    return out


def _in_range(U):
    return T.US_DAY * 400 < U < T.MAX_WALL - T.US_DAY * 400


def _td_cases(tier, rnd, zs):
    """The float route: dt + timedelta, dt - timedelta, timedelta + dt (model: FloatRoutes.add_timedelta / sub_timedelta)."""
    out = []
    fixed = [0, 3600, -12600, 20700, 86340, -86340]
    # anchors: (zone, instant of a transition, |shift|) for every kind of transition of a dozen zones + UTC / fixed offsets
    anchors = []
    for name in (zs if tier == "thorough" else zs[:14]):
        for (tt, o_pre, o_post) in T.transition_probes(name, rnd, per_zone=None if tier == "thorough" else 4):
            anchors.append((name, (tt + T.EPOCH_S) * T.MEG, abs(o_post - o_pre)))
    for f in fixed:
        anchors.append((f, rnd.randrange(T.US_DAY * 100000, T.MAX_WALL - T.US_DAY * 100000), 0))
    amounts = _td_boundary_amounts()
    k = 0
    for N in amounts:
        for rep in range(2 if tier == "quick" else 4):
            spec, base, sh = anchors[k % len(anchors)]
            route = TD_ROUTES[k % 3]
            shift = -N if route == "minus_td" else N
            mode = (k // 3) % 4
            if mode == 0:      # land exactly around the transition
                U = base - shift + rnd.choice([-1, 0, 1, sh * T.MEG - 1, sh * T.MEG])
            elif mode == 1:    # start around / inside the transition
                U = base + rnd.choice([-1, 0, 1, (sh // 2) * T.MEG, sh * T.MEG - 1, sh * T.MEG + 5, -sh * T.MEG - 7])
            elif mode == 2:    # cross it
                U = base - shift // 2
            else:
                U = rnd.randrange(T.US_DAY * 400, T.MAX_WALL - T.US_DAY * 400)
            k += 1
            if not (_in_range(U) and _in_range(U + shift)):
                U = rnd.randrange(T.US_DAY * 110000, T.MAX_WALL - T.US_DAY * 110000)
            out.append({"stream": "td-boundary", "fn": "td_route", "args": [spec, U, N, route]})
    # random amounts below 2^33 s, log-uniform magnitudes
    for _ in range(2500 if tier == "quick" else 40000):
        mag = int(math.ldexp(rnd.random() + 0.5, rnd.randrange(0, 53)))
        N = rnd.choice([1, -1]) * (mag % B33)
        spec = zs[rnd.randrange(len(zs))] if rnd.random() < 0.75 else fixed[rnd.randrange(len(fixed))]
        route = TD_ROUTES[rnd.randrange(3)]
        U = rnd.randrange(T.US_DAY * 110000, T.MAX_WALL - T.US_DAY * 110000)
        out.append({"stream": "td-random", "fn": "td_route", "args": [spec, U, N, route]})
    # beyond 2^33 s (listed finding: off by microseconds)
    for i, N in enumerate(_td_beyond_amounts(rnd)):
        route = TD_ROUTES[i % 3]
        shift = -N if route == "minus_td" else N
        spec = ["UTC", 3600, "Europe/Paris", -12600, "America/New_York", "Asia/Tokyo"][i % 6]
        lo, hi = max(0, -shift) + T.US_DAY * 400, min(T.MAX_WALL, T.MAX_WALL - shift) - T.US_DAY * 400
        if lo < hi:
            out.append({"stream": "td-beyond-2-33", "fn": "td_route", "args": [spec, rnd.randrange(lo, hi), N, route]})
    # results outside years 1..9999 must raise
    for spec in ("UTC", "Europe/Paris", 3600):
        for U, sgn in ((T.US_DAY * 2, -1), (T.MAX_WALL - T.US_DAY * 2, 1)):
            out.append({"stream": "td-range-edge", "fn": "td_route", "args": [spec, U, sgn * 5 * T.US_DAY, "plus_td"]})
            out.append({"stream": "td-range-edge", "fn": "td_route", "args": [spec, U, -sgn * 5 * T.US_DAY, "minus_td"]})
    # naive values
    for i, N in enumerate(amounts[::3] + [rnd.randrange(-B33 + 1, B33) for _ in range(300)]):
        W = rnd.randrange(T.US_DAY * 110000, T.MAX_WALL - T.US_DAY * 110000)
        out.append({"stream": "td-naive", "fn": "td_naive", "args": [W, N, TD_ROUTES[i % 3]]})
    # arbitrary doubles through helpers.add_duration(dt, seconds=x) and DateTime.add(seconds=x): correspondence of the carry chain itself
    fl = _float_samples(rnd, 400 if tier == "quick" else 6000)
    for i, hx in enumerate(fl):
        W = rnd.randrange(T.US_DAY * 1300000, T.MAX_WALL - T.US_DAY * 1300000)
        out.append({"stream": "td-add-duration-float", "fn": "add_duration_float", "args": [W, hx]})
        if i % 4 == 0:
            spec, base, sh = anchors[i % len(anchors)]
            U = base - int(float.fromhex(hx) * T.MEG) + rnd.choice([-1, 0, 1])
            if not _in_range(U):
                U = rnd.randrange(T.US_DAY * 1300000, T.MAX_WALL - T.US_DAY * 1300000)
            out.append({"stream": "td-add-seconds-float", "fn": "add_seconds_float", "args": [spec, U, hx]})
    for hx in ("inf", "-inf", "nan"):
        out.append({"stream": "td-add-duration-float", "fn": "add_duration_float", "args": [T.US_DAY * 730000, hx]})
    return out


def search_cases(seed):
    return cases("thorough", seed)[::3]


def nontrivial(c):
    return True


def _total(am):
    h, m, s, us = am
    return ((h * 60 + m) * 60 + s) * T.MEG + us


# ----------------------------------------------------------------------------- zones by constructor path (runs in the staged interpreter)
def tzfile_path(name):
    """The TZif file zoneinfo.ZoneInfo(name) itself reads: TZPATH first, then the tzdata package."""
    import os
    import zoneinfo
    from importlib import resources
    for root in zoneinfo.TZPATH:
        q = os.path.join(root, name)
        if os.path.isfile(q):
            return q
    pkg, _, leaf = ("tzdata.zoneinfo." + name.replace("/", ".")).rpartition(".")
    return str(resources.files(pkg).joinpath(leaf))


_ETC_ROOTS = {}


def _etc_root(name):
    """A scratch root whose etc/localtime is a REGULAR FILE holding the zone (the usual situation in containers)."""
    import os
    import shutil
    import tempfile
    r = _ETC_ROOTS.get(name)
    if r is None:
        r = tempfile.mkdtemp(prefix="c03root-", dir="/var/tmp")
        os.makedirs(os.path.join(r, "etc"))
        shutil.copyfile(tzfile_path(name), os.path.join(r, "etc", "localtime"))
        _ETC_ROOTS[name] = r
    return r


def _cleanup_roots():
    import shutil
    for r in _ETC_ROOTS.values():
        shutil.rmtree(r, ignore_errors=True)
    _ETC_ROOTS.clear()


def start_by_ctor(spec, ctor, U, body):
    """Build the start DateTime (instant U) in the zone `spec` obtained through constructor path `ctor`, run body(x) while that path's
    configuration is in force, restore every process-wide setting touched.  Returns body's value."""
    import os
    import zoneinfo
    import pendulum
    import importlib
    lt = importlib.import_module("pendulum.tz.local_timezone")      # the module (pendulum.tz.local_timezone the attribute is a function of the same name)
    from pendulum.tz.timezone import FixedTimezone, Timezone
    W, fold, off = T.ref_render(T.ref_zone(spec), U)
    y, mo, d, h, mi, s, us = T.fields_of(W)

    def file_zone(**kw):
        with open(tzfile_path(spec), "rb") as f:
            return Timezone.from_file(f, **kw)

    def direct(tz):
        return body(pendulum.DateTime(y, mo, d, h, mi, s, us, tzinfo=tz, fold=fold))

    def via_arg(tz):
        return body(pendulum.datetime(y, mo, d, h, mi, s, us, tz=tz, fold=fold))

    saved = (lt._mock_local_timezone, lt._local_timezone, os.environ.get("TZ"))
    try:
        if ctor == "timezone" or ctor == "timezone_int":
            return direct(pendulum.timezone(spec))
        if ctor == "Timezone":
            return direct(Timezone(spec))
        if ctor == "no_cache":
            return direct(Timezone.no_cache(spec))
        if ctor == "str":
            return via_arg(spec)
        if ctor == "zoneinfo":
            return via_arg(zoneinfo.ZoneInfo(spec))
        if ctor == "from_file":
            return direct(file_zone())
        if ctor == "from_file_key":
            return direct(file_zone(key=spec))
        if ctor == "local_set":
            pendulum.set_local_timezone(file_zone())
            return via_arg("local")
        if ctor == "local_test":
            with pendulum.tz.test_local_timezone(file_zone()):
                return via_arg("local")
        if ctor == "local_env":
            os.environ["TZ"] = (":" if U % 2 else "") + tzfile_path(spec)
            return direct(lt._get_unix_timezone())
        if ctor == "local_env_get":
            os.environ["TZ"] = tzfile_path(spec)
            lt._mock_local_timezone = None
            lt._local_timezone = None
            return via_arg(pendulum.local_timezone())
        if ctor == "local_etc":
            os.environ.pop("TZ", None)
            return direct(lt._get_unix_timezone(_root=_etc_root(spec)))
        if ctor == "in_tz_file":
            yy, mm, dd, hh, mi2, ss, uu = T.fields_of(U)
            return body(pendulum.DateTime(yy, mm, dd, hh, mi2, ss, uu, tzinfo=pendulum.UTC).in_timezone(file_zone()))
        if ctor == "instance_file":
            return body(pendulum.instance(_dt.datetime(y, mo, d, h, mi, s, us, tzinfo=file_zone(), fold=fold)))
        if ctor == "fixed_timezone":
            return direct(pendulum.tz.fixed_timezone(spec))
        if ctor == "FixedTimezone":
            return direct(FixedTimezone(spec))
        if ctor == "FixedTimezone_named":
            return direct(FixedTimezone(spec, name="Custom/Offset"))
        if ctor == "float_hours":
            return via_arg(spec / 3600)
        if ctor == "stdlib_timezone":
            return via_arg(_dt.timezone(_dt.timedelta(seconds=spec)))
        raise KeyError(ctor)
    finally:
        lt._mock_local_timezone, lt._local_timezone = saved[0], saved[1]
        if saved[2] is None:
            os.environ.pop("TZ", None)
        else:
            os.environ["TZ"] = saved[2]


def _localtz_run(ops):
    """A history of the local-timezone configuration, from the import state; restores what it touched.  Result [0, id, exact, id, exact, ...]:
    per get the zone handed out (mock id by IDENTITY, system id 101+i by fingerprint) and whether adding 30 days / subtracting 200 days of hours
    to a tz='local' value moved the instant by exactly that much (the addition crosses a DST change in every zone of the universe that has one)."""
    import importlib
    import os
    import pendulum
    from pendulum.tz.timezone import FixedTimezone, Timezone
    lt = importlib.import_module("pendulum.tz.local_timezone")
    probe = _dt.datetime(2021, 1, 15, 12)
    mocks = []
    for i, name in enumerate(LTZ_UNIVERSE):
        if i % 2 == 0:
            with open(tzfile_path(name), "rb") as f:
                mocks.append(Timezone.from_file(f))
        else:
            mocks.append(Timezone(name))
    mocks += [FixedTimezone(o) for o in LTZ_FIXED]
    prints = {zoneinfo_offset(name, probe): 101 + i for i, name in enumerate(LTZ_UNIVERSE)}

    def ident(z):
        for i, m in enumerate(mocks):
            if z is m:
                return i + 1
        return prints.get(z.utcoffset(probe), 999)

    def probe_add():
        z = pendulum.local_timezone()
        x = pendulum.datetime(2021, 3, 1, 12, 30, tz="local")
        code = 1                        # 1 = all exact; 10 + 2k (+1) = the k-th amount of LTZ_HOURS failed through add() (through + timedelta)
        for k, hours in enumerate(LTZ_HOURS):
            for j, r in enumerate((x.add(hours=hours), x + _dt.timedelta(hours=hours))):
                if code == 1 and not (r.tzinfo is x.tzinfo and _instant(r) - _instant(x) == hours * 3600 * T.MEG):
                    code = 10 + 2 * k + j
        return [ident(z), code]

    saved = (lt._mock_local_timezone, lt._local_timezone, os.environ.get("TZ"))
    out = [0]
    try:
        lt._mock_local_timezone = None
        lt._local_timezone = None
        for code, arg in zip(ops[::2], ops[1::2]):
            if code == 0:
                pendulum.set_local_timezone(mocks[arg - 1])
            elif code == 1:
                pendulum.set_local_timezone()
            elif code == 2:
                os.environ["TZ"] = tzfile_path(LTZ_UNIVERSE[arg - 101])
                out += probe_add()
            else:
                with pendulum.tz.test_local_timezone(mocks[arg - 1]):
                    out += probe_add()
        return out
    finally:
        lt._mock_local_timezone, lt._local_timezone = saved[0], saved[1]
        if saved[2] is None:
            os.environ.pop("TZ", None)
        else:
            os.environ["TZ"] = saved[2]


def zoneinfo_offset(name, naive):
    import zoneinfo
    return zoneinfo.ZoneInfo(name).utcoffset(naive)


def _instant(d):
    """UTC instant in integer microseconds from the fields and the offset only."""
    return T.wall_of(d) - T.off_s(d) * T.MEG


def _ctor_body(x, U, spec, am, route):
    """The operation and its inverse on a start value x; canonical result
    [0, W, fold, off,  0, W_back, fold_back, off_back,  same-zone flag]  ([7, k] when the start / the zone of a result is not what it must be)."""
    W, fold, off = T.ref_render(T.ref_zone(spec), U)
    if T.dt_result(x) != [0, W, fold, off]:
        return [7, 4]                       # the start value is not the requested instant: nothing to say about add()
    kw = dict(hours=am[0], minutes=am[1], seconds=am[2], microseconds=am[3])
    neg = {k: -v for k, v in kw.items()}
    if route == "add":
        r = x.add(**kw)
        back = r.subtract(**kw)
    elif route == "subtract":
        r = x.subtract(**neg)
        back = r.add(**neg)
    elif route == "plus_td":
        td = _dt.timedelta(microseconds=_total(am))
        r = x + td
        back = r - td
    elif route == "radd_td":
        td = _dt.timedelta(microseconds=_total(am))
        r = td + x
        back = r - td
    else:
        td = _dt.timedelta(microseconds=-_total(am))
        r = x - td
        back = r + td
    same_zone = int(r.tzinfo is x.tzinfo and back.tzinfo is x.tzinfo and r.timezone_name == x.timezone_name and back.timezone_name == x.timezone_name)
    return T.dt_result(r, x.timezone_name) + T.dt_result(back, x.timezone_name) + [same_zone]


# ----------------------------------------------------------------------------- implementation
def impl_run(cases):
    try:
        return _impl_run(cases)
    finally:
        _cleanup_roots()


def _impl_run(cases):
    import pendulum
    from pendulum.helpers import add_duration
    out = []
    for c in cases:
        fn, a = c["fn"], c["args"]
        try:
            if fn == "add_fixed":
                spec, U, am, route = a
                W, fold, off = T.ref_render(T.ref_zone(spec), U)
                y, mo, d, h, mi, s, us = T.fields_of(W)
                tz = T.pzone(spec)
                x = pendulum.DateTime(y, mo, d, h, mi, s, us, tzinfo=tz, fold=fold)
                kw = dict(hours=am[0], minutes=am[1], seconds=am[2], microseconds=am[3])
                if route == "add":
                    r = x.add(**kw)
                    back = r.subtract(**kw)
                elif route == "subtract":
                    r = x.subtract(**{k: -v for k, v in kw.items()})
                    back = r.add(**{k: -v for k, v in kw.items()})
                elif route == "plus_td":
                    td = _dt.timedelta(microseconds=_total(am))
                    r = x + td
                    back = r - td
                else:
                    td = _dt.timedelta(microseconds=-_total(am))
                    r = x - td
                    back = r + td
                out.append(T.dt_result(r, tz.name) + T.dt_result(back, tz.name))
            elif fn == "add_ctor":
                spec, ctor, U, am, route = a
                out.append(start_by_ctor(spec, ctor, U, lambda x: _ctor_body(x, U, spec, am, route)))
            elif fn == "localtz_run":
                out.append(_localtz_run(a[0]))
            elif fn == "td_route":
                spec, U, N, route = a
                W, fold, off = T.ref_render(T.ref_zone(spec), U)
                y, mo, d, h, mi, s, us = T.fields_of(W)
                tz = T.pzone(spec)
                x = pendulum.DateTime(y, mo, d, h, mi, s, us, tzinfo=tz, fold=fold)
                td = _dt.timedelta(microseconds=N)
                r = x + td if route == "plus_td" else (td + x if route == "radd_td" else x - td)
                out.append(T.dt_result(r, tz.name))
            elif fn == "td_naive":
                W, N, route = a
                y, mo, d, h, mi, s, us = T.fields_of(W)
                x = pendulum.naive(y, mo, d, h, mi, s, us)
                td = _dt.timedelta(microseconds=N)
                r = x + td if route == "plus_td" else (td + x if route == "radd_td" else x - td)
                out.append([0, T.wall_of(r), r.fold, int(r.tzinfo is None), int(isinstance(r, pendulum.DateTime))])
            elif fn == "add_duration_float":
                W, hx = a
                y, mo, d, h, mi, s, us = T.fields_of(W)
                r = add_duration(_dt.datetime(y, mo, d, h, mi, s, us), seconds=float.fromhex(hx))
                out.append([0, T.wall_of(r)])
            elif fn == "add_seconds_float":
                spec, U, hx = a
                W, fold, off = T.ref_render(T.ref_zone(spec), U)
                y, mo, d, h, mi, s, us = T.fields_of(W)
                tz = T.pzone(spec)
                x = pendulum.DateTime(y, mo, d, h, mi, s, us, tzinfo=tz, fold=fold)
                out.append(T.dt_result(x.add(seconds=float.fromhex(hx)), tz.name))
            elif fn == "add_naive":
                W, am, route = a
                y, mo, d, h, mi, s, us = T.fields_of(W)
                x = pendulum.naive(y, mo, d, h, mi, s, us)
                kw = dict(hours=am[0], minutes=am[1], seconds=am[2], microseconds=am[3])
                r = x.add(**kw) if route == "add" else x.subtract(**{k: -v for k, v in kw.items()})
                out.append([0, T.wall_of(r), r.fold, int(r.tzinfo is None), int(isinstance(r, pendulum.DateTime))])
            elif fn == "add_duration":
                W, isdt, v = a
                y, mo, d, h, mi, s, us = T.fields_of(W)
                x = _dt.datetime(y, mo, d, h, mi, s, us) if isdt else _dt.date(y, mo, d)
                r = add_duration(x, years=v[0], months=v[1], weeks=v[2], days=v[3], hours=v[4], minutes=v[5], seconds=v[6], microseconds=v[7])
                out.append([0, T.wall_of(r)])
            else:
                out.append([9])
        except Exception as ex:  # noqa
            out.append(T.exn_result(ex))
    return out


# ----------------------------------------------------------------------------- model
def _window(spec, U0, U1):
    """Zone table window covering both the start and the (exact) end instant; None when it would be too large for the wire."""
    u0 = min(max(U0, 0), T.MAX_WALL) // T.MEG - T.EPOCH_S
    u1 = min(max(U1, 0), T.MAX_WALL) // T.MEG - T.EPOCH_S
    lo, hi = min(u0, u1), max(u0, u1)
    enc = T.zone_enc(spec, lo - 180000, hi + 180000)
    if hi - lo > 400 * 86400 * 30 and not isinstance(spec, int) and len(enc) >= 4000:
        return None
    return enc


def _ctor_view(c):
    """An add_ctor case seen by the model and the oracle: the zone is its table whatever the constructor path."""
    spec, ctor, U, am, route = c["args"]
    return spec, U, am, route


def model_calls(c, backend):
    fn, a = c["fn"], c["args"]
    if fn in ("add_fixed", "add_ctor"):
        spec, U, am, route = a if fn == "add_fixed" else _ctor_view(c)
        W, fold, off = T.ref_render(T.ref_zone(spec), U)
        enc = _window(spec, U, U + _total(am))
        if enc is None:
            return None
        if route in ("plus_td", "radd_td"):      # x + timedelta(microseconds=total): the float route (Model/FloatRoutes.v)
            return [("add_timedelta", enc + [W, fold, _total(am)])]
        if route == "minus_td":     # x - timedelta(microseconds=-total)
            return [("sub_timedelta", enc + [W, fold, -_total(am)])]
        return [("add_fixed", enc + [W, fold] + am)]
    if fn == "td_route":
        spec, U, N, route = a
        W, fold, off = T.ref_render(T.ref_zone(spec), U)
        enc = _window(spec, U, U + (-N if route == "minus_td" else N))
        if enc is None:
            return None
        return [("sub_timedelta" if route == "minus_td" else "add_timedelta", enc + [W, fold, N])]
    if fn == "localtz_run":
        return [("localtz_run", [0, 0] + a[0])]
    if fn == "td_naive":
        W, N, route = a
        return [("sub_timedelta_naive" if route == "minus_td" else "add_timedelta_naive", [0, 0, W, 1, N])]
    if fn == "add_duration_float":
        W, hx = a
        return [("add_duration_float", [0, 0, W] + fcode(float.fromhex(hx)))]
    if fn == "add_seconds_float":
        spec, U, hx = a
        W, fold, off = T.ref_render(T.ref_zone(spec), U)
        x = float.fromhex(hx)
        enc = _window(spec, U, U + int(x * T.MEG) if math.isfinite(x) else U)
        if enc is None:
            return None
        return [("add_seconds_float", enc + [W, fold] + fcode(x))]
    if fn == "add_naive":
        W, am, route = a
        return [("add_naive", [0, 0, W, 1, 0, 0, 0, 0] + am)]
    if fn == "add_duration":
        W, isdt, v = a
        return [("add_duration", [0, 0, W, isdt] + v)]


def model_result(c, backend, outs):
    return outs[0]


def same(c, m, r):
    fn = c["fn"]
    if fn in ("add_fixed", "add_ctor"):
        if r[0] == 1 or m[0] == 1:
            return m[:2] == r[:2]
        return m == r[:4]
    if fn in ("td_route", "add_seconds_float"):
        if r[0] == 1 or m[0] == 1:
            return m[:2] == r[:2]
        return m == r[:4]
    if fn in ("add_naive", "td_naive"):
        if r[0] == 1 or m[0] == 1:
            return m[:2] == r[:2]
        return m[:3] == r[:3]
    if fn == "add_duration_float" and (r[0] == 1 or m[0] == 1):
        return m[:2] == r[:2]
    if fn == "localtz_run":
        return r[0] == 0 and m == [0] + r[1::2]
    return m == r


# ----------------------------------------------------------------------------- the property
def oracle(c, backend, r):
    fn, a = c["fn"], c["args"]
    if fn in ("add_fixed", "add_ctor"):
        spec, U, am, route = a if fn == "add_fixed" else _ctor_view(c)
        if fn == "add_ctor":
            route = f"{route} [zone {spec!r} obtained by {a[1]}]"
            if r[:2] == [7, 4]:
                return f"{route}: the start value built for instant {U} is not that instant (construction, not add)"
        tot = _total(am)
        U2 = U + tot
        if not (0 <= U2 <= T.MAX_WALL):
            return None if r[0] == 1 and r[1] in (T.EXN["OverflowError"], T.EXN["ValueError"]) else f"{route}: result outside years 1..9999 must raise, got {r[:4]}"
        W2, f2, o2 = T.ref_render(T.ref_zone(spec), U2)
        if not (0 <= W2 <= T.MAX_WALL):
            return None if r[0] == 1 else f"{route}: local result outside years 1..9999 must raise, got {r[:4]}"
        if r[0] != 0:
            return f"{route}({spec}, instant {U}, {am}) raised {r[:2]}, expected instant {U2}"
        exp = [0, W2, f2, o2]
        if r[:4] != exp:
            return (f"{route}({spec}, instant {U}, amounts h,m,s,us={am}): got wall {T.fields_of(r[1])} fold {r[2]} offset {r[3]} i.e. instant {r[1] - r[3] * T.MEG}; "
                    f"exact elapsed time gives instant {U2} = wall {T.fields_of(W2)} fold {f2} offset {o2}")
        W0, f0, o0 = T.ref_render(T.ref_zone(spec), U)
        if r[4:8] != [0, W0, f0, o0]:
            return f"{route} then its inverse from instant {U} in {spec} with {am}: came back to {r[4:8]}, expected {[0, W0, f0, o0]}"
        if fn == "add_ctor" and r[8:9] != [1]:
            return f"{route} from instant {U} with {am}: the result is not in the SAME timezone (tzinfo object / timezone_name) as the start"
        return None
    if fn == "localtz_run":
        # whatever zone the local-timezone configuration hands out, fixed units are exact in it
        ops = a[0]
        if r[0] != 0:
            return f"local-timezone history {ops} raised {r[:2]}"
        # (WHICH zone the configuration hands out is the model's business -- Model/LocalTzConfig.v, a difference there is a broken tie; the property only
        #  demands exact fixed-unit arithmetic in whatever zone it is)
        if any(v != 1 for v in r[2::2]):
            k = [v != 1 for v in r[2::2]].index(True)
            zid, code = r[1 + 2 * k], r[2 + 2 * k]
            zone = (f"{(LTZ_UNIVERSE + LTZ_FIXED)[zid - 1]!r}" + (" loaded with Timezone.from_file (no key)" if zid <= len(LTZ_UNIVERSE) and zid % 2 else "")) if 1 <= zid <= 100 else \
                   (f"the system zone TZ=<TZif file of {LTZ_UNIVERSE[zid - 101]}> (no key)" if 101 <= zid < 101 + len(LTZ_UNIVERSE) else f"unidentified zone {zid}")
            hours = LTZ_HOURS[(code - 10) // 2] if 10 <= code < 10 + 2 * len(LTZ_HOURS) else "?"
            op = f"x + timedelta(hours={hours})" if code % 2 else f"x.add(hours={hours})"
            return (f"local-timezone history {ops} (0 m: set_local_timezone(zone m), 1: clear, 2 s: get with system zone s, 3 m: test_local_timezone(zone m)): get #{k} handed out {zone}; "
                    f"x = pendulum.datetime(2021, 3, 1, 12, 30, tz='local'); {op} did not move the instant by exactly {hours} h in the same zone")
        return None
    if fn == "td_route":
        spec, U, N, route = a
        U2 = U + (-N if route == "minus_td" else N)
        what = {"plus_td": "dt + td", "minus_td": "dt - td", "radd_td": "td + dt"}[route] + f" with td = timedelta(microseconds={N})"
        if not (0 <= U2 <= T.MAX_WALL):
            return None if r[0] == 1 and r[1] in (T.EXN["OverflowError"], T.EXN["ValueError"]) else f"{what}: result outside years 1..9999 must raise, got {r[:4]}"
        W2, f2, o2 = T.ref_render(T.ref_zone(spec), U2)
        if not (0 <= W2 <= T.MAX_WALL):
            return None if r[0] == 1 else f"{what}: local result outside years 1..9999 must raise, got {r[:4]}"
        if r[0] != 0:
            return f"{what} in {spec} from instant {U} raised {r[:2]}, expected instant {U2}"
        if r[:4] != [0, W2, f2, o2]:
            return (f"{what} in {spec} from instant {U}: got wall {T.fields_of(r[1])} fold {r[2]} offset {r[3]} i.e. instant {r[1] - r[3] * T.MEG} "
                    f"(off by {r[1] - r[3] * T.MEG - U2} us); exact elapsed time gives instant {U2} = wall {T.fields_of(W2)} fold {f2} offset {o2}")
        return None
    if fn == "td_naive":
        W, N, route = a
        W2 = W + (-N if route == "minus_td" else N)
        if not (0 <= W2 <= T.MAX_WALL):
            return None if r[0] == 1 else f"naive {route}: out of range must raise, got {r}"
        if r[0] != 0 or r[1] != W2 or r[3] != 1 or r[4] != 1:
            return f"naive {route}(wall {T.fields_of(W)}, timedelta(microseconds={N})): got {r}, expected wall {T.fields_of(W2)} still naive"
        return None
    if fn == "add_naive":
        W, am, route = a
        W2 = W + _total(am)
        if not (0 <= W2 <= T.MAX_WALL):
            return None if r[0] == 1 else f"naive {route}: out of range must raise, got {r}"
        if r[0] != 0 or r[1] != W2 or r[3] != 1 or r[4] != 1:
            return f"naive {route}(wall {T.fields_of(W)}, {am}): got {r}, expected wall {T.fields_of(W2)} still naive"
        return None
    if fn == "add_duration":
        W, isdt, v = a
        import calendar
        y, mo, d, h, mi, s, us = T.fields_of(W)
        if not isdt and any(v[4:]):
            return None if r == [1, T.EXN["RuntimeError"]] else f"add_duration(date, time units) must raise RuntimeError, got {r}"
        t = y * 12 + (mo - 1) + 12 * v[0] + v[1]
        y2, m2 = t // 12, t % 12 + 1
        if not (1 <= y2 <= 9999):
            return None if r[0] == 1 else f"add_duration: year {y2} out of range must raise, got {r}"
        d2 = min(d, calendar.monthrange(y2, m2)[1])
        W2 = (_dt.date(y2, m2, d2).toordinal() - 1) * T.US_DAY + W % T.US_DAY
        shift = ((((v[3] + 7 * v[2]) * 24 + v[4]) * 60 + v[5]) * 60 + v[6]) * T.MEG + v[7]
        W3 = W2 + shift if isdt else W2 + (shift // T.US_DAY) * T.US_DAY
        if not (0 <= W3 <= T.MAX_WALL):
            return None if r[0] == 1 else f"add_duration: out of range must raise, got {r}"
        return None if r == [0, W3] else f"add_duration(wall {T.fields_of(W)}, isdt={isdt}, {v}) = {r}, expected wall {T.fields_of(W3)}"
    return None


def known(c, backend, r):
    fn, a = c["fn"], c["args"]
    if fn == "td_route" and r[0] == 0:
        # plain-timedelta operand, |td| >= 2^33 s: total_seconds() cannot carry the microseconds (spacing of doubles >= 2^-19 s);
        # the result is the exact rendering of  instant +- timedelta(seconds=td.total_seconds())  and deviates by at most 64 us
        spec, U, N, route = a
        if abs(N) >= B33:
            Nf = td_float_roundtrip(N)
            if Nf != N and abs(Nf - N) <= 64:
                U2 = U + (-Nf if route == "minus_td" else Nf)
                if 0 <= U2 <= T.MAX_WALL and r[:4] == [0] + list(T.ref_render(T.ref_zone(spec), U2)):
                    return FINDING_TD
    return None


LEVEL_TEXT = ("Machine-checked Coq theorems, integer AND float routes. Float route (dt + td / dt - td / td + dt with a plain timedelta of N microseconds, |N| < 2^33 s): the whole float computation "
              "(total_seconds, three float divmod carries of add_duration, CPython's timedelta(float) constructor) returns exactly N (float_carry_chain_exact, proved with Flocq), hence for every well-formed "
              "zone the result is the database rendering of instant +- N, with the same result and exceptions as add(microseconds=N), dt - td undoes dt + td, naive values shift on their own clock; beyond "
              "2^33 s the route is off by microseconds (add_timedelta_beyond_2_33_refuted, known finding reproduced on the implementation). Integer route: helpers.add_duration (translated from /repo on every run) equals guard + sign-aware carry normalisation + month step + native addition, "
              "the normalisation preserves the total for ALL integers, for fixed units it is an exact wall shift (OverflowError outside years 1..9999); and for every well-formed zone, "
              "DateTime.add with hours/minutes/seconds/microseconds returns the database rendering of (instant + exactly the requested microseconds) in the same zone, subtract() with "
              "the same arguments returns to the original instant/offset/fields, a naive value is shifted on its own clock. Correspondence at every kind of transition, both backends.")
DESIGN_REF = "DESIGN.md section 4 C03"
LEVEL_NOTE = ("Trusted: Coq kernel+VM; translator; Spec/Zone.v, Spec/NativeDT.v as models of zoneinfo / naive datetime arithmetic (validated by correspondence); Model/TzConvert.v add_fixed and Model/FloatRoutes.v hand models; "
              "Spec/TdFloat.v (SpecFloat binary64 = CPython floats, validated bit for bit by the td-add-duration-float stream); the float theorems additionally depend on the standard-library axioms of the "
              "classical reals (ClassicalDedekindReals.sig_forall_dec, sig_not_dec, functional_extensionality_dep, Classical_Prop.classic) through Flocq. The statement's quantifier stops at 10^9 s; the "
              "theorems hold up to 2^33 s (8.59e9 s), which is sharp.")
TECHNIQUE = "Coq proof (lia/nia over translated add_duration, induction over tz tables, Flocq real-number semantics of SpecFloat for the float route) + differential correspondence"


# ---- model side tied to /repo by translation + proof (appended) ----
_GLUE_NEW = ("the hand-written model coq/Model/TzConvert.v is PROVED equal (model_is_code_* theorems) to the machine translation of pendulum's own code, coq/Gen/TzGlue.v, translated from /repo's src/pendulum/tz/timezone.py and src/pendulum/datetime.py on every run (tools/vlib/gens/g15_tz_glue.py; VERIF_REPO honoured): Timezone.convert (naive and aware branch), Timezone.datetime, FixedTimezone.convert / utcoffset / fromutc / datetime, DateTime.create, in_timezone, in_tz, astimezone, add (fixed-unit, naive and calendar branches), int_timestamp. A semantic change of one of these functions changes the generated definition and breaks a proof (not only a source pin). By hand in that translation: the object model and native primitives of coq/Model/TzGlueObj.v (a datetime object = wall value + fold + tzinfo, its CLASS is not modelled; ZoneInfo.utcoffset / fromutc, datetime + timedelta, the datetime constructor, replace(fold=/tzinfo=), utcfromtimestamp - each tied to CPython's source by a spec_is_stdlib_* theorem of C02 / C11), the dispatch of tz.utcoffset / fromutc / convert on the class of tz, native astimezone = tz.fromutc((self - utcoffset).replace(tzinfo=tz)); recognised rewrites: cast(T, e) -> e, pendulum._safe_timezone(x) -> x for an x that already is a Timezone/FixedTimezone (strings, numbers, foreign tzinfo objects, 'local' are out of scope of the translation), cls(...)/datetime.datetime(...) -> the native constructor, any([..]) -> bool(.. or ..). Assumption: `dt + timedelta` inside Timezone.convert is the native addition (dt a native datetime, as in DateTime.create; a naive pendulum DateTime in a gap would run DateTime.__add__ instead). STILL hand-written + pinned only: pendulum.from_timestamp (from_timestamp_int), DateTime.instance, set / on / at / replace, _safe_timezone itself, DateTime.__add__/__sub__/_add_timedelta_, the naive / local-time paths; the add theorems for the naive and calendar branches carry the hypothesis that add_duration's result lies in years 1..9999 (proved for the fixed-unit branch)")
TRUSTED = [t for t in TRUSTED] + [_GLUE_NEW]
LEVEL_NOTE = (LEVEL_NOTE + " Model/TzConvert.v is no longer tied to /repo by pins and correspondence only: Gen/TzGlue.v is the translation of "
              "pendulum's timezone glue from /repo on every run and the model_is_code_* theorems prove the hand model equal to it "
              "(native operations as primitives tied to CPython by the spec_is_stdlib_* theorems; from_timestamp, instance, set/on/at/replace "
              "remain hand-written + pinned).")


# ---- model = code theorems for the arithmetic entry points (appended) ----
TRUSTED = [t for t in TRUSTED] + ["model_is_code_datetime_add / _datetime_subtract: DateTime.add and subtract as a whole (naive, calendar-unit and fixed-unit branches) = dt_add / dt_subtract of Model/CalendarArith.v; model_is_code_datetime_dunder_add / _radd: DateTime.__add__ translated with its stack inspection (traceback.extract_stack(limit=2)[0].name == 'astimezone'; recognised shape, any other use of traceback fails closed) as the explicit boolean called_from_astimezone (True only from a frame named astimezone -> native addition; the + operator and __radd__ pass False -> _add_timedelta_). NOT translated: the plain-timedelta route add(seconds=delta.total_seconds()) (float seconds into add_duration: Model/CalendarArith.v dt_add_fsec / Model/FloatRoutes.v stay hand-written + pinned), so `dt + timedelta` inside Timezone.convert is still read as the native addition (dt a native datetime); the class of a datetime object is still not part of the object model"]
LEVEL_NOTE = LEVEL_NOTE + " " + "model_is_code_datetime_add / _datetime_subtract: DateTime.add and subtract as a whole (naive, calendar-unit and fixed-unit branches) = dt_add / dt_subtract of Model/CalendarArith.v; model_is_code_datetime_dunder_add / _radd: DateTime.__add__ translated with its stack inspection (traceback.extract_stack(limit=2)[0].name == 'astimezone'; recognised shape, any other use of traceback fails closed) as the explicit boolean called_from_astimezone (True only from a frame named astimezone -> native addition; the + operator and __radd__ pass False -> _add_timedelta_). NOT translated: the plain-timedelta route add(seconds=delta.total_seconds()) (float seconds into add_duration: Model/CalendarArith.v dt_add_fsec / Model/FloatRoutes.v stay hand-written + pinned), so `dt + timedelta` inside Timezone.convert is still read as the native addition (dt a native datetime); the class of a datetime object is still not part of the object model" + "."


# the float path of helpers.add_duration is translated from /repo on every run and the hand model is PROVED equal to it
TRUSTED = list(TRUSTED) + [
    "tools/vlib/pyfloat2gallina.py + tools/vlib/gens/g54_float_routes.py (Python ast -> Gallina for helpers.add_duration under a float `seconds`, path-duplicating mode: every path "
    "statically typed, CPython's int/float conversion points, tests on integer constants decided at translation time; reading rules in the generator's docstring: dt is a datetime = "
    "the record ndt, dt.replace / dt + timedelta = ndt_replace_ymd / ndt_add_td, timedelta(days=, hours=, minutes=, seconds=, microseconds=0) = the spec td_of_mixed of CPython's "
    "delta_new on int-or-float arguments, copysign(1, x) = the sign bit; fails closed otherwise): they replace the former trust in the hand transcription of the carry chain and its "
    "`pynum` dispatch layer in Model/FloatRoutes.v, now PROVED equal to the translation (model_is_code_add_duration_float, all datetimes and doubles, closed under the global context)",
]
LEVEL_NOTE = LEVEL_NOTE + (" Model = code (float path): coq/Gen/FloatRoutesGen.v is translated from helpers.add_duration under a float `seconds` on every run and Proofs/FloatRoutesGenFacts.v "
                           "proves it equal to Model/FloatRoutes.add_duration_float for every datetime and double (model_is_code_add_duration_float), so a semantic edit of the carry chain "
                           "breaks a proof (self-tested by mutation). Not translated yet: DateTime._add_timedelta_ / _subtract_timedelta's plain branch and DateTime.add(seconds=<float>) itself "
                           "(add_seconds_float stays the hand model around add_duration_float), td_of_mixed (the hand spec of CPython's delta_new on mixed arguments).")


TRUSTED = list(TRUSTED) + [
    "tools/vlib/gens/g55_float_glue.py + coq/Model/FloatGlue.v: the float entry points of DateTime (from_timestamp(<float>), float_timestamp, subtract(seconds=<float>), the plain-timedelta "
    "branch of _add_timedelta_ / _subtract_timedelta) translated from /repo on every run and proved equal to Model/FloatRoutes.v (model_is_code_from_timestamp_float, model_is_code_timestamp, "
    "model_is_code_add_plain_timedelta / _sub_plain_timedelta); named primitives (trusted, tied by correspondence): datetime.utcfromtimestamp(<float>) = utcfromtimestamp_float_us + year range, "
    "datetime.timestamp() = timestamp_float, DateTime.add(seconds=<float>) = add_seconds_float (its core helpers.add_duration is proved equal to its translation)",
]
LEVEL_NOTE = LEVEL_NOTE + (" Float entry points: coq/Gen/FloatGlueGen.v is translated on every run (from_timestamp under a float timestamp, float_timestamp, subtract(seconds=<float>), the plain branch of "
                           "_add_timedelta_ / _subtract_timedelta) and Proofs/FloatGlueFacts.v proves it equal to Model/FloatRoutes.v; DateTime.add under a float `seconds` stays a named primitive.")


# ---- zones by constructor path and the local-timezone configuration (appended) ----
TRUSTED = list(TRUSTED) + [
    "Model/LocalTzConfig.v: hand transcription of tz/local_timezone.py get_local_timezone / set_local_timezone / test_local_timezone (state = mock + cached system zone; the system lookup "
    "_get_system_timezone itself is an input `sys`), tied to /repo by the localtz-config stream only (not translated, not pinned); theorems local_zone_is_the_last_configured_one, "
    "local_zone_after_clear_is_the_system_zone_read_once, test_local_timezone_context, add_in_the_local_zone_moves_instant_exactly",
    "zone-ctor stream: the constructor path of the zone (by name, Timezone.from_file without key, the local-timezone loader, fixed offsets by int / float hours / FixedTimezone / datetime.timezone) is "
    "NOT a parameter of the model -- a zone is its transition table and add_moves_instant_exactly / model_is_code_datetime_add quantify over every tz object --; that the implementation does not "
    "depend on it either (no use of key / name / class beyond the Timezone / FixedTimezone dispatch) is what the stream's correspondence and oracle check",
]
LEVEL_NOTE = LEVEL_NOTE + (" Zones obtained by every constructor path (zone-ctor) run against the SAME model entries (in the model); the local-timezone configuration is a small Gallina state machine "
                           "(Model/LocalTzConfig.v, in the model, correspondence only); the system lookup (TZ, /etc/localtime) is an input of that model, exercised through the real loader by the "
                           "local_env / local_env_get / local_etc constructor paths (oracle + add model).")
