"""C03 — adding fixed-length units moves the instant by exactly that elapsed time."""
from __future__ import annotations

import datetime as _dt
import random

from vlib import tzcases as T
from vlib import zones

ID = "C03"
PROPS = "Props/C03.v"
RULE = ("enumerated: for ~60 zones (thorough: all) the offset-changing transitions, start instants on both sides of / inside each gap or overlap and both folds of repeated times, "
        "amounts (hours, minutes, seconds, microseconds) with mixed signs, carries across several units, landing before/at/after the transition, |total| up to 10^9 s and beyond "
        "(results outside years 1..9999 must raise), through add(), subtract(), + timedelta, - timedelta; naive DateTimes; subtract() undoing add(). "
        "add_duration itself (translated) is run on naive values and dates. non-trivial = distinct (zone, instant, amount, route).")
EXHAUSTIVE = {"quick": False, "thorough": False}
TRUSTED = ["zoneinfo / tzdata as in C01, C02", "Model/TzConvert.v add_fixed / add_naive hand model of DateTime.add (tied by correspondence); helpers.add_duration is translated (Gen/AddDuration.v)",
           "the + / - timedelta route goes through float total_seconds(): covered by the oracle (exact below 2^33 s), not by a theorem"]
ASSUMPTIONS = ["native datetime arithmetic of CPython (naive + timedelta) is Spec/NativeDT.v ndt_add_td; validated by the add_duration stream"]
ROUTES = ["add", "subtract", "plus_td", "minus_td"]


def _amounts(rnd, total_hint=None):
    kind = rnd.randrange(8)
    if kind == 0:
        return [rnd.randrange(-30, 31), 0, 0, 0]
    if kind == 1:
        return [0, rnd.randrange(-2000, 2001), 0, 0]
    if kind == 2:
        return [0, 0, rnd.randrange(-100000, 100001), 0]
    if kind == 3:
        return [0, 0, 0, rnd.randrange(-5 * 10 ** 9, 5 * 10 ** 9)]
    if kind == 4:   # mixed signs with carries
        return [rnd.randrange(-50, 51), rnd.randrange(-200, 201), rnd.randrange(-5000, 5001), rnd.randrange(-3 * 10 ** 6, 3 * 10 ** 6)]
    if kind == 5:   # boundaries of the carry tests
        return [rnd.choice([23, 24, 25, -23, -24, -25]), rnd.choice([59, 60, 61, -59, -60, -61]), rnd.choice([59, 60, 61, -59, -60, -61]),
                rnd.choice([999999, 1000000, 1000001, -999999, -1000000, -1000001])]
    if kind == 6:   # large
        return [rnd.randrange(-300000, 300001), rnd.randrange(-10 ** 6, 10 ** 6), rnd.randrange(-10 ** 9, 10 ** 9), rnd.randrange(-10 ** 12, 10 ** 12)]
    return [0, 0, rnd.choice([1, -1, 3599, 3600, 3601, -3600, 1800, 86399, 86400]), rnd.choice([0, 1, -1])]


def cases(tier, seed):
    rnd = random.Random(seed)
    out = []
    zs = list(zones.names()) if tier == "thorough" else zones.pick_zones(rnd, 60)
    k = 0
    for name in zs:
        trs = T.transition_probes(name, rnd, per_zone=None if tier == "thorough" else 10)
        for (tt, o_pre, o_post) in trs:
            sh = abs(o_post - o_pre)
            base = (tt + T.EPOCH_S) * T.MEG
            starts = [base - 3600 * T.MEG, base - 1, base, base + (sh // 2) * T.MEG, base + sh * T.MEG - 1, base + sh * T.MEG + 5, base - sh * T.MEG - 7]
            for U in starts:
                if not (T.US_DAY * 400 < U < T.MAX_WALL - T.US_DAY * 400):
                    continue
                for _ in range(2):
                    am = _amounts(rnd)
                    if rnd.random() < 0.5:   # land exactly around the transition
                        delta = base - U + rnd.choice([-1, 0, 1, sh * T.MEG, -sh * T.MEG])
                        am = [0, 0, delta // T.MEG, delta % T.MEG]
                    out.append({"stream": "transition", "fn": "add_fixed", "args": [name, U, am, ROUTES[k % 4]]})
                    k += 1
    # add_duration re-clamps the day with helpers.is_leap(year) (either backend) even for fixed units:
    # a start whose UTC date is Feb 29 exercises is_leap for EVERY leap year 1..9999
    import calendar
    for y in range(4, 10000, 4):
        if calendar.isleap(y):
            U = ((_dt.date(y, 2, 29).toordinal() - 1) * 86400 + 12 * 3600 + (y % 3600)) * T.MEG
            spec = ["UTC", "Europe/Paris", "Asia/Tokyo", -18000][y // 4 % 4]
            out.append({"stream": "feb29-every-leap-year", "fn": "add_fixed", "args": [spec, U, [1, 0, 0, 0] if y % 8 else [0, 0, 0, -1], ROUTES[(y // 4) % 2]]})
    fixed = [0, 3600, -12600, 20700, 86340, -86340]
    for _ in range(3000 if tier == "quick" else 40000):
        spec = zs[rnd.randrange(len(zs))] if rnd.random() < 0.8 else fixed[rnd.randrange(len(fixed))]
        U = rnd.randrange(T.US_DAY * 400, T.MAX_WALL - T.US_DAY * 400)
        out.append({"stream": "random", "fn": "add_fixed", "args": [spec, U, _amounts(rnd), ROUTES[rnd.randrange(4)]]})
    for _ in range(1500 if tier == "quick" else 20000):
        W = rnd.randrange(T.US_DAY * 400, T.MAX_WALL - T.US_DAY * 400)
        out.append({"stream": "naive", "fn": "add_naive", "args": [W, _amounts(rnd), ROUTES[rnd.randrange(2)]]})
    # results outside the representable range
    for spec in ("UTC", "Europe/Paris", 3600):
        for U, sgn in ((T.US_DAY * 2, -1), (T.MAX_WALL - T.US_DAY * 2, 1)):
            out.append({"stream": "range-edge", "fn": "add_fixed", "args": [spec, U, [sgn * 100, 0, 0, 0], "add"]})
            out.append({"stream": "range-edge", "fn": "add_fixed", "args": [spec, U, [0, 0, sgn * 10 ** 15, 0], "add"]})
    # the translated add_duration on naive datetimes and dates (all eight arguments)
    for _ in range(3000 if tier == "quick" else 40000):
        W = rnd.randrange(T.US_DAY * 400, T.MAX_WALL - T.US_DAY * 400)
        isdt = rnd.randrange(2)
        if not isdt:
            W -= W % T.US_DAY
        ym = [rnd.randrange(-30, 31), rnd.randrange(-40, 41), rnd.randrange(-60, 61), rnd.randrange(-500, 501)]
        am = _amounts(rnd) if isdt or rnd.random() < 0.2 else [0, 0, 0, 0]
        out.append({"stream": "add_duration", "fn": "add_duration", "args": [W, isdt, ym + am]})
    return out


def search_cases(seed):
    return cases("thorough", seed)[::3]


def nontrivial(c):
    return True


def _total(am):
    h, m, s, us = am
    return ((h * 60 + m) * 60 + s) * T.MEG + us


# ----------------------------------------------------------------------------- implementation
def impl_run(cases):
    import pendulum
    from pendulum.helpers import add_duration
    out = []
    for c in cases:
        fn, a = c["fn"], c["args"]
        try:
            if fn == "add_fixed":
                spec, U, am, route = a
                W, fold, off = T.ref_render(T.ref_zone(spec), U)
                y, mo, d, h, mi, s, us = T.fields_of(W)
                tz = T.pzone(spec)
                x = pendulum.DateTime(y, mo, d, h, mi, s, us, tzinfo=tz, fold=fold)
                kw = dict(hours=am[0], minutes=am[1], seconds=am[2], microseconds=am[3])
                if route == "add":
                    r = x.add(**kw)
                    back = r.subtract(**kw)
                elif route == "subtract":
                    r = x.subtract(**{k: -v for k, v in kw.items()})
                    back = r.add(**{k: -v for k, v in kw.items()})
                elif route == "plus_td":
                    td = _dt.timedelta(microseconds=_total(am))
                    r = x + td
                    back = r - td
                else:
                    td = _dt.timedelta(microseconds=-_total(am))
                    r = x - td
                    back = r + td
                out.append(T.dt_result(r, tz.name) + T.dt_result(back, tz.name))
            elif fn == "add_naive":
                W, am, route = a
                y, mo, d, h, mi, s, us = T.fields_of(W)
                x = pendulum.naive(y, mo, d, h, mi, s, us)
                kw = dict(hours=am[0], minutes=am[1], seconds=am[2], microseconds=am[3])
                r = x.add(**kw) if route == "add" else x.subtract(**{k: -v for k, v in kw.items()})
                out.append([0, T.wall_of(r), r.fold, int(r.tzinfo is None), int(isinstance(r, pendulum.DateTime))])
            elif fn == "add_duration":
                W, isdt, v = a
                y, mo, d, h, mi, s, us = T.fields_of(W)
                x = _dt.datetime(y, mo, d, h, mi, s, us) if isdt else _dt.date(y, mo, d)
                r = add_duration(x, years=v[0], months=v[1], weeks=v[2], days=v[3], hours=v[4], minutes=v[5], seconds=v[6], microseconds=v[7])
                out.append([0, T.wall_of(r)])
            else:
                out.append([9])
        except Exception as ex:  # noqa
            out.append(T.exn_result(ex))
    return out


# ----------------------------------------------------------------------------- model
def model_calls(c, backend):
    fn, a = c["fn"], c["args"]
    if fn == "add_fixed":
        spec, U, am, route = a
        if route not in ("add", "subtract"):
            return None   # the timedelta routes go through floats: oracle only
        W, fold, off = T.ref_render(T.ref_zone(spec), U)
        u0 = U // T.MEG - T.EPOCH_S
        u1 = (U + _total(am)) // T.MEG - T.EPOCH_S
        lo, hi = min(u0, u1), max(u0, u1)
        if hi - lo > 400 * 86400 * 30:
            # far apart: two lookups far from each other; give the model both neighbourhoods by a wide window only when cheap
            tab_ok = isinstance(spec, int) or len(T.zone_enc(spec, lo - 180000, hi + 180000)) < 4000
            if not tab_ok:
                return None
        return [("add_fixed", T.zone_enc(spec, lo - 180000, hi + 180000) + [W, fold] + am)]
    if fn == "add_naive":
        W, am, route = a
        return [("add_naive", [0, 0, W, 1, 0, 0, 0, 0] + am)]
    if fn == "add_duration":
        W, isdt, v = a
        return [("add_duration", [0, 0, W, isdt] + v)]


def model_result(c, backend, outs):
    return outs[0]


def same(c, m, r):
    fn = c["fn"]
    if fn == "add_fixed":
        if r[0] == 1 or m[0] == 1:
            return m[:2] == r[:2]
        return m == r[:4]
    if fn == "add_naive":
        if r[0] == 1 or m[0] == 1:
            return m[:2] == r[:2]
        return m[:3] == r[:3]
    return m == r


# ----------------------------------------------------------------------------- the property
def oracle(c, backend, r):
    fn, a = c["fn"], c["args"]
    if fn == "add_fixed":
        spec, U, am, route = a
        tot = _total(am)
        U2 = U + tot
        if not (0 <= U2 <= T.MAX_WALL):
            return None if r[0] == 1 and r[1] in (T.EXN["OverflowError"], T.EXN["ValueError"]) else f"{route}: result outside years 1..9999 must raise, got {r[:4]}"
        W2, f2, o2 = T.ref_render(T.ref_zone(spec), U2)
        if not (0 <= W2 <= T.MAX_WALL):
            return None if r[0] == 1 else f"{route}: local result outside years 1..9999 must raise, got {r[:4]}"
        if route in ("plus_td", "minus_td") and abs(tot) >= 2 ** 33 * T.MEG:
            # float total_seconds() is only exact below 2^33 s: the statement's bound is |total| up to 10^9 s
            return None
        if r[0] != 0:
            return f"{route}({spec}, instant {U}, {am}) raised {r[:2]}, expected instant {U2}"
        exp = [0, W2, f2, o2]
        if r[:4] != exp:
            return (f"{route}({spec}, instant {U}, amounts h,m,s,us={am}): got wall {T.fields_of(r[1])} fold {r[2]} offset {r[3]} i.e. instant {r[1] - r[3] * T.MEG}; "
                    f"exact elapsed time gives instant {U2} = wall {T.fields_of(W2)} fold {f2} offset {o2}")
        W0, f0, o0 = T.ref_render(T.ref_zone(spec), U)
        if r[4:8] != [0, W0, f0, o0]:
            return f"{route} then its inverse from instant {U} in {spec} with {am}: came back to {r[4:8]}, expected {[0, W0, f0, o0]}"
        return None
    if fn == "add_naive":
        W, am, route = a
        W2 = W + _total(am)
        if not (0 <= W2 <= T.MAX_WALL):
            return None if r[0] == 1 else f"naive {route}: out of range must raise, got {r}"
        if r[0] != 0 or r[1] != W2 or r[3] != 1 or r[4] != 1:
            return f"naive {route}(wall {T.fields_of(W)}, {am}): got {r}, expected wall {T.fields_of(W2)} still naive"
        return None
    if fn == "add_duration":
        W, isdt, v = a
        import calendar
        y, mo, d, h, mi, s, us = T.fields_of(W)
        if not isdt and any(v[4:]):
            return None if r == [1, T.EXN["RuntimeError"]] else f"add_duration(date, time units) must raise RuntimeError, got {r}"
        t = y * 12 + (mo - 1) + 12 * v[0] + v[1]
        y2, m2 = t // 12, t % 12 + 1
        if not (1 <= y2 <= 9999):
            return None if r[0] == 1 else f"add_duration: year {y2} out of range must raise, got {r}"
        d2 = min(d, calendar.monthrange(y2, m2)[1])
        W2 = (_dt.date(y2, m2, d2).toordinal() - 1) * T.US_DAY + W % T.US_DAY
        shift = ((((v[3] + 7 * v[2]) * 24 + v[4]) * 60 + v[5]) * 60 + v[6]) * T.MEG + v[7]
        W3 = W2 + shift if isdt else W2 + (shift // T.US_DAY) * T.US_DAY
        if not (0 <= W3 <= T.MAX_WALL):
            return None if r[0] == 1 else f"add_duration: out of range must raise, got {r}"
        return None if r == [0, W3] else f"add_duration(wall {T.fields_of(W)}, isdt={isdt}, {v}) = {r}, expected wall {T.fields_of(W3)}"
    return None


def known(c, backend, r):
    return None


LEVEL_TEXT = ("Machine-checked Coq theorems: helpers.add_duration (translated from /repo on every run) equals guard + sign-aware carry normalisation + month step + native addition, "
              "the normalisation preserves the total for ALL integers, for fixed units it is an exact wall shift (OverflowError outside years 1..9999); and for every well-formed zone, "
              "DateTime.add with hours/minutes/seconds/microseconds returns the database rendering of (instant + exactly the requested microseconds) in the same zone, subtract() with "
              "the same arguments returns to the original instant/offset/fields, a naive value is shifted on its own clock. Correspondence at every kind of transition, both backends.")
DESIGN_REF = "DESIGN.md section 4 C03"
LEVEL_NOTE = ("Trusted: Coq kernel+VM; translator; Spec/Zone.v, Spec/NativeDT.v as models of zoneinfo / naive datetime arithmetic (validated by correspondence); Model/TzConvert.v add_fixed hand model; "
              "the '+ timedelta' route (float total_seconds) is checked by the oracle only (exact below 2^33 s).")
TECHNIQUE = "Coq proof (lia/nia over translated add_duration, induction over tz tables) + differential correspondence"
