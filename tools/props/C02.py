"""C02 — wall-clock construction is normalised by the documented DST rules."""
from __future__ import annotations

import datetime as _dt
import json
import random

from vlib import tzcases as T
from vlib import zones

ID = "C02"
PROPS = "Props/C02.v"
RULE = ("enumerated: for each chosen zone, every gap and overlap of its explicit tz table (quick: up to 30 per zone, seed-rotated, always incl. the largest "
        "and the sub-minute ones; thorough: every transition of every zone) plus POSIX-rule transitions of sample years, each probed on the wall clock at "
        "{start-1s, start-1us, start, start+1us, middle, end-1us, end, end+1us, end+1s} x fold {0,1} x raise {False,True} over the entry points "
        "datetime(), Timezone.convert(), Timezone.datetime(), set(), at(), replace(), parse(tz=); fixed offsets; random wall tuples. "
        "zone-spec stream: the Coq zone model (off_utc, fold_utc, off_local) against zoneinfo at every probe. "
        "history-* streams: a wall-clock construction AFTER A HISTORY -- one case is a whole list of operations applied to one value "
        "(origins datetime()/parse()/parse with offset/instance()/naive()/from_timestamp() with every default or an explicit fold, in UTC, a named zone or a "
        "fixed offset; then set(tz=)/replace(tzinfo=)/set()/replace()/on()/at()/replace(fold=)/in_timezone()/add(h,m,s,us)/naive()/replace(tzinfo=None)), "
        "28 shapes rotated over {start, middle, end-1us, end} of every chosen gap/overlap, so that the LAST construction lands on the transition wall time and its "
        "fold is whatever the earlier steps left on the instance; the value after every step is compared with Model/WallHistory.v (hist dispatch entry, in the model) "
        "and with the documented rules applied step by step by a stdlib-only ledger (the requested fold is carried; a moved value carries 0; an instant carries its own fold). "
        "substep-* streams: a SECOND construction step that passes only a SUBSET of the fields -- set(**kw) / replace(**kw) with any subset of "
        "year..microsecond (also only second and/or microsecond, a superset whose extra fields keep their value, one field at a time in both orders) and at(h[, mi[, s[, us]]]) -- "
        "moving an existing value into, inside and out of a gap / overlap: (a) substep-subminute-*: EVERY explicit transition of the tz data with a wall-clock edge inside a minute "
        "(437 over the 441 distinct tables, all zones, both tiers), the step changes only the seconds / microseconds of a value in the same minute as that edge and crosses it "
        "(edge-adjacent and random seconds, microseconds 0 / 999999 / random), 9-12 history shapes (explicit / default fold, via UTC or a naive value, replace(fold=), after in_timezone, "
        "naive then set(tz=)); (b) substep-fields-*: every chosen transition of the chosen zones, masks rotated over 16 small subsets + random ones, the origin differs from the target "
        "in exactly those fields and preferably exists; (c) substep-invalid: a subset that is not a date raises ValueError. Expected value = the tz-database resolution of the MERGED "
        "wall time with the fold the instance carries (same ledger); in the model as WallFields.hstep2 (HSetFields). "
        "non-trivial = distinct (zone, wall, fold, raise, entry) / distinct history.")
EXHAUSTIVE = {"quick": False, "thorough": True}
TRUSTED = ["zoneinfo.ZoneInfo (C implementation) and the tzdata tables are the specification side; Spec/Zone.v models zoneinfo's lookups and is validated "
           "against it at every probe (zone-spec stream); tables are read through zoneinfo._zoneinfo (pure Python) by tools/vlib/zones.py",
           "the theorems assume wf_zone / wf2_zone of the table; the harness evaluates both on every window it feeds to the model and reports zones that fail them"]
ASSUMPTIONS = ["native datetime + timedelta resets fold to 0 (CPython behaviour, observed through the correspondence)",
               "history oracle: a value keeps the fold that was asked for (PEP 495: fold is an attribute of the value; stdlib replace()/tzinfo changes keep it) unless it was "
               "moved out of a gap (then 0) or denotes an instant (in_timezone, add of fixed units, from_timestamp(tz): the instant's fold)",
               "zone windows of +-3 days around the probe are enough for the lookups (the oracle uses the full zoneinfo object, not the window)"]
ENTRIES = ["datetime", "convert", "tzdatetime", "set", "at", "replace", "parse"]


def _zones_for(tier, rnd):
    if tier == "thorough":
        return list(zones.names())
    return zones.pick_zones(rnd, 60)


def cases(tier, seed):
    rnd = random.Random(seed)
    out = []
    zs = _zones_for(tier, rnd)
    k = 0
    for name in zs:
        trs = T.transition_probes(name, rnd, per_zone=None if tier == "thorough" else 30)
        for (tt, o_pre, o_post) in trs:
            for W in T.wall_probes(tt, o_pre, o_post):
                if not (T.US_DAY * 3 < W < T.MAX_WALL - T.US_DAY * 3):
                    continue
                # zone model vs zoneinfo
                out.append({"stream": "zone-spec", "fn": "zone_probe", "args": [name, W // T.MEG - T.EPOCH_S - o_pre, W // T.MEG]})
                for f in (0, 1):
                    for r in (0, 1):
                        e = ENTRIES[k % len(ENTRIES)]
                        k += 1
                        if e in ("tzdatetime", "parse") and (f, r) != (1, 0):
                            e = "datetime"
                        if e in ("set", "at", "replace") and r:
                            e = "convert"
                        out.append({"stream": "transition-" + e, "fn": "create", "args": [name, W, f, r, e]})
    # fixed offsets and UTC
    for off in [0, 3600, -3600, 19800, 20700, -12600, 86340, -86340, 1, -1, 45 * 60, 14 * 3600]:
        for _ in range(6):
            W = rnd.randrange(T.US_DAY * 3, T.MAX_WALL - T.US_DAY * 3)
            for f in (0, 1):
                out.append({"stream": "fixed-offset", "fn": "create", "args": [off, W, f, rnd.randrange(2), ENTRIES[rnd.randrange(4)]]})
    # random wall tuples in named zones
    for _ in range(3000 if tier == "quick" else 60000):
        name = zs[rnd.randrange(len(zs))]
        W = rnd.randrange(T.US_DAY * 3, T.MAX_WALL - T.US_DAY * 3)
        f, r = rnd.randrange(2), rnd.randrange(2)
        e = ENTRIES[rnd.randrange(len(ENTRIES))]
        if e in ("tzdatetime", "parse") and (f, r) != (1, 0):
            e = "datetime"
        if e in ("set", "at", "replace") and r:
            e = "convert"
        out.append({"stream": "random-wall", "fn": "create", "args": [name, W, f, r, e]})
        out.append({"stream": "zone-spec-random", "fn": "zone_probe", "args": [name, W // T.MEG - T.EPOCH_S, W // T.MEG]})
    out += history_cases(tier, rnd, zs)
    out += substep_cases(tier, rnd, zs)
    return out


# ----------------------------------------------------------------------------- histories
# A history is a list of operations applied one after the other to ONE value; the whole list is the case (the replay is self-contained).
# set()/on()/at()/replace() take the fold from the instance, so what an earlier construction left on the instance decides the later one.
#   origins     ["datetime", zone|None, W, fold|None, raise]   pendulum.datetime(fields[, tz=zone][, fold=fold][, raise_on_unknown_times])
#               ["parse", W, zone|None]  ["parse_off", W, offset_s]  ["instance", W, fold, zone|None]  ["naive", W, fold|None]
#               ["from_timestamp", n, zone|None]
#   later steps ["set_tz", zone] ["replace_tzinfo", zone] (pendulum timezone) ["set_tz_std", zone] ["replace_tzinfo_std", zone] (zoneinfo.ZoneInfo) ["set", W] ["replace", W] ["on", W] ["at", W] ["replace_fold", f]
#               ["in_tz", zone] ["add", h, m, s, us] ["naive()"] ["replace_tzinfo_none"]
#               ["setf", mask, W] ["replacef", mask, W]  x.set(**kw) / x.replace(**kw) where kw holds ONLY the fields of W whose bit is set in mask
#               (year 1, month 2, day 4, hour 8, minute 16, second 32, microsecond 64); ["atn", n, W]  x.at(<the first n of hour, minute, second, microsecond of W>)
# zone: IANA name or a fixed offset in seconds (int); None = the argument is omitted (UTC by default).  W: wall microseconds (the fields).
FIXED_OFFS = [3600, -18000, 19800, 0, 34200, -12600]
NO_OFFSET = 10 ** 6        # utcoffset() of a naive value in the canonical results


def _shapes(Z, W, rnd, zs):
    """Histories that end in a wall-clock construction of the wall time W in zone Z whose fold comes from the instance."""
    day = T.US_DAY
    Wd = W - 5 * day                                   # same time of day, another date
    Wt = W // day * day + 12 * 3600 * T.MEG            # same date, noon
    Wo = W - 5 * day - 3 * 3600 * T.MEG - 1            # unrelated fields
    off = FIXED_OFFS[rnd.randrange(len(FIXED_OFFS))]
    offp = [3600, -18000, 19800, 34200][rnd.randrange(4)]
    Z2 = zs[rnd.randrange(len(zs))]
    u = T.unix_of_wall(W)
    fe = rnd.randrange(2)
    retz = ["set_tz", "replace_tzinfo"]
    setw = ["set", "replace"]
    p = rnd.randrange(2)
    return [
        # a value built with every default (UTC), then read in the zone
        ("default-utc", [["datetime", None, W, None, 0], [retz[p], Z]]),
        ("default-utc", [["parse", W, None], [retz[1 - p], Z]]),
        ("default-utc", [["from_timestamp", u, None], [retz[p], Z]]),
        ("default-utc", [["datetime", None, Wo, None, 0], [setw[p], W], [retz[p], Z]]),
        # explicit fold at the first construction
        ("explicit-fold", [["datetime", "UTC", W, fe, 0], [retz[p], Z]]),
        ("explicit-fold", [["instance", W, fe, None], [retz[p], Z]]),
        ("explicit-fold", [["naive", W, None if fe else 0], [retz[p], Z]]),
        ("explicit-fold", [["datetime", Z, Wo, fe, 0], [setw[p], W]]),
        ("explicit-fold", [["datetime", None, W, None, 0], ["replace_fold", fe], [retz[p], Z]]),
        # built in another zone (named or fixed offset), then read in the zone
        ("other-zone", [["datetime", Z2, W, None, 0], [retz[p], Z]]),
        ("other-zone", [["datetime", Z2, W, fe, 0], [retz[1 - p], Z]]),
        ("fixed-offset", [["datetime", off, W, None, 0], [retz[p], Z]]),
        ("fixed-offset", [["parse_off", W // T.MEG * T.MEG, offp], [retz[1 - p], Z]]),
        ("fixed-offset", [["datetime", off, W, fe, 0], [retz[1 - p], Z]]),
        ("fixed-offset", [["datetime", None, W, None, 0], ["set_tz", off], [retz[p], Z]]),
        # the zone is given as a standard-library tzinfo (zoneinfo.ZoneInfo): _safe_timezone maps it to pendulum's Timezone
        ("std-tzinfo", [["datetime", None, W, None, 0], ["replace_tzinfo_std", Z]]),
        ("std-tzinfo", [["datetime", None, W, fe, 0], ["set_tz_std", Z]]),
        # two hops: the fold has to survive the re-interpretation as well
        ("two-hops", [["datetime", None, Wd, None, 0], [retz[p], Z], ["on", W]]),
        ("two-hops", [["datetime", None, Wt, None, 0], [retz[p], Z], ["at", W]]),
        ("two-hops", [["parse", Wo // T.MEG * T.MEG, None], [retz[p], Z], [setw[1 - p], W]]),
        ("two-hops", [["datetime", Z, W, fe, 0], [setw[p], Wo], [setw[1 - p], W]]),
        # the tzinfo is dropped in between
        ("drop-tz", [["datetime", None, W, None, 0], ["replace_tzinfo_none"], [retz[p], Z]]),
        ("drop-tz", [["datetime", None, W, None, 0], ["naive()"], [retz[p], Z]]),
        # values that denote an instant (conversion, fixed-unit arithmetic): the fold is the instant's
        ("instant", [["datetime", None, Wo, None, 0], ["in_tz", Z], [setw[p], W]]),
        ("instant", [["from_timestamp", u - 7200, Z], [setw[p], W]]),
        ("instant", [["datetime", Z, Wo, fe, 0], ["add", 1, 2, 3, 4], [setw[p], W]]),
        # the construction is repeated on its own result (idempotence on valid values; a shifted value carries fold 0)
        ("again", [["datetime", Z, W, fe, 0], [retz[p], Z]]),
        ("again", [["datetime", Z, W, fe, 0], [setw[p], W]]),
    ]


def history_cases(tier, rnd, zs):
    out = []
    k = 0
    for name in zs:
        trs = T.transition_probes(name, rnd, per_zone=None if tier == "thorough" else 30)
        for (tt, o_pre, o_post) in trs:
            pr = T.wall_probes(tt, o_pre, o_post)
            for W in (pr[2], pr[4], pr[6], pr[7]):          # start, middle, end-1us, end (the first wall time outside)
                if not (T.US_DAY * 9 < W < T.MAX_WALL - T.US_DAY * 9):
                    continue
                sh = _shapes(name, W, rnd, zs)
                for j in range(3 if tier == "quick" else 1):      # thorough: every transition of every zone, one shape per probe (shapes rotate)
                    kind, ops = sh[k % len(sh)]
                    k += next(q for q in (7, 11, 13, 17) if len(sh) % q)   # coprime to the number of shapes: every shape meets every probe position
                    out.append({"stream": "history-" + kind, "fn": "hist", "args": [ops]})
    return out


# ----------------------------------------------------------------------------- a second step that passes a SUBSET of the fields
FIELD_BITS = (1, 2, 4, 8, 16, 32, 64)          # year .. microsecond
_SMALL_MASKS = (32, 64, 96, 16, 48, 112, 8, 40, 4, 2, 1, 36, 33, 127, 120, 7)


def _wall(y, mo, d, h, mi, s, us):
    try:
        return T.wall_of(_dt.datetime(y, mo, d, h, mi, s, us))
    except ValueError:
        return None


def _merge(W, mask, Wn):
    """The wall value whose fields are those of Wn where mask has the bit and those of W elsewhere; None = not a date."""
    a, b = T.fields_of(W), T.fields_of(Wn)
    return _wall(*[b[i] if mask & FIELD_BITS[i] else a[i] for i in range(7)])


def _at_wall(W, n, Wn):
    """x.at(h[, mi[, s[, us]]]): the omitted ones are 0."""
    t = list(T.fields_of(Wn)[3:3 + n]) + [0] * (4 - n)
    return W // T.US_DAY * T.US_DAY + ((t[0] * 60 + t[1]) * 60 + t[2]) * T.MEG + t[3]


@__import__("functools").lru_cache(maxsize=None)
def _subminute_transitions():
    """[(zone, T, o_pre, o_post)] every explicit transition of the tz data with a wall-clock edge inside a minute, one zone name per distinct table."""
    seen, out = set(), []
    for name in zones.names():
        tab = zones.tab(name)
        key = (tab.init, tuple(tab.trans), tuple(tab.offs))
        if key in seen:
            continue
        seen.add(key)
        for (tt, a, b) in tab.gaps_and_overlaps(rule_years=()):
            if ((tt + a) % 60 or (tt + b) % 60) and zones.MIN_T + 9 * 86400 < tt < zones.MAX_T - 9 * 86400:
                out.append((name, tt, a, b))
    return out


def _origin_for(rnd, Wt, mask, a, b, want_outside=True):
    """A wall value that differs from Wt in (some of) the fields of mask only, so that passing Wt's fields of mask to set() gives Wt;
    preferably outside [a, b) (an existing, unambiguous wall time).  None when no such value was found."""
    ft = T.fields_of(Wt)
    lim = ((1, 9999), (1, 12), (1, 28), (0, 23), (0, 59), (0, 59), (0, 999999))
    best = None
    for _ in range(40):
        f = list(ft)
        for i in range(7):
            if mask & FIELD_BITS[i]:
                if i == 0:
                    f[0] = min(9998, max(2, ft[0] + rnd.randrange(-3, 4)))
                else:
                    f[i] = rnd.randrange(lim[i][0], lim[i][1] + 1)
        Wo = _wall(*f)
        if Wo is None or Wo == Wt or not (T.US_DAY * 9 < Wo < T.MAX_WALL - T.US_DAY * 9):
            continue
        if _merge(Wo, mask, Wt) != Wt:
            continue
        if (not (a <= Wo < b)) == want_outside:
            return Wo
        best = Wo
    return best


def _substep_shapes(Z, Wo, Wt, mask, rnd, zs):
    """Histories whose LAST step passes only the fields of mask and thereby turns the wall time Wo into Wt."""
    fe = rnd.randrange(2)
    op = ["setf", "replacef"][rnd.randrange(2)]
    ft = T.fields_of(Wt)
    # a superset of the mask whose extra fields already have the value they are given (passing a field with its current value changes nothing)
    sup = mask | FIELD_BITS[rnd.randrange(7)] | FIELD_BITS[rnd.randrange(7)]
    Z2 = zs[rnd.randrange(len(zs))]
    out = [
        ("explicit-fold", [["datetime", Z, Wo, fe, 0], ["setf", mask, Wt]]),
        ("explicit-fold", [["datetime", Z, Wo, fe, 0], ["replacef", mask, Wt]]),
        ("default-fold", [["datetime", Z, Wo, None, 0], [op, mask, Wt]]),
        ("superset", [["datetime", Z, Wo, fe, 0], [op, sup, Wt]]),
        ("via-utc", [["datetime", None, Wo, None, 0], ["set_tz", Z], [op, mask, Wt]]),
        ("via-utc", [["naive", Wo, None if fe else 0], ["replace_tzinfo", Z], [op, mask, Wt]]),
        ("replace-fold", [["datetime", Z, Wo, None, 0], ["replace_fold", fe], [op, mask, Wt]]),
        ("instant", [["datetime", Z2, Wo, fe, 0], ["in_tz", Z], [op, 127, Wo], [op, mask, Wt]]),
        ("naive", [["naive", Wo, fe], [op, mask, Wt], ["set_tz", Z]]),
    ]
    # one field at a time, smallest first / largest first: every intermediate value is a construction of its own
    bits = [b for b in FIELD_BITS if mask & b]
    if len(bits) > 1:
        out.append(("one-by-one", [["datetime", Z, Wo, fe, 0]] + [[op, b, Wt] for b in reversed(bits)]))
        out.append(("one-by-one", [["datetime", Z, Wo, fe, 0]] + [[op, b, Wt] for b in bits]))
    # at(h[, mi[, s[, us]]]) when the step only touches the time of day and the omitted fields of the target are 0
    if not mask & 7:
        for n in (1, 2, 3, 4):
            if _at_wall(Wo, n, Wt) == Wt:
                out.append(("at", [["datetime", Z, Wo, fe, 0], ["atn", n, Wt]]))
                break
    return out


def substep_cases(tier, rnd, zs):
    out = []
    k = 0
    # (a) every transition of the tz data with an edge inside a minute: the step changes ONLY second and/or microsecond (and minute ..) and
    #     crosses that edge, in both directions
    for (name, tt, o_pre, o_post) in _subminute_transitions():
        a = (tt + T.EPOCH_S + min(o_pre, o_post)) * T.MEG
        b = (tt + T.EPOCH_S + max(o_pre, o_post)) * T.MEG
        for e in (a, b):
            if e // T.MEG % 60 == 0:
                continue
            m0 = e - e % (60 * T.MEG)
            ins = [s for s in range(60) if a <= m0 + s * T.MEG < b]
            outs = [s for s in range(60) if not a <= m0 + s * T.MEG < b]
            if not ins or not outs:
                continue
            es = e // T.MEG % 60
            for rep in range(2 if tier == "quick" else 4):
                near = rep % 2 == 0
                s_in = (es if e == a else es - 1) if near and (es if e == a else es - 1) in ins else ins[rnd.randrange(len(ins))]
                s_out = (es - 1 if e == a else es) if near and (es - 1 if e == a else es) in outs else outs[rnd.randrange(len(outs))]
                us_o = rnd.choice([0, 999999, rnd.randrange(10 ** 6)])
                us_t = rnd.choice([0, 999999, rnd.randrange(10 ** 6)])
                W_in, W_out = m0 + s_in * T.MEG, m0 + s_out * T.MEG
                # into the gap / overlap by the seconds alone, by seconds + microseconds, and out of it again
                trips = [(W_out + us_o, W_in + us_o, 32), (W_out + us_o, W_in + us_t, 96), (W_in + us_o, W_out + us_o, 32),
                         (W_in + us_o, W_in + us_t, 64), (W_in + us_o, W_out + us_t, 96)]
                Wo, Wt, mask = trips[k % len(trips)]
                if Wo == Wt:
                    Wo, Wt, mask = trips[0]
                sh = _substep_shapes(name, Wo, Wt, mask, rnd, zs)
                for j in range(2):
                    kind, ops = sh[(k + j * 5) % len(sh)]
                    out.append({"stream": "substep-subminute-" + kind, "fn": "hist", "args": [ops]})
                k += 1
    # (b) the chosen zones, every kind of transition: a random subset of the fields moves an existing value onto the transition wall time
    for name in zs:
        trs = T.transition_probes(name, rnd, per_zone=None if tier == "thorough" else 30)
        for (tt, o_pre, o_post) in trs:
            pr = T.wall_probes(tt, o_pre, o_post)
            a, b = pr[2], pr[7]
            for W in ((pr[2], pr[4], pr[6], pr[7]) if tier == "thorough" else (pr[(2, 4, 6, 7)[k % 4]],)):
                if not (T.US_DAY * 9 < W < T.MAX_WALL - T.US_DAY * 9):
                    continue
                mask = _SMALL_MASKS[k % len(_SMALL_MASKS)] if k % 3 else rnd.randrange(1, 128)
                Wo = _origin_for(rnd, W, mask, a, b)
                k += 1
                if Wo is None:
                    continue
                sh = _substep_shapes(name, Wo, W, mask, rnd, zs)
                kind, ops = sh[k % len(sh)]
                out.append({"stream": "substep-fields-" + kind, "fn": "hist", "args": [ops]})
    # (c) a subset that does not form a date has to raise ValueError (and nothing else)
    for _ in range(20):
        name = zs[rnd.randrange(len(zs))]
        y = rnd.randrange(1901, 2100)
        Wo = _wall(y, 1, 31, 10, 0, 0, 0)
        out.append({"stream": "substep-invalid", "fn": "hist", "args": [[["datetime", name, Wo, None, 0], ["setf", 2, _wall(y, rnd.choice([2, 4, 6, 9, 11]), 1, 0, 0, 0, 0)]]]})
    return out


def search_cases(seed):
    return [c for c in cases("thorough", seed) if c["fn"] in ("create", "hist")][::3]


def nontrivial(c):
    return True


# ----------------------------------------------------------------------------- implementation
def _base(pendulum, tz, f, y, mo, d):
    """An instance in tz whose fold is f, far from the target (so that it is an ordinary time)."""
    b = pendulum.datetime(2000, 1, 15, 12, 0, 0, tz=tz)
    return b.replace(fold=f)


def impl_run(cases):
    import pendulum
    out = []
    for c in cases:
        fn, a = c["fn"], c["args"]
        try:
            if fn == "zone_probe":
                name, u, w = a
                tz = pendulum.timezone(name)     # pendulum's Timezone IS a zoneinfo.ZoneInfo subclass: probe it directly
                d = (_dt.datetime(1970, 1, 1, tzinfo=_dt.timezone.utc) + _dt.timedelta(seconds=u)).astimezone(tz)
                n0 = T.native(w * T.MEG, 0)
                out.append([0, T.off_s(d), d.fold, T.off_s(n0.replace(tzinfo=tz)), T.off_s(n0.replace(tzinfo=tz, fold=1)), 1, 1])   # the last two: wf_zone / wf2_zone of the window are expected to hold
                continue
            if fn == "hist":
                out.append(_impl_history(pendulum, a[0]))
                continue
            spec, W, f, r, e = a
            tz = T.pzone(spec)
            y, mo, d, h, mi, s, us = T.fields_of(W)
            if e == "datetime":
                res = pendulum.datetime(y, mo, d, h, mi, s, us, tz=tz, fold=f, raise_on_unknown_times=bool(r))
            elif e == "convert":
                res = tz.convert(_dt.datetime(y, mo, d, h, mi, s, us, fold=f), raise_on_unknown_times=bool(r))
            elif e == "tzdatetime":
                res = tz.datetime(y, mo, d, h, mi, s, us)
            elif e == "set":
                res = _base(pendulum, tz, f, y, mo, d).set(y, mo, d, h, mi, s, us)
            elif e == "at":
                b = _base(pendulum, tz, f, y, mo, d)
                b2 = b.set(year=y, month=mo, day=d)
                if (b2.year, b2.month, b2.day, b2.hour, b2.fold) != (y, mo, d, 12, f):
                    res = b.set(y, mo, d, h, mi, s, us)      # noon of that day is itself abnormal: fall back to set()
                else:
                    res = b2.at(h, mi, s, us)
            elif e == "replace":
                res = _base(pendulum, tz, 1 - f, y, mo, d).replace(year=y, month=mo, day=d, hour=h, minute=mi, second=s, microsecond=us, fold=f)
            elif e == "parse":
                res = pendulum.parse(f"{y:04d}-{mo:02d}-{d:02d}T{h:02d}:{mi:02d}:{s:02d}.{us:06d}", tz=tz)
            else:
                out.append([9])
                continue
            if e in ("convert", "tzdatetime"):
                out.append([0, T.wall_of(res), res.fold, T.off_s(res)] if res.tzinfo is tz else [7, 3])
            else:
                out.append(T.dt_result(res, tz.name))
        except Exception as ex:  # noqa
            out.append(T.exn_result(ex))
    return out


def _iso(W, off=None):
    y, mo, d, h, mi, s, us = T.fields_of(W)
    t = f"{y:04d}-{mo:02d}-{d:02d}T{h:02d}:{mi:02d}:{s:02d}" + (f".{us:06d}" if us else "")
    if off is not None:
        t += ("-" if off < 0 else "+") + f"{abs(off) // 3600:02d}:{abs(off) // 60 % 60:02d}"
    return t


def _impl_history(pendulum, ops):
    """[0, W1, f1, o1, .., Wn, fn, on] (the value after every step) or [1, exception, step]; [7, what, step] for a wrong type / zone."""
    x, zone, res = None, None, [0]
    for i, op in enumerate(ops):
        try:
            k = op[0]
            if k == "datetime":
                _, z, W, f, r = op
                kw = {}
                if z is not None:
                    kw["tz"] = T.pzone(z)
                if f is not None:
                    kw["fold"] = f
                if r:
                    kw["raise_on_unknown_times"] = True
                x, zone = pendulum.datetime(*T.fields_of(W), **kw), ("UTC" if z is None else z)
            elif k == "parse":
                _, W, z = op
                x, zone = (pendulum.parse(_iso(W)) if z is None else pendulum.parse(_iso(W), tz=T.pzone(z))), ("UTC" if z is None else z)
            elif k == "parse_off":
                _, W, off = op
                x, zone = pendulum.parse(_iso(W, off)), off
            elif k == "instance":
                _, W, f, z = op
                n = T.native(W, f)
                x, zone = (pendulum.instance(n) if z is None else pendulum.instance(n, tz=T.pzone(z))), ("UTC" if z is None else z)
            elif k == "naive":
                _, W, f = op
                x, zone = (pendulum.naive(*T.fields_of(W)) if f is None else pendulum.naive(*T.fields_of(W), fold=f)), None
            elif k == "from_timestamp":
                _, n, z = op
                x, zone = (pendulum.from_timestamp(n) if z is None else pendulum.from_timestamp(n, tz=T.pzone(z))), ("UTC" if z is None else z)
            elif k == "set_tz":
                x, zone = x.set(tz=T.pzone(op[1])), op[1]
            elif k == "replace_tzinfo":
                x, zone = x.replace(tzinfo=T.pzone(op[1])), op[1]
            elif k == "set_tz_std":
                x, zone = x.set(tz=T.ref_zone(op[1])), op[1]
            elif k == "replace_tzinfo_std":
                x, zone = x.replace(tzinfo=T.ref_zone(op[1])), op[1]
            elif k == "set":
                x = x.set(*T.fields_of(op[1]))
            elif k == "replace":
                y, mo, d, h, mi, s, us = T.fields_of(op[1])
                x = x.replace(year=y, month=mo, day=d, hour=h, minute=mi, second=s, microsecond=us)
            elif k in ("setf", "replacef"):
                fl = T.fields_of(op[2])
                kw = {n: fl[j] for j, n in enumerate(("year", "month", "day", "hour", "minute", "second", "microsecond")) if op[1] & FIELD_BITS[j]}
                x = x.set(**kw) if k == "setf" else x.replace(**kw)
            elif k == "atn":
                x = x.at(*T.fields_of(op[2])[3:3 + op[1]])
            elif k == "on":
                x = x.on(*T.fields_of(op[1])[:3])
            elif k == "at":
                x = x.at(*T.fields_of(op[1])[3:])
            elif k == "replace_fold":
                x = x.replace(fold=op[1])
            elif k == "in_tz":
                x, zone = x.in_timezone(T.pzone(op[1])), op[1]
            elif k == "add":
                x = x.add(hours=op[1], minutes=op[2], seconds=op[3], microseconds=op[4])
            elif k == "naive()":
                x, zone = x.naive(), None
            elif k == "replace_tzinfo_none":
                x, zone = x.replace(tzinfo=None), None
            else:
                return [9]
        except Exception as ex:  # noqa
            return T.exn_result(ex) + [i]
        if not isinstance(x, pendulum.DateTime):
            return [7, 1, i]
        if (x.tzinfo is None) != (zone is None) or (zone is not None and x.timezone_name != T.pzone(zone).name):
            return [7, 2, i]
        o = T.off_s(x)
        res += [T.wall_of(x), x.fold, NO_OFFSET if o is None else o]
    return res


# ----------------------------------------------------------------------------- the documented rules applied to a history (stdlib only)
def _rule(spec, W, f, r, quirks=()):
    """The construction rule of the property for the wall time W read in zone spec with fold f: (W', fold', offset, fold_is_observable) or
    ("raise", code).  The value keeps the fold it was asked for unless it had to be moved (a moved value is an ordinary time, fold 0)."""
    if spec is None:
        return (W, f, NO_OFFSET, False)
    if isinstance(spec, int):
        return (W, 0 if "fixed" in quirks else f, spec, False)
    tz = T.ref_zone(spec)
    w = W // T.MEG
    sols = T.solutions(tz, w)
    if len(sols) == 1:
        return (W, f, sols[0][1], False)
    if len(sols) == 2:
        if r:
            return ("raise", T.EXN["AmbiguousTime"])
        return (W, f, (sols[1] if f else sols[0])[1], True)
    if len(sols) == 0:
        if r:
            return ("raise", T.EXN["NonExistingTime"])
        g = T.gap_around(tz, w)
        if g is None:
            return ("oracle", f"could not locate the gap around wall second {w}")
        tt, o_pre, o_post = g
        gap = o_post - o_pre
        return (W + gap * T.MEG, 0, o_post, False) if f else (W - gap * T.MEG, 0, o_pre, False)
    return ("oracle", f"found {len(sols)} instants")


_REF = {}
_RETZ = ("set_tz", "replace_tzinfo", "set_tz_std", "replace_tzinfo_std")


def _ref_history(ops, quirks=()):
    """Memoised _ref_history_ (both backends, the model call and known() ask for the same histories)."""
    key = (json.dumps(ops), tuple(quirks))
    if key not in _REF:
        if len(_REF) > 400000:
            _REF.clear()
        _REF[key] = _ref_history_(ops, quirks)
    return _REF[key]


def _ref_history_(ops, quirks=()):
    """Expected value after every step: list of (W, fold, offset, fold_is_observable) ending with ("raise", code) when a step has to raise.
    State: zone spec (None = naive), wall, fold.  quirks: listed findings switched on (known() only), () = the property."""
    exp, zone, W, f = [], None, 0, 0
    day = T.US_DAY

    def instant():
        return W - T.off_s(T.native(W, f, T.ref_zone(zone))) * T.MEG

    for op in ops:
        k = op[0]
        if k == "datetime":
            zone = "UTC" if op[1] is None else op[1]
            st = _rule(zone, op[2], 1 if op[3] is None else op[3], op[4], quirks)
        elif k == "parse":
            zone = "UTC" if op[2] is None else op[2]
            st = _rule(zone, op[1], 1, 0, quirks)
        elif k == "parse_off":
            zone = op[2]
            st = _rule(zone, op[1], 1, 0, quirks)
        elif k == "instance":
            zone = "UTC" if op[3] is None else op[3]
            st = _rule(zone, op[1], op[2], 0, quirks)
        elif k == "naive":
            zone = None
            st = (op[1], 1 if op[2] is None else op[2], NO_OFFSET, False)
        elif k == "from_timestamp":
            zone = "UTC" if op[2] is None else op[2]
            U = T.EPOCH_US + op[1] * T.MEG
            if zone == "UTC":
                st = (U, 1, 0, False)            # built in UTC by the public constructor with its defaults
            else:
                w2, f2, o2 = T.ref_render(T.ref_zone(zone), U)
                st = (w2, f2, o2, True)
        elif k in _RETZ:
            zone = op[1]
            st = _rule(zone, W, f, 0, quirks)
        elif k in ("set", "replace"):
            st = _rule(zone, op[1], f, 0, quirks)
        elif k in ("setf", "replacef"):
            Wm = _merge(W, op[1], op[2])
            st = ("raise", T.EXN["ValueError"]) if Wm is None else _rule(zone, Wm, f, 0, quirks)
        elif k == "atn":
            st = _rule(zone, _at_wall(W, op[1], op[2]), f, 0, quirks)
        elif k == "on":
            st = _rule(zone, op[1] // day * day + W % day, f, 0, quirks)
        elif k == "at":
            st = _rule(zone, W // day * day + op[1] % day, f, 0, quirks)
        elif k == "replace_fold":
            st = _rule(zone, W, op[1], 0, quirks)
        elif k == "in_tz":
            if zone is None:
                st = ("oracle", "in_tz of a naive value is not generated")
            elif op[1] == zone:
                st = (W, f, T.off_s(T.native(W, f, T.ref_zone(zone))), False)
            else:
                U = instant()
                zone = op[1]
                w2, f2, o2 = T.ref_render(T.ref_zone(zone), U)
                st = (w2, f2, o2, True)
        elif k == "add":
            if zone is None:
                st = ("oracle", "add on a naive value is not generated")
            else:
                U = instant() + ((op[1] * 60 + op[2]) * 60 + op[3]) * T.MEG + op[4]
                w2, f2, o2 = T.ref_render(T.ref_zone(zone), U)
                st = (w2, f2, o2, True)
        elif k == "naive()":
            zone = None
            st = (W, 0 if "naive()" in quirks else f, NO_OFFSET, False)
        elif k == "replace_tzinfo_none":
            zone = None
            st = (W, f, NO_OFFSET, False)
        else:
            st = ("oracle", f"unknown operation {k}")
        exp.append(st)
        if st[0] in ("raise", "oracle"):
            break
        W, f = st[0], st[1]
    return exp


def _op_text(op):
    k = op[0]
    w = lambda W: "%04d-%02d-%02dT%02d:%02d:%02d.%06d" % T.fields_of(W)      # noqa
    if k == "datetime":
        return "datetime(%s%s%s%s)" % (w(op[2]), "" if op[1] is None else f", tz={op[1]}", "" if op[3] is None else f", fold={op[3]}", ", raise" if op[4] else "")
    if k in ("parse", "naive", "set", "replace", "on", "at"):
        return f"{k}({w(op[1])}" + (f", {op[2]}" if len(op) > 2 and op[2] is not None else "") + ")"
    if k in ("setf", "replacef"):
        fl = T.fields_of(op[2])
        return ("set(" if k == "setf" else "replace(") + ", ".join(f"{n}={fl[j]}" for j, n in enumerate(("year", "month", "day", "hour", "minute", "second", "microsecond")) if op[1] & FIELD_BITS[j]) + ")"
    if k == "atn":
        return "at(" + ", ".join(str(v) for v in T.fields_of(op[2])[3:3 + op[1]]) + ")"
    if k in ("parse_off", "instance"):
        return f"{k}({w(op[1])}, " + ", ".join(str(x) for x in op[2:]) + ")"
    return k + "(" + ", ".join(str(x) for x in op[1:]) + ")"


def _hist_oracle(ops, r, quirks=()):
    exp = _ref_history(ops, quirks)
    txt = " . ".join(_op_text(o) for o in ops)
    if r[0] not in (0, 1):
        return f"history {txt}: unexpected result {r}"
    got = [tuple(r[1 + 3 * i: 4 + 3 * i]) for i in range((len(r) - 1) // 3)] if r[0] == 0 else []
    for i, st in enumerate(exp):
        if st[0] == "oracle":
            return f"history {txt}: step {i}: oracle {st[1]}"
        if st[0] == "raise":
            return None if r == [1, st[1], i] else f"history {txt}: step {i} {_op_text(ops[i])} has to raise exception code {st[1]}, got {r}"
        if r[0] == 1 and r[2] == i:
            return f"history {txt}: step {i} {_op_text(ops[i])} raised code {r[1]}, the rules give wall {T.fields_of(st[0])} offset {st[2]}"
        if r[0] == 1 and i < r[2]:
            continue        # a later step raised: the result names that step only (the values before it are not reported)
        if i >= len(got):
            return f"history {txt}: no value for step {i} in {r}"
        W, f, o = got[i]
        if W != st[0] or o != st[2] or (st[3] and f != st[1]):
            carried = "" if i == 0 else f" (the value carries fold {exp[i - 1][1]} from the steps before)"
            return (f"history {txt}: step {i} {_op_text(ops[i])}: got wall {T.fields_of(W)} fold {f} offset {o}, the documented rules give wall "
                    f"{T.fields_of(st[0])} fold {st[1]} offset {st[2]}{carried}")
        if o != NO_OFFSET and ops[i][0] not in ("in_tz", "add"):
            # valid local time: survives a round trip through UTC with identical fields and offset
            zone = _zone_after(ops[:i + 1])
            tz = T.ref_zone(zone)
            nat = T.native(W, f, tz)
            back = nat.astimezone(_dt.timezone.utc).astimezone(tz)
            if T.wall_of(back) != W or T.off_s(back) != o or T.off_s(nat) != o:
                return f"history {txt}: step {i}: wall {T.fields_of(W)} fold {f} does not survive a UTC round trip with identical fields/offset"
    if r[0] == 0 and len(got) != len(exp):
        return f"history {txt}: {len(got)} values for {len(exp)} steps"
    return None


def _zone_after(ops):
    zone = None
    for op in ops:
        k = op[0]
        if k == "datetime":
            zone = "UTC" if op[1] is None else op[1]
        elif k in ("parse", "from_timestamp"):
            zone = "UTC" if op[2] is None else op[2]
        elif k == "parse_off":
            zone = op[2]
        elif k == "instance":
            zone = "UTC" if op[3] is None else op[3]
        elif k in ("naive", "naive()", "replace_tzinfo_none"):
            zone = None
        elif k in _RETZ or k == "in_tz":
            zone = op[1]
    return zone


# ----------------------------------------------------------------------------- model
def _enc_zone(spec, walls):
    us = [T.unix_of_wall(W) for W in walls]
    return T.zone_enc(spec, min(us) - 100000, max(us) + 100000) + [1 if isinstance(spec, int) else 0]


_ZONE_OPS = ("datetime", "parse", "parse_off", "instance", "from_timestamp", "in_tz") + _RETZ


def _history_call(ops):
    """The history in the wire format of Model/WallHistory.v (parse_op).  The window of a zone covers every wall value that the rules predict
    for the steps during which the value stays in that zone (the lookups depend only on the transitions near the queried time:
    zone_window_irrelevance)."""
    exp = _ref_history(ops, ("fixed", "naive()"))
    walls = []                       # wall value after step i (the last known one when the reference stops early)
    for i in range(len(ops)):
        ok = i < len(exp) and exp[i][0] not in ("raise", "oracle")
        walls.append(exp[i][0] if ok else (walls[-1] if walls else 0))

    def span(i):
        j = i + 1
        while j < len(ops) and ops[j][0] not in _ZONE_OPS:
            j += 1
        w = walls[i:j] + ([walls[i - 1]] if i else [])
        op = ops[i]
        if op[0] in ("datetime",):
            w.append(op[2])
        elif op[0] in ("parse", "parse_off", "instance"):
            w.append(op[1])
        return w

    enc, zone = [], None
    for i, op in enumerate(ops):
        k = op[0]
        if k == "datetime":
            zone = "UTC" if op[1] is None else op[1]
            enc += [1] + _enc_zone(zone, span(i)) + [op[2], 1 if op[3] is None else op[3], op[4]]
        elif k in ("parse", "parse_off"):
            zone = op[2] if (k == "parse_off" or op[2] is not None) else "UTC"
            enc += [1] + _enc_zone(zone, span(i)) + [op[1], 1, 0]
        elif k == "instance":
            zone = "UTC" if op[3] is None else op[3]
            enc += [1] + _enc_zone(zone, span(i)) + [op[1], op[2], 0]
        elif k == "naive":
            zone = None
            enc += [2, op[1], 1 if op[2] is None else op[2]]
        elif k == "from_timestamp":
            zone = "UTC" if op[2] is None else op[2]
            enc += [3] + _enc_zone(zone, span(i) + [T.EPOCH_US + op[1] * T.MEG]) + [1 if zone == "UTC" else 0, op[1]]
        elif k in _RETZ:
            zone = op[1]
            enc += [4] + _enc_zone(zone, span(i))
        elif k in ("set", "replace"):
            enc += [5, op[1]]
        elif k in ("setf", "replacef"):
            enc += [13, op[1]] + list(T.fields_of(op[2]))
        elif k == "atn":
            enc += [13, 120, 0, 0, 0] + list(T.fields_of(op[2])[3:3 + op[1]]) + [0] * (4 - op[1])
        elif k == "on":
            enc += [6, op[1] // T.US_DAY]
        elif k == "at":
            enc += [7, op[1] % T.US_DAY]
        elif k == "replace_fold":
            enc += [8, op[1]]
        elif k == "in_tz":
            same = 1 if op[1] == zone else 0
            zone = op[1]
            enc += [9] + _enc_zone(zone, span(i)) + [same]
        elif k == "add":
            enc += [10] + list(op[1:5])
        elif k == "naive()":
            zone = None
            enc += [11]
        elif k == "replace_tzinfo_none":
            zone = None
            enc += [12]
    return enc


def model_calls(c, backend):
    fn, a = c["fn"], c["args"]
    if fn == "hist":
        return [("hist", _history_call(a[0]))]
    if fn == "zone_probe":
        name, u, w = a
        lo, hi = min(u, w - T.EPOCH_S) - 90000, max(u, w - T.EPOCH_S) + 90000
        return [("zone_probe", T.zone_enc(name, lo, hi) + [u + T.EPOCH_S, w])]
    spec, W, f, r, e = a
    u = T.unix_of_wall(W)
    if e == "tzdatetime" or e == "parse":
        f, r = 1, 0
    if e in ("set", "at"):
        r = 0
    return [("create", T.zone_enc(spec, u - 90000, u + 90000) + [1 if isinstance(spec, int) else 0, W, f, r])]


def model_result(c, backend, outs):
    o = outs[0]
    return o


def same(c, m, r):
    return m == r


# ----------------------------------------------------------------------------- the property (stdlib zoneinfo only)
def oracle(c, backend, r):
    fn, a = c["fn"], c["args"]
    if fn == "zone_probe":
        return None
    if fn == "hist":
        return _hist_oracle(a[0], r)
    spec, W, f, rz, e = a
    if e in ("tzdatetime", "parse"):
        f, rz = 1, 0
    if e in ("set", "at"):
        rz = 0
    tz = T.ref_zone(spec)
    w = W // T.MEG
    sols = T.solutions(tz, w)
    if r[0] not in (0, 1):
        return f"unexpected result {r}"
    if len(sols) == 1:
        exp = [0, W, None, sols[0][1]]
    elif len(sols) == 2:
        if rz:
            exp = [1, T.EXN["AmbiguousTime"]]
        else:
            u, o = sols[1] if f else sols[0]
            exp = [0, W, f, o]
    elif len(sols) == 0:
        if rz:
            exp = [1, T.EXN["NonExistingTime"]]
        else:
            g = T.gap_around(tz, w)
            if g is None:
                return f"oracle could not locate the gap around wall second {w}"
            tt, o_pre, o_post = g
            gap = o_post - o_pre
            exp = [0, W + gap * T.MEG, None, o_post] if f else [0, W - gap * T.MEG, None, o_pre]
    else:
        return f"oracle found {len(sols)} instants"
    if isinstance(spec, int):
        exp = [0, W, None, spec]
    if exp[0] == 1:
        return None if r == exp else f"{e}({spec}, wall={T.fields_of(W)}, fold={f}, raise=True): expected exception code {exp[1]}, got {r}"
    if r[0] != 0:
        return f"{e}({spec}, wall={T.fields_of(W)}, fold={f}, raise={bool(rz)}): raised code {r[1]}, expected wall {T.fields_of(exp[1])}"
    if r[1] != exp[1] or r[3] != exp[3] or (exp[2] is not None and r[2] != exp[2]):
        return (f"{e}({spec}, wall={T.fields_of(W)}, fold={f}, raise={bool(rz)}): got wall {T.fields_of(r[1])} fold {r[2]} offset {r[3]}, "
                f"the tz database gives wall {T.fields_of(exp[1])} fold {exp[2]} offset {exp[3]} ({len(sols)} instants render to the requested wall time)")
    # valid local time: survives a round trip through UTC with identical fields and offset
    nat = T.native(r[1], r[2], tz)
    back = nat.astimezone(_dt.timezone.utc).astimezone(tz)
    if T.wall_of(back) != r[1] or T.off_s(back) != r[3] or T.off_s(nat) != r[3]:
        return f"{e}({spec}, ...): result wall {T.fields_of(r[1])} fold {r[2]} does not survive a UTC round trip with identical fields/offset"
    return None


def known(c, backend, r):
    """A failing history is a listed finding exactly when (a) it contains the operation the finding is about, (b) the result is the one the
    documented rules give once that operation's loss of the fold is taken for granted, and (c) nothing else is wrong with it."""
    if c["fn"] != "hist":
        return None
    ops = c["args"][0]
    fixed = any((o[0] in ("datetime", "set_tz", "replace_tzinfo") and isinstance(o[1], int)) or o[0] == "parse_off" or
                (o[0] == "instance" and isinstance(o[3], int)) for o in ops)
    if fixed and _hist_oracle(ops, r, ("fixed",)) is None:
        return "fixed-offset-drops-fold"
    if any(o[0] == "naive()" for o in ops) and _hist_oracle(ops, r, ("naive()",)) is None:
        return "naive-method-drops-fold"
    return None


LEVEL_TEXT = ("Machine-checked Coq theorems, for EVERY well-formed tz table and every wall value: the PEP 495 trichotomy of wall seconds (unique / two instants "
              "distinguished by fold / no instant), and for the model of Timezone.convert / DateTime.create: unique times returned as is with the database offset, "
              "repeated times denote the later instant with fold 1 and the earlier with fold 0, skipped times move forward (fold 1) or backward (fold 0) by exactly the "
              "gap onto an unambiguous wall time with the post/pre-transition offset, raise_on_unknown_times raises exactly for skipped/repeated, every returned value "
              "survives a UTC round trip. The model is tied to /repo by correspondence on every gap and overlap of the tz data through seven entry points, both backends. "
              "A construction after a history (set/on/at/replace read the instance's fold): a state machine over the operations (Model/WallHistory.v) is proved transparent "
              "-- the result is the direct construction with the fold asked for -- after a construction in UTC / any named zone where the wall time exists, across two hops, "
              "replace(fold=) and replace(tzinfo=None); a moved value carries fold 0; the two places where the code loses the fold (FixedTimezone.convert, DateTime.naive()) "
              "are modelled faithfully with _refuted witnesses, the exact fold-0 reading, and _partial theorems on the region where the loss does not show.")
DESIGN_REF = "DESIGN.md section 4 C02, section 3.2"
LEVEL_NOTE = ("history-* streams are inside the Coq model (dispatch entry hist = WallHistory.run_history, compared step by step with the implementation). Trusted: Coq kernel+VM; Spec/Zone.v as a model of zoneinfo (validated against zoneinfo at every probe); the hand model Model/TzConvert.v of tz/timezone.py and "
              "DateTime.create (validated by correspondence); wf2 of every shipped table is proved by kernel computation on the data itself (Gen/ZoneTables.v, regenerated from the staged interpreter's zoneinfo on every run: 599 names, 441 distinct tables, 43240 transitions, POSIX rules expanded to 2100; theorem shipped_zones_wellformed) and the construction theorems are restated for the concrete zones (shipped_zone_*); the harness still evaluates wf2 on every window it feeds the model (rule years beyond 2100); extraction+driver cross-checked with vm_compute.")
TECHNIQUE = "Coq proof by induction over transition tables (lia) + differential correspondence at every tz transition"


# ---- specification side tied to CPython's own source (appended; supersedes the Spec/Zone.v sentences above) ----
# coq/Gen/StdlibZone.v is the machine translation of CPython's pure-Python zoneinfo (zoneinfo/_zoneinfo.py: _ts_to_local,
# _get_local_timestamp, _find_trans, utcoffset, fromutc; and bisect.py's bisect_right loop), regenerated on every run from the files the
# staged interpreter imports (tools/vlib/gens/g13_stdlib_zone.py); Props/C02.v spec_is_stdlib_* prove Spec/Zone.v equal to it.
_ZSPEC_NEW = (
    "Spec/Zone.v (the specification side) is PROVED to be the algorithm of CPython's pure-Python zoneinfo (Gen/StdlibZone.v = translation of "
    "zoneinfo/_zoneinfo.py, regenerated from the staged interpreter's stdlib on every run; theorems spec_is_stdlib_ts_to_local [every table], "
    "spec_is_stdlib_utcoffset [= off_local, every well-formed table, every datetime and fold], spec_is_stdlib_fromutc [= render at second "
    "granularity, every well-formed table not consisting of exactly one transition; for exactly one transition the pure-Python fromutc keeps the "
    "fold only at the transition second - spec_is_stdlib_fromutc_single/_refuted, a defect of CPython's _zoneinfo.py that the C implementation "
    "(the harness oracle, and what pendulum uses) does not have; 9 shipped zones with a single backward LMT step and a DST-less TZ string have that shape], spec_is_stdlib_bisect_right [bisect.py's loop = the sorted-list contract]). "
    "Scope of the translation: dt is not None, _tz_after is a plain _ttinfo - the POSIX-rule tail _TZStr is OUT OF SCOPE (tools/vlib/zones.py "
    "expands rule transitions into the tables it feeds the model; that expansion stays validated by the zone-spec correspondence stream). "
    "What remains trusted on the spec side: the C accelerator _zoneinfo (the class zoneinfo.ZoneInfo actually is) agrees with _zoneinfo.py "
    "(still covered by the zone-spec stream at every probe); by hand in the translation (coq/Model/StdlibZoneObj.v, coq/Lib/PyList.v): a ZoneInfo "
    "object is the record of the five attributes the lookups read, a _ttinfo is its utcoff in seconds, a datetime is "
    "toordinal()/hour/minute/second/fold, `dt + timedelta` and `dt.replace(fold=1)`, the encoding of a table as the data _load_file stores "
    "(utcoffsets[0] = _tti_before = z_init; the storing lines of _load_file are checked by shape), EPOCHORDINAL's value is the interpreter's "
    "(proved = ymd2ord 1970 1 1)")
TRUSTED = [t for t in TRUSTED] + [_ZSPEC_NEW]
LEVEL_NOTE = (LEVEL_NOTE.replace("Spec/Zone.v as a model of zoneinfo (validated against zoneinfo at every probe)",
                                 "Spec/Zone.v no longer as a hand model: it is proved to be the algorithm of CPython's pure-Python zoneinfo "
                                 "(spec_is_stdlib_*, translation of zoneinfo/_zoneinfo.py regenerated every run; POSIX-rule tail out of scope, "
                                 "C accelerator vs _zoneinfo.py and the rule expansion still validated against zoneinfo at every probe)"))
LEVEL_TEXT = (LEVEL_TEXT + " The specification Spec/Zone.v itself is proved equal to the translation of CPython's own pure-Python zoneinfo "
              "lookups (_ts_to_local, utcoffset, fromutc) for every table, wall second and instant.")


# ---- model side tied to /repo by translation + proof (appended) ----
_GLUE_NEW = ("the hand-written model coq/Model/TzConvert.v is PROVED equal (model_is_code_* theorems) to the machine translation of pendulum's own code, coq/Gen/TzGlue.v, translated from /repo's src/pendulum/tz/timezone.py and src/pendulum/datetime.py on every run (tools/vlib/gens/g15_tz_glue.py; VERIF_REPO honoured): Timezone.convert (naive and aware branch), Timezone.datetime, FixedTimezone.convert / utcoffset / fromutc / datetime, DateTime.create, in_timezone, in_tz, astimezone, add (fixed-unit, naive and calendar branches), int_timestamp. A semantic change of one of these functions changes the generated definition and breaks a proof (not only a source pin). By hand in that translation: the object model and native primitives of coq/Model/TzGlueObj.v (a datetime object = wall value + fold + tzinfo, its CLASS is not modelled; ZoneInfo.utcoffset / fromutc, datetime + timedelta, the datetime constructor, replace(fold=/tzinfo=), utcfromtimestamp - each tied to CPython's source by a spec_is_stdlib_* theorem of C02 / C11), the dispatch of tz.utcoffset / fromutc / convert on the class of tz, native astimezone = tz.fromutc((self - utcoffset).replace(tzinfo=tz)); recognised rewrites: cast(T, e) -> e, pendulum._safe_timezone(x) -> x for an x that already is a Timezone/FixedTimezone (strings, numbers, foreign tzinfo objects, 'local' are out of scope of the translation), cls(...)/datetime.datetime(...) -> the native constructor, any([..]) -> bool(.. or ..). Assumption: `dt + timedelta` inside Timezone.convert is the native addition (dt a native datetime, as in DateTime.create; a naive pendulum DateTime in a gap would run DateTime.__add__ instead). STILL hand-written + pinned only: pendulum.from_timestamp (from_timestamp_int), DateTime.instance, set / on / at / replace, _safe_timezone itself, DateTime.__add__/__sub__/_add_timedelta_, the naive / local-time paths; the add theorems for the naive and calendar branches carry the hypothesis that add_duration's result lies in years 1..9999 (proved for the fixed-unit branch)")
TRUSTED = [t for t in TRUSTED] + [_GLUE_NEW]
LEVEL_NOTE = (LEVEL_NOTE + " Model/TzConvert.v is no longer tied to /repo by pins and correspondence only: Gen/TzGlue.v is the translation of "
              "pendulum's timezone glue from /repo on every run and the model_is_code_* theorems prove the hand model equal to it "
              "(native operations as primitives tied to CPython by the spec_is_stdlib_* theorems; from_timestamp, instance, set/on/at/replace "
              "remain hand-written + pinned).")


# ---- second batch of model = code theorems (appended) ----
TRUSTED = [t for t in TRUSTED] + ['model_is_code_set / _set_tz / _on / _at / _replace / _replace_tzinfo / _naive: DateTime.set, on, at, replace (both forms: tzinfo not passed / passed) and naive are translated from /repo (Gen/TzGlue.v) and proved EQUAL to the step functions of Model/WallHistory.v (hstep OSetWall, OSetTz, OOn, OAt, OSetFold, OReplaceNoTz, ODropTz): they read the fold of the instance exactly as the history model says; the proof of Timezone.convert = convert_naive is robust to meaning-preserving rewrites of the source (b < a for a > b, reordered conjuncts, swapped conditional branches: checked by refactoring trials)']
LEVEL_NOTE = LEVEL_NOTE + " " + 'model_is_code_set / _set_tz / _on / _at / _replace / _replace_tzinfo / _naive: DateTime.set, on, at, replace (both forms: tzinfo not passed / passed) and naive are translated from /repo (Gen/TzGlue.v) and proved EQUAL to the step functions of Model/WallHistory.v (hstep OSetWall, OSetTz, OOn, OAt, OSetFold, OReplaceNoTz, ODropTz): they read the fold of the instance exactly as the history model says; the proof of Timezone.convert = convert_naive is robust to meaning-preserving rewrites of the source (b < a for a > b, reordered conjuncts, swapped conditional branches: checked by refactoring trials)' + "."


# ---- a second step that passes a subset of the fields (appended) ----
_SUBSTEP_NEW = ('substep-* streams are inside the Coq model: opcode 13 of the hist dispatch entry = Model/WallFields.v hstep2 (HSetFields oy om od oh omi os ous): the fields that are not passed '
                'are the fields of the instance (merge_fields, ValueError when they do not form a date), then DateTime.create with the instance\'s fold; model_is_code_set_fields / '
                '_set_fields_invalid / _replace_fields prove the translated DateTime.set / replace (Gen/TzGlue.v) called with ANY subset of the seven fields equal to it, '
                'substep_is_construction / substep_second_only_skipped / _repeated restate the construction rules for a step that passes only the second '
                '(witness on the data: substep_second_only_monrovia_1972); at(h[, mi[, s[, us]]]) is encoded as the subset hour..microsecond with the omitted ones 0 (its defaults: by hand)')
TRUSTED = [t for t in TRUSTED] + [_SUBSTEP_NEW]
LEVEL_NOTE = LEVEL_NOTE + " " + _SUBSTEP_NEW + "."
