"""C02 — wall-clock construction is normalised by the documented DST rules."""
from __future__ import annotations

import datetime as _dt
import random

from vlib import tzcases as T
from vlib import zones

ID = "C02"
PROPS = "Props/C02.v"
RULE = ("enumerated: for each chosen zone, every gap and overlap of its explicit tz table (quick: up to 30 per zone, seed-rotated, always incl. the largest "
        "and the sub-minute ones; thorough: every transition of every zone) plus POSIX-rule transitions of sample years, each probed on the wall clock at "
        "{start-1s, start-1us, start, start+1us, middle, end-1us, end, end+1us, end+1s} x fold {0,1} x raise {False,True} over the entry points "
        "datetime(), Timezone.convert(), Timezone.datetime(), set(), at(), replace(), parse(tz=); fixed offsets; random wall tuples. "
        "zone-spec stream: the Coq zone model (off_utc, fold_utc, off_local) against zoneinfo at every probe. non-trivial = distinct (zone, wall, fold, raise, entry).")
EXHAUSTIVE = {"quick": False, "thorough": True}
TRUSTED = ["zoneinfo.ZoneInfo (C implementation) and the tzdata tables are the specification side; Spec/Zone.v models zoneinfo's lookups and is validated "
           "against it at every probe (zone-spec stream); tables are read through zoneinfo._zoneinfo (pure Python) by tools/vlib/zones.py",
           "the theorems assume wf_zone / wf2_zone of the table; the harness evaluates both on every window it feeds to the model and reports zones that fail them"]
ASSUMPTIONS = ["native datetime + timedelta resets fold to 0 (CPython behaviour, observed through the correspondence)",
               "zone windows of +-3 days around the probe are enough for the lookups (the oracle uses the full zoneinfo object, not the window)"]
ENTRIES = ["datetime", "convert", "tzdatetime", "set", "at", "replace", "parse"]


def _zones_for(tier, rnd):
    if tier == "thorough":
        return list(zones.names())
    return zones.pick_zones(rnd, 60)


def cases(tier, seed):
    rnd = random.Random(seed)
    out = []
    zs = _zones_for(tier, rnd)
    k = 0
    for name in zs:
        trs = T.transition_probes(name, rnd, per_zone=None if tier == "thorough" else 30)
        for (tt, o_pre, o_post) in trs:
            for W in T.wall_probes(tt, o_pre, o_post):
                if not (T.US_DAY * 3 < W < T.MAX_WALL - T.US_DAY * 3):
                    continue
                # zone model vs zoneinfo
                out.append({"stream": "zone-spec", "fn": "zone_probe", "args": [name, W // T.MEG - T.EPOCH_S - o_pre, W // T.MEG]})
                for f in (0, 1):
                    for r in (0, 1):
                        e = ENTRIES[k % len(ENTRIES)]
                        k += 1
                        if e in ("tzdatetime", "parse") and (f, r) != (1, 0):
                            e = "datetime"
                        if e in ("set", "at", "replace") and r:
                            e = "convert"
                        out.append({"stream": "transition-" + e, "fn": "create", "args": [name, W, f, r, e]})
    # fixed offsets and UTC
    for off in [0, 3600, -3600, 19800, 20700, -12600, 86340, -86340, 1, -1, 45 * 60, 14 * 3600]:
        for _ in range(6):
            W = rnd.randrange(T.US_DAY * 3, T.MAX_WALL - T.US_DAY * 3)
            for f in (0, 1):
                out.append({"stream": "fixed-offset", "fn": "create", "args": [off, W, f, rnd.randrange(2), ENTRIES[rnd.randrange(4)]]})
    # random wall tuples in named zones
    for _ in range(3000 if tier == "quick" else 60000):
        name = zs[rnd.randrange(len(zs))]
        W = rnd.randrange(T.US_DAY * 3, T.MAX_WALL - T.US_DAY * 3)
        f, r = rnd.randrange(2), rnd.randrange(2)
        e = ENTRIES[rnd.randrange(len(ENTRIES))]
        if e in ("tzdatetime", "parse") and (f, r) != (1, 0):
            e = "datetime"
        if e in ("set", "at", "replace") and r:
            e = "convert"
        out.append({"stream": "random-wall", "fn": "create", "args": [name, W, f, r, e]})
        out.append({"stream": "zone-spec-random", "fn": "zone_probe", "args": [name, W // T.MEG - T.EPOCH_S, W // T.MEG]})
    return out


def search_cases(seed):
    return [c for c in cases("thorough", seed) if c["fn"] == "create"][::3]


def nontrivial(c):
    return True


# ----------------------------------------------------------------------------- implementation
def _base(pendulum, tz, f, y, mo, d):
    """An instance in tz whose fold is f, far from the target (so that it is an ordinary time)."""
    b = pendulum.datetime(2000, 1, 15, 12, 0, 0, tz=tz)
    return b.replace(fold=f)


def impl_run(cases):
    import pendulum
    out = []
    for c in cases:
        fn, a = c["fn"], c["args"]
        try:
            if fn == "zone_probe":
                name, u, w = a
                tz = pendulum.timezone(name)     # pendulum's Timezone IS a zoneinfo.ZoneInfo subclass: probe it directly
                d = (_dt.datetime(1970, 1, 1, tzinfo=_dt.timezone.utc) + _dt.timedelta(seconds=u)).astimezone(tz)
                n0 = T.native(w * T.MEG, 0)
                out.append([0, T.off_s(d), d.fold, T.off_s(n0.replace(tzinfo=tz)), T.off_s(n0.replace(tzinfo=tz, fold=1)), 1, 1])   # the last two: wf_zone / wf2_zone of the window are expected to hold
                continue
            spec, W, f, r, e = a
            tz = T.pzone(spec)
            y, mo, d, h, mi, s, us = T.fields_of(W)
            if e == "datetime":
                res = pendulum.datetime(y, mo, d, h, mi, s, us, tz=tz, fold=f, raise_on_unknown_times=bool(r))
            elif e == "convert":
                res = tz.convert(_dt.datetime(y, mo, d, h, mi, s, us, fold=f), raise_on_unknown_times=bool(r))
            elif e == "tzdatetime":
                res = tz.datetime(y, mo, d, h, mi, s, us)
            elif e == "set":
                res = _base(pendulum, tz, f, y, mo, d).set(y, mo, d, h, mi, s, us)
            elif e == "at":
                b = _base(pendulum, tz, f, y, mo, d)
                b2 = b.set(year=y, month=mo, day=d)
                if (b2.year, b2.month, b2.day, b2.hour, b2.fold) != (y, mo, d, 12, f):
                    res = b.set(y, mo, d, h, mi, s, us)      # noon of that day is itself abnormal: fall back to set()
                else:
                    res = b2.at(h, mi, s, us)
            elif e == "replace":
                res = _base(pendulum, tz, 1 - f, y, mo, d).replace(year=y, month=mo, day=d, hour=h, minute=mi, second=s, microsecond=us, fold=f)
            elif e == "parse":
                res = pendulum.parse(f"{y:04d}-{mo:02d}-{d:02d}T{h:02d}:{mi:02d}:{s:02d}.{us:06d}", tz=tz)
            else:
                out.append([9])
                continue
            if e in ("convert", "tzdatetime"):
                out.append([0, T.wall_of(res), res.fold, T.off_s(res)] if res.tzinfo is tz else [7, 3])
            else:
                out.append(T.dt_result(res, tz.name))
        except Exception as ex:  # noqa
            out.append(T.exn_result(ex))
    return out


# ----------------------------------------------------------------------------- model
def model_calls(c, backend):
    fn, a = c["fn"], c["args"]
    if fn == "zone_probe":
        name, u, w = a
        lo, hi = min(u, w - T.EPOCH_S) - 90000, max(u, w - T.EPOCH_S) + 90000
        return [("zone_probe", T.zone_enc(name, lo, hi) + [u + T.EPOCH_S, w])]
    spec, W, f, r, e = a
    u = T.unix_of_wall(W)
    if e == "tzdatetime" or e == "parse":
        f, r = 1, 0
    if e in ("set", "at"):
        r = 0
    return [("create", T.zone_enc(spec, u - 90000, u + 90000) + [1 if isinstance(spec, int) else 0, W, f, r])]


def model_result(c, backend, outs):
    o = outs[0]
    return o


def same(c, m, r):
    return m == r


# ----------------------------------------------------------------------------- the property (stdlib zoneinfo only)
def oracle(c, backend, r):
    fn, a = c["fn"], c["args"]
    if fn == "zone_probe":
        return None
    spec, W, f, rz, e = a
    if e in ("tzdatetime", "parse"):
        f, rz = 1, 0
    if e in ("set", "at"):
        rz = 0
    tz = T.ref_zone(spec)
    w = W // T.MEG
    sols = T.solutions(tz, w)
    if r[0] not in (0, 1):
        return f"unexpected result {r}"
    if len(sols) == 1:
        exp = [0, W, None, sols[0][1]]
    elif len(sols) == 2:
        if rz:
            exp = [1, T.EXN["AmbiguousTime"]]
        else:
            u, o = sols[1] if f else sols[0]
            exp = [0, W, f, o]
    elif len(sols) == 0:
        if rz:
            exp = [1, T.EXN["NonExistingTime"]]
        else:
            g = T.gap_around(tz, w)
            if g is None:
                return f"oracle could not locate the gap around wall second {w}"
            tt, o_pre, o_post = g
            gap = o_post - o_pre
            exp = [0, W + gap * T.MEG, None, o_post] if f else [0, W - gap * T.MEG, None, o_pre]
    else:
        return f"oracle found {len(sols)} instants"
    if isinstance(spec, int):
        exp = [0, W, None, spec]
    if exp[0] == 1:
        return None if r == exp else f"{e}({spec}, wall={T.fields_of(W)}, fold={f}, raise=True): expected exception code {exp[1]}, got {r}"
    if r[0] != 0:
        return f"{e}({spec}, wall={T.fields_of(W)}, fold={f}, raise={bool(rz)}): raised code {r[1]}, expected wall {T.fields_of(exp[1])}"
    if r[1] != exp[1] or r[3] != exp[3] or (exp[2] is not None and r[2] != exp[2]):
        return (f"{e}({spec}, wall={T.fields_of(W)}, fold={f}, raise={bool(rz)}): got wall {T.fields_of(r[1])} fold {r[2]} offset {r[3]}, "
                f"the tz database gives wall {T.fields_of(exp[1])} fold {exp[2]} offset {exp[3]} ({len(sols)} instants render to the requested wall time)")
    # valid local time: survives a round trip through UTC with identical fields and offset
    nat = T.native(r[1], r[2], tz)
    back = nat.astimezone(_dt.timezone.utc).astimezone(tz)
    if T.wall_of(back) != r[1] or T.off_s(back) != r[3] or T.off_s(nat) != r[3]:
        return f"{e}({spec}, ...): result wall {T.fields_of(r[1])} fold {r[2]} does not survive a UTC round trip with identical fields/offset"
    return None


def known(c, backend, r):
    return None


LEVEL_TEXT = ("Machine-checked Coq theorems, for EVERY well-formed tz table and every wall value: the PEP 495 trichotomy of wall seconds (unique / two instants "
              "distinguished by fold / no instant), and for the model of Timezone.convert / DateTime.create: unique times returned as is with the database offset, "
              "repeated times denote the later instant with fold 1 and the earlier with fold 0, skipped times move forward (fold 1) or backward (fold 0) by exactly the "
              "gap onto an unambiguous wall time with the post/pre-transition offset, raise_on_unknown_times raises exactly for skipped/repeated, every returned value "
              "survives a UTC round trip. The model is tied to /repo by correspondence on every gap and overlap of the tz data through seven entry points, both backends.")
DESIGN_REF = "DESIGN.md section 4 C02, section 3.2"
LEVEL_NOTE = ("Trusted: Coq kernel+VM; Spec/Zone.v as a model of zoneinfo (validated against zoneinfo at every probe); the hand model Model/TzConvert.v of tz/timezone.py and "
              "DateTime.create (validated by correspondence); wf/wf2 of real tables is evaluated, not proved; extraction+driver cross-checked with vm_compute.")
TECHNIQUE = "Coq proof by induction over transition tables (lia) + differential correspondence at every tz transition"
