"""C09 — Duration normalisation is consistent with timedelta and with itself (also validates the shared Spec/TdFloat.v)."""
from __future__ import annotations

import math
import random

ID = "C09"
PROPS = "Props/C09.v"
RULE = ("seeded streams of integer argument tuples (years, months, weeks, days, hours, minutes, seconds, milliseconds, microseconds): "
        "all sign patterns of small components; random mixed-sign tuples with per-component magnitudes 1..10^7; sign-cancelling tuples whose "
        "total is 0, +-1us, +-(1s-1us), +-1s ...; negative totals with a sub-second part; years/months cancelled by days; totals within a few "
        "microseconds of 2^k seconds (k = 20..34), of the 2^32 s / 2^33 s domain borders and of timedelta.min/max (OverflowError); far-out-of-domain "
        "tuples (correspondence only). Every Duration case is also rebuilt from its own components. AbsoluteDuration on the same tuples. "
        "tdfloat-* streams compare each primitive of Spec/TdFloat.v (int->float, N/10^6, timedelta(seconds=float), int(), round(), %, divmod, + - * /) "
        "with CPython bit for bit on boundary-heavy floats; hrt-* streams validate the float round-trip hypotheses Hrt/Hsplit densely below the borders. "
        "A case is non-trivial when it is a distinct (function, argument) tuple with a non-zero argument.")
EXHAUSTIVE = {"quick": False, "thorough": False}
VM_SUBSET = 60
TRUSTED = [
    "Coq's SpecFloat (Floats.SpecFloat, prec 53 emax 1024) as the meaning of IEEE binary64 + - * / and the hand-written int()/round()/%/divmod/modf "
    "of Spec/TdFloat.v as the meaning of CPython's float operations: validated bit for bit by the tdfloat-* streams every run, not proved against Flocq",
    "Spec/TdFloat.v as the model of CPython's timedelta constructor / total_seconds() (validated by tdfloat-* streams)",
    "Hypothesis Hsplit of Proofs/C09Facts.v (section DurationExact): on the domain D9 the float pipeline of Duration.__new__ "
    "(N/10^6 correctly rounded, minus the year/month seconds, int(), % +-1, * 1e6, round()) recovers the exact integer split of the non-year/month part. "
    "It is NOT proved in Coq; the theorems that depend on it are named *_partial and carry it as an explicit premise; it is validated on every run by the "
    "dur-* / hrt-split streams (the model runs the real float pipeline, the oracle compares with exact integers). "
    "Hrt (timedelta(seconds=td.total_seconds()) == td for |td| < 2^33 s) is validated the same way by the hrt-roundtrip stream.",
    "closed float facts proved by kernel computation only on finite families (every N in -2000..2000 us, neighbourhoods of 2^k s up to the top of D9, the *_refuted witnesses); "
    "structural facts proved for all N (total_seconds(-N) = -total_seconds(N), abs, x - 0.0 = x); no general rounding-error lemma is proved (no Flocq)",
]
ASSUMPTIONS = [
    "arguments are Python ints (float arguments to Duration() are outside the statement)",
    "domain D9: (years = months = 0 and |N| < 2^33*10^6 us) or (|N_all| < 2^32*10^6 and |N_rest| < 2^32*10^6); outside it the float total cannot resolve a microsecond "
    "(boundary witnesses proved in Coq: *_refuted)",
    "CPython (non-PyPy) branch of duration.py",
]

US = 10 ** 6
DAY_US = 86400 * US
B33 = 2 ** 33 * US
B32 = 2 ** 32 * US
TD_MAX = 999999999
EXN = {1: "ValueError", 2: "TypeError", 3: "OverflowError", 6: "AttributeError", 8: "ZeroDivisionError"}


# ----------------------------------------------------------------------------- float <-> integers
def fcode(x):
    x = float(x)
    if x != x:
        return [6, 0, 0]
    if x == math.inf:
        return [4, 0, 0]
    if x == -math.inf:
        return [5, 0, 0]
    if x == 0:
        return [1, 0, 0] if math.copysign(1.0, x) < 0 else [0, 0, 0]
    m, e = math.frexp(abs(x))
    m = int(m * 2 ** 53)
    e -= 53
    if e < -1074:
        m >>= (-1074 - e)
        e = -1074
    return [3 if x < 0 else 2, m, e]


def fdecode(c):
    t, m, e = c
    if t == 0:
        return 0.0
    if t == 1:
        return -0.0
    if t in (2, 3):
        v = math.ldexp(m, e)
        return -v if t == 3 else v
    if t == 4:
        return math.inf
    if t == 5:
        return -math.inf
    return math.nan


# ----------------------------------------------------------------------------- case streams
# argument order of a "dur"/"abs" case: [years, months, weeks, days, hours, minutes, seconds, milliseconds, microseconds]
UNIT_US = [365 * DAY_US, 30 * DAY_US, 7 * DAY_US, DAY_US, 3600 * US, 60 * US, US, 1000, 1]


def n_all(a):
    return sum(x * u for x, u in zip(a, UNIT_US))


def n_rest(a):
    return sum(x * u for x, u in zip(a[2:], UNIT_US[2:]))


def split_us(n, rnd, with_ym=False):
    """A random mixed-sign argument tuple whose exact total (years/months excluded unless with_ym) is n microseconds."""
    a = [0] * 9
    rem = n
    idxs = list(range(0 if with_ym else 2, 8))
    rnd.shuffle(idxs)
    for i in idxs[:rnd.randrange(0, 5)]:
        lim = max(1, min(10 ** 7, abs(rem) // UNIT_US[i] + 3))
        v = rnd.randint(-lim, lim)
        if i < 2:
            v = rnd.randint(-300, 300)
        a[i] = v
        rem -= v * UNIT_US[i]
    # put the remainder in seconds + microseconds, sometimes with opposite signs
    if rnd.random() < 0.5:
        a[8] += rem
    else:
        s = rem // US + rnd.choice([0, 0, 1, -1, 2])
        a[6] += s
        a[8] += rem - s * US
    return a


def dur_cases(tier, seed):
    rnd = random.Random(seed * 7919 + 9)
    out = []
    scale = 1 if tier == "quick" else 8

    def add(stream, a, fn="dur"):
        out.append({"stream": stream, "fn": fn, "args": [int(x) for x in a]})
        if stream != "dur-out-of-domain" or rnd.random() < 0.3:
            if rnd.random() < 0.35:
                out.append({"stream": stream.replace("dur-", "abs-"), "fn": "abs", "args": [int(x) for x in a]})

    # 1. every sign pattern on small components
    vals = [-1, 0, 1]
    for code in range(3 ** 7):
        c, a = code, []
        for _ in range(7):
            a.append(vals[c % 3]); c //= 3
        if tier == "quick" and (code * 2654435761 + seed) % 5:
            continue
        y, w, d, h, mi, s, us = a
        add("dur-sign-patterns", [y, (code % 2) * (1 - 2 * (code % 4 // 2)), w, d * rnd.choice([1, 6, 8]), h * rnd.choice([1, 23, 25]),
                                  mi * rnd.choice([1, 59, 61]), s * rnd.choice([1, 59, 86399, 86401]), (code // 7 % 3 - 1) * rnd.choice([1, 999, 1001]),
                                  us * rnd.choice([1, 999999, 1000001, 500000])])
    # 2. random mixed-sign tuples
    for _ in range(6000 * scale):
        a = []
        for i in range(9):
            mag = rnd.choice([1, 10, 1000, 10 ** 6, 10 ** 7]) if i >= 2 else rnd.choice([1, 10, 100])
            a.append(rnd.randint(-mag, mag) if rnd.random() < 0.7 else 0)
        if abs(n_all(a)) > 3 * B33 and rnd.random() < 0.8:
            a[3] = rnd.randint(-10 ** 4, 10 ** 4); a[2] = rnd.randint(-10 ** 3, 10 ** 3)
        add("dur-random-mixed", a)
    # 3. sign-cancelling tuples: small totals built from large components
    smalls = [0, 1, -1, 2, -2, 499999, -499999, 500000, -500000, 500001, -500001, 999999, -999999, US, -US, US + 1, -US - 1, US - 1, 1 - US,
              59 * US + 999999, -(59 * US + 999999), 60 * US, -60 * US, 3600 * US - 1, 1 - 3600 * US, DAY_US - 1, 1 - DAY_US, DAY_US, -DAY_US,
              7 * DAY_US - 1, 1 - 7 * DAY_US, 7 * DAY_US, -7 * DAY_US]
    for _ in range(3000 * scale):
        n = rnd.choice(smalls) if rnd.random() < 0.7 else rnd.randint(-3 * US, 3 * US)
        add("dur-sign-cancelling", split_us(n, rnd))
    # 4. negative totals with a sub-second part
    for _ in range(3000 * scale):
        secs = rnd.choice([0, 1, 59, 60, 3599, 3600, 86399, 86400, 604799, 604800, rnd.randrange(0, 2 ** 32)])
        n = -(secs * US + rnd.choice([1, 2, 499999, 500000, 500001, 999998, 999999, rnd.randrange(1, US)]))
        if rnd.random() < 0.3:
            n = -n
        add("dur-negative-subsecond", split_us(n, rnd))
    # 5. years / months cancelled by days and vice versa
    for _ in range(3000 * scale):
        y, mo = rnd.randint(-130, 130), rnd.randint(-200, 200)
        a = split_us(rnd.choice(smalls + [rnd.randint(-10 ** 13, 10 ** 13)]), rnd)
        a[0], a[1] = y, mo
        if rnd.random() < 0.6:      # N_all small, N_rest large
            a[3] -= y * 365 + mo * 30
        add("dur-years-months-cancel", a)
    # 6. borders: 2^k seconds, the domain borders, timedelta range
    for k in list(range(18, 35)) + [32, 33, 32, 33]:
        for _ in range(12 * scale):
            n = rnd.choice([1, -1]) * (2 ** k * US + rnd.choice([0, 1, -1, 2, -2, 3, -3, rnd.randint(-50, 50), rnd.randint(-US, US)]))
            a = split_us(n, rnd)
            add("dur-borders-pow2", a)
            if k <= 32:
                b = split_us(n, rnd, with_ym=True)
                add("dur-borders-pow2", b)
    for _ in range(150 * scale):
        n = rnd.choice([1, -1]) * (TD_MAX * DAY_US + rnd.choice([0, DAY_US - 1, DAY_US, DAY_US + 1, -1, 1, rnd.randint(-2 * DAY_US, 2 * DAY_US)]))
        add("dur-timedelta-range", split_us(n, rnd) if rnd.random() < 0.5 else [0, 0, 0, n // DAY_US, 0, 0, 0, 0, n % DAY_US])
    # 6b. the band between D9 and 2^33 s with years/months (known finding ym-double-rounding lives here)
    add("dur-ym-band", [29, 21, 0, -59098, 0, 851846, 0, 364860, 0])
    add("dur-ym-band", [0, -31, 0, 16610, 828470, -714824, 218990, -328073, 6356])
    for _ in range(400 * scale):
        n = rnd.choice([1, -1]) * rnd.randrange(B32, B33)
        a = split_us(n, rnd)
        y, mo = rnd.randint(-130, 130), rnd.randint(-200, 200)
        a[0], a[1] = y, mo
        if rnd.random() < 0.5:
            a[3] -= y * 365 + mo * 30
        add("dur-ym-band", a)
    # 7. out of the domain (correspondence; the oracle checks only what does not depend on float resolution)
    add("dur-out-of-domain", [1000, 0, 0, 0, 0, 0, 0, 0, 1])
    add("dur-out-of-domain", [29, 21, 0, -59098, 0, 851846, 0, 364860, 0])
    add("dur-out-of-domain", [10 ** 20, 0, 0, -365 * 10 ** 20, 0, 0, 0, 0, 7])
    add("dur-out-of-domain", [10 ** 400, 0, 0, -365 * 10 ** 400, 0, 0, 0, 0, 7])
    for _ in range(1200 * scale):
        n = rnd.choice([1, -1]) * rnd.randrange(B32, TD_MAX * DAY_US)
        a = split_us(n, rnd, with_ym=rnd.random() < 0.7)
        add("dur-out-of-domain", a)
    return out


def rand_float(rnd):
    r = rnd.random()
    if r < 0.05:
        return rnd.choice([0.0, -0.0, 1.0, -1.0, 0.5, -0.5, 1.5, 2.5, -2.5, 1e6, 5e-324, -5e-324, 2.0 ** 52, 2.0 ** 53, 1e308, -1e308, 2.2250738585072014e-308,
                           math.inf, -math.inf, math.nan, 0.9999995, 0.9999994999999999, 1e-7, 4503599627370496.5])
    if r < 0.35:      # k + half, small integers, ties
        return rnd.choice([1, -1]) * (rnd.randrange(0, 10 ** rnd.randrange(1, 16)) + rnd.choice([0, 0.5, 0.25, 0.75, 0.5 - 2 ** -30, 0.5 + 2 ** -30]))
    if r < 0.7:       # seconds-like
        return rnd.choice([1, -1]) * rnd.randrange(0, 2 ** rnd.randrange(1, 45)) / 10 ** 6
    e = rnd.randrange(-1074, 1024) if r < 0.8 else rnd.randrange(-60, 70)
    if e - 52 >= -1074:
        return rnd.choice([1, -1]) * math.ldexp(rnd.randrange(2 ** 52, 2 ** 53), e - 52)
    return rnd.choice([1, -1]) * math.ldexp(rnd.randrange(1, 2 ** (e + 1075)), -1074)


def prim_cases(tier, seed):
    rnd = random.Random(seed * 104729 + 13)
    out = []
    scale = 1 if tier == "quick" else 8

    def add(stream, fn, args):
        out.append({"stream": stream, "fn": fn, "args": args, "backends": ["py"]})
    for _ in range(1500 * scale):
        n = rnd.choice([1, -1]) * rnd.randrange(0, 10 ** rnd.randrange(1, 21))
        add("tdfloat-td_norm", "td_norm", [n % (TD_MAX * DAY_US) if n >= 0 else -((-n) % (TD_MAX * DAY_US))])
        add("tdfloat-total_seconds", "total_seconds", [n % (TD_MAX * DAY_US) if n >= 0 else -((-n) % (TD_MAX * DAY_US))])
        add("tdfloat-float_of_int", "float_of_int", [rnd.choice([1, -1]) * rnd.randrange(0, 2 ** rnd.randrange(1, 130)) + rnd.choice([0, 1, -1])])
        add("tdfloat-ratio", "ratio", [rnd.choice([1, -1]) * rnd.randrange(0, 2 ** rnd.randrange(1, 200)), rnd.randrange(1, 2 ** rnd.randrange(1, 120))])
    for k in range(54, 70):          # int -> float ties around 2^54..2^70
        for j in (-2, -1, 0, 1, 2):
            add("tdfloat-float_of_int", "float_of_int", [2 ** k + 2 ** (k - 53) + j])
            add("tdfloat-float_of_int", "float_of_int", [-(2 ** k + 3 * 2 ** (k - 53) + j)])
    add("tdfloat-float_of_int", "float_of_int", [2 ** 1024]); add("tdfloat-float_of_int", "float_of_int", [2 ** 1024 - 2 ** 970]); add("tdfloat-float_of_int", "float_of_int", [2 ** 1024 - 2 ** 970 - 1])
    for _ in range(1200 * scale):
        a = [rnd.randint(-m, m) if rnd.random() < 0.7 else 0 for m in (10 ** 9, 10 ** 7, 10 ** 7, 10 ** 7, 10 ** 6, 10 ** 5, 10 ** 5)]
        if rnd.random() < 0.1:
            a[0] = rnd.choice([1, -1]) * (TD_MAX + rnd.choice([0, 1, -1])); a[1:] = [rnd.choice([0, 86399, 86400, -1]), rnd.choice([0, 999999, US, -1]), 0, 0, 0, 0]
        add("tdfloat-td_of_int_args", "td_int_args", a)
    for _ in range(4000 * scale):
        x = rand_float(rnd)
        add("tdfloat-timedelta_of_float", "td_float_secs", fcode(x))
        add("tdfloat-int_round", "int_round", fcode(x))
    # ties of accum(): seconds = k + (j + 0.5) / 10^6 is rarely exact; use values whose product with 1e6 has fraction exactly .5
    for _ in range(600 * scale):
        x = rnd.choice([1, -1]) * (rnd.randrange(0, 2 ** 20) + (rnd.randrange(0, 64) + 0.5) / 64)      # frac * 1e6 = (2j+1) * 7812.5
        add("tdfloat-timedelta_of_float", "td_float_secs", fcode(x))
        add("tdfloat-int_round", "int_round", fcode(x * 1e6 if rnd.random() < 0.5 else rnd.randrange(-10 ** 6, 10 ** 6) + 0.5))
    for _ in range(4000 * scale):
        x, y = rand_float(rnd), rand_float(rnd)
        if rnd.random() < 0.4:
            y = rnd.choice([1.0, -1.0, 1e6, 86400.0, 60.0, 7.0, 3600.0, 0.001, -7.0, 0.1, 2.0])
        add("tdfloat-mod_divmod", "mod_divmod", fcode(x) + fcode(y))
        add("tdfloat-arith", "arith", fcode(x) + fcode(y))
    return out


def hrt_cases(tier, seed):
    """Dense, boundary-heavy validation of the float hypotheses: Hrt (round trip through total_seconds) and Hsplit (Duration's own pipeline)."""
    rnd = random.Random(seed * 15485863 + 17)
    out = []
    n_rt = 12000 if tier == "quick" else 150000
    for i in range(n_rt):
        r = rnd.random()
        if r < 0.35:
            k = rnd.randrange(0, 34)
            n = 2 ** k * US + rnd.randint(-3000, 3000)
        elif r < 0.5:
            n = B33 - 1 - rnd.randrange(0, 10 ** 7)
        elif r < 0.6:
            n = rnd.randrange(0, B33 // US) * US + rnd.choice([0, 1, 2, 499999, 500000, 500001, 999998, 999999])
        elif r < 0.9:
            n = rnd.randrange(0, B33)
        else:
            n = rnd.randrange(B33, 315537897599999999)      # beyond the border: model still equals CPython; the oracle bound is 64 us
        if rnd.random() < 0.5:
            n = -n
        out.append({"stream": "hrt-roundtrip", "fn": "roundtrip", "args": [n], "backends": ["py"]})
    return out


def cases(tier, seed):
    return dur_cases(tier, seed) + prim_cases(tier, seed) + hrt_cases(tier, seed)


def search_cases(seed):
    return dur_cases("thorough", seed + 1)


def nontrivial(c):
    return any(c["args"])


# ----------------------------------------------------------------------------- implementation side
ACCESSORS = ("years", "months", "weeks", "_days", "remaining_days", "seconds", "hours", "minutes", "remaining_seconds", "microseconds", "invert")
TOTALS = ("total_seconds", "total_minutes", "total_hours", "total_days", "total_weeks")
INS = ("in_weeks", "in_days", "in_hours", "in_minutes", "in_seconds")


def _observe(D, sig, order=0):
    """order 0 reads the accessors in declaration order, 1 in reverse order, 2 smallest-unit-first with the in_* / total_* methods before the
    properties: several accessors are computed lazily and cached on the instance, and the value of one must not depend on which others were read before it."""
    from datetime import timedelta
    vals = {}
    names = list(ACCESSORS) + list(TOTALS) + list(INS)
    seq = names if order == 0 else names[::-1] if order == 1 else list(INS[::-1]) + list(TOTALS) + list(ACCESSORS[::-1])
    for n in seq:
        v = getattr(D, n)
        vals[n] = v() if callable(v) else v
    r = [timedelta.days.__get__(D), timedelta.seconds.__get__(D), timedelta.microseconds.__get__(D)]
    r += fcode(D._total)
    r += [int(vals[n]) for n in ACCESSORS]
    for n in TOTALS:
        r += fcode(vals[n])
    r += [vals[n] for n in INS]
    if sig:
        s = D._signature
        r += [s[k] for k in ("years", "months", "weeks", "days", "hours", "minutes", "seconds", "microseconds")]
    return [int(x) for x in r]


def _exn(e):
    n = type(e).__name__
    return [1, n if n in EXN.values() else "Exception:" + n]


def impl_run(cases):
    from datetime import timedelta
    out = []
    Duration = AbsoluteDuration = None
    for c in cases:
        fn, a = c["fn"], c["args"]
        try:
            if fn in ("dur", "abs"):
                if Duration is None:
                    from pendulum.duration import AbsoluteDuration, Duration
                y, mo, w, d, h, mi, s, ms, us = a
                kw = dict(years=y, months=mo, weeks=w, days=d, hours=h, minutes=mi, seconds=s, milliseconds=ms, microseconds=us)
                if fn == "abs":
                    o = _observe(AbsoluteDuration(**kw), False)
                    alt = [_observe(AbsoluteDuration(**kw), False, k) for k in (1, 2)]
                    out.append([0] + o if all(x == o for x in alt) else [8, "accessor-order"] + o + [x for x in alt if x != o][0])
                else:
                    D = Duration(**kw)
                    o = _observe(D, True)
                    alt = [_observe(Duration(**kw), True, k) for k in (1, 2)]
                    if any(x != o for x in alt):
                        out.append([8, "accessor-order"] + o + [x for x in alt if x != o][0])
                        continue
                    try:
                        D2 = Duration(years=D.years, months=D.months, weeks=D.weeks, days=D.remaining_days, hours=D.hours, minutes=D.minutes,
                                      seconds=D.remaining_seconds, microseconds=D.microseconds)
                        o += _observe(D2, True)
                    except Exception as e:  # noqa  (possible only outside the domain: the components exceed the timedelta range)
                        o += ["rebuild"] + _exn(e)
                    out.append([0] + o)
            # ---- CPython itself is the implementation for the TdFloat primitives
            elif fn == "td_norm":
                t = timedelta(microseconds=a[0])
                out.append([0, t.days, t.seconds, t.microseconds])
            elif fn == "td_int_args":
                t = timedelta(days=a[0], seconds=a[1], microseconds=a[2], milliseconds=a[3], minutes=a[4], hours=a[5], weeks=a[6])
                out.append([0, (t.days * 86400 + t.seconds) * US + t.microseconds])
            elif fn == "total_seconds":
                out.append([0] + fcode(timedelta(microseconds=a[0]).total_seconds()))
            elif fn == "float_of_int":
                out.append([0] + fcode(float(a[0])))
            elif fn == "ratio":
                out.append([0] + fcode(a[0] / a[1]))
            elif fn == "td_float_secs":
                t = timedelta(seconds=fdecode(a))
                out.append([0, (t.days * 86400 + t.seconds) * US + t.microseconds])
            elif fn == "int_round":
                x = fdecode(a)
                r = []
                for f in (int, round):
                    try:
                        r += [0, f(x)]
                    except Exception as e:  # noqa
                        r += _exn(e)
                out.append(r)
            elif fn == "mod_divmod":
                x, y = fdecode(a[:3]), fdecode(a[3:])
                r = []
                try:
                    r += [0] + fcode(x % y)
                except Exception as e:  # noqa
                    r += _exn(e)
                try:
                    q, m = divmod(x, y)
                    r += [0] + fcode(q) + fcode(m)
                except Exception as e:  # noqa
                    r += _exn(e)
                out.append(r)
            elif fn == "arith":
                x, y = fdecode(a[:3]), fdecode(a[3:])
                r = [0] + fcode(x + y) + fcode(x - y) + fcode(x * y)
                try:
                    r += fcode(x / y)
                except ZeroDivisionError:
                    r += [7, 0, 0]
                r += [int(x < y), int(x == y)]
                out.append(r)
            elif fn == "roundtrip":
                t = timedelta(microseconds=a[0])
                x = t.total_seconds()
                t2 = timedelta(seconds=x)
                out.append([0] + fcode(x) + [(t2.days * 86400 + t2.seconds) * US + t2.microseconds])
            else:
                out.append([9])
        except Exception as e:  # noqa
            out.append(_exn(e))
    return out


# ----------------------------------------------------------------------------- model side
def _margs(a):
    y, mo, w, d, h, mi, s, ms, us = a
    return [d, s, us, ms, mi, h, w, y, mo]


def model_calls(c, backend):
    fn, a = c["fn"], c["args"]
    if fn == "dur":
        return [("dur_new", _margs(a)), ("dur_rebuild", _margs(a))]
    if fn == "abs":
        return [("absdur_new", _margs(a))]
    if fn == "td_norm":
        return [("td_norm", a)]
    if fn == "td_int_args":
        return [("td_of_int_args", a)]
    if fn == "total_seconds":
        return [("total_seconds", a)]
    if fn == "float_of_int":
        return [("sf_of_Z", a)]
    if fn == "ratio":
        return [("sf_of_ratio", a)]
    if fn == "td_float_secs":
        return [("td_of_float_seconds", a)]
    if fn == "int_round":
        return [("py_int_trunc", a), ("py_round", a)]
    if fn == "mod_divmod":
        return [("py_float_mod", a), ("py_float_divmod", a)]
    if fn == "arith":
        return [("fadd", a), ("fsub", a), ("fmul", a), ("fdiv", a), ("flt", a)]
    if fn == "roundtrip":
        return [("roundtrip", a)]
    return None


def _res(o):
    if o[0] == 1:
        return [1, EXN.get(o[1], "code%d" % o[1])]
    return list(o)


def model_result(c, backend, outs):
    fn = c["fn"]
    if fn == "dur":
        a, b = _res(outs[0]), _res(outs[1])
        if a[0] != 0:
            return a
        if b[0] != 0:
            return a + ["rebuild"] + b
        return a + b[1:]
    if fn == "int_round":
        return _res(outs[0]) + _res(outs[1])
    if fn == "mod_divmod":
        return _res(outs[0]) + _res(outs[1])
    if fn == "arith":
        x, y = fdecode(c["args"][:3]), fdecode(c["args"][3:])
        dv = outs[3][1:]
        if y == 0:
            dv = [7, 0, 0]          # Python raises ZeroDivisionError where IEEE gives inf/nan
        return [0] + outs[0][1:] + outs[1][1:] + outs[2][1:] + dv + outs[4][1:]
    return _res(outs[0])


def same(c, m, r):
    return m == r


# ----------------------------------------------------------------------------- the property itself (stdlib only)
def _trunc_div(a, b):
    q = abs(a) // b
    return q if a >= 0 else -q


def in_domain(a):
    """D9 of Props/C09.v"""
    na, nr = n_all(a), n_rest(a)
    if 365 * a[0] + 30 * a[1] == 0:
        return abs(na) < B33
    return abs(na) < B32 and abs(nr) < B32


L_TOT, L_Y, L_W, L_H, L_US, L_INV, L_TS, L_IN, L_SIG, L_LEN = 3, 6, 8, 12, 15, 16, 17, 32, 37, 45


def _check_totals(o, N, exact, who="", absolute=False):
    from fractions import Fraction
    ts = fdecode(o[L_TS:L_TS + 3])
    want = float(Fraction(abs(N) if absolute else N, US))
    if fcode(ts) != fcode(want):
        return f"{who}total_seconds() = {ts!r}, exact N/10^6 correctly rounded is {want!r}"
    tm, th, tdd, tw = (fdecode(o[L_TS + 3 * i:L_TS + 3 * i + 3]) for i in (1, 2, 3, 4))
    for name, got, exp in (("total_minutes", tm, ts / 60), ("total_hours", th, ts / 3600), ("total_days", tdd, ts / 86400), ("total_weeks", tw, ts / 86400 / 7)):
        if fcode(got) != fcode(exp):
            return f"{who}{name}() = {got!r} is not total_seconds()/k = {exp!r}"
    iw, idd, ih, im, is_ = o[L_IN:L_IN + 5]
    for name, got, f, k in (("in_weeks", iw, tw, 604800), ("in_days", idd, tdd, 86400), ("in_hours", ih, th, 3600), ("in_minutes", im, tm, 60), ("in_seconds", is_, ts, 1)):
        if got != int(f):
            return f"{who}{name}() = {got} is not int(total) = {int(f)}"
        if exact and got != _trunc_div(abs(N) if absolute else N, k * US):
            return f"{who}{name}() = {got}, exact truncation gives {_trunc_div(N, k * US)}"
    return None


def _check_components(o, R, who=""):
    comps = o[L_W:L_W + 1] + [o[10]] + o[L_H:L_H + 4]       # weeks, remaining_days, hours, minutes, remaining_seconds, microseconds
    sg = (R > 0) - (R < 0)
    names = ("weeks", "remaining_days", "hours", "minutes", "remaining_seconds", "microseconds")
    for nm, v, lim in zip(names, comps, (None, 7, 24, 60, 60, US)):
        if (v > 0) - (v < 0) not in (0, sg):
            return f"{who}{nm} = {v} does not carry the sign of the non-year/month part ({R} us)"
        if lim and abs(v) >= lim:
            return f"{who}{nm} = {v} outside the canonical range (< {lim})"
    w, rd, h, mi, s, us = comps
    S = ((((w * 7 + rd) * 24 + h) * 60 + mi) * 60 + s) * US + us
    if S != R:
        return f"{who}components sum to {S} us, the non-year/month part is {R} us (diff {S - R})"
    return None


def oracle(c, backend, r):
    from datetime import timedelta
    fn, a = c["fn"], c["args"]
    if fn in ("dur", "abs"):
        y, mo, w, d, h, mi, s, ms, us = a
        try:
            if fn == "dur":
                td = timedelta(days=d + 365 * y + 30 * mo, weeks=w, hours=h, minutes=mi, seconds=s, milliseconds=ms, microseconds=us)
            else:
                td = timedelta(days=d, weeks=w, hours=h, minutes=mi, seconds=s, milliseconds=ms, microseconds=us)
        except OverflowError:
            return None if r[:2] == [1, "OverflowError"] else f"native timedelta overflows, Duration gave {r[:3]}"
        if r[0] == 8:
            n = (len(r) - 2) // 2
            k = next(i for i in range(n) if r[2 + i] != r[2 + n + i])
            return (f"the accessors of two Durations built from the same arguments differ when they are read in another order (lazily cached "
                    f"components): observation slot {k}: {r[2 + k]} reading biggest-unit-first, {r[2 + n + k]} otherwise")
        if r[0] != 0:
            if fn == "dur" and r[:2] == [1, "OverflowError"] and abs((365 * y + 30 * mo) * 86400) >= 2 ** 1023:
                return None        # float - int with an int beyond the float range
            return f"raised {r[1]} where the native timedelta is {td!r}"
        o = r[1:]
        N = (td.days * 86400 + td.seconds) * US + td.microseconds
        if o[0:3] != [td.days, td.seconds, td.microseconds]:
            return f"native value {o[0:3]} differs from timedelta of the same arguments {[td.days, td.seconds, td.microseconds]}"
        if fn == "dur":
            if o[L_Y:L_Y + 2] != [y, mo]:
                return f"years/months reported {o[L_Y:L_Y + 2]}, given {[y, mo]}"
            if o[L_SIG:L_SIG + 8] != [y, mo, w, d, h, mi, s, us + ms * 1000]:
                return f"_signature {o[L_SIG:L_SIG + 8]} does not record the arguments"
            R = N - (365 * y + 30 * mo) * DAY_US
            dom = in_domain(a)
            why = _check_totals(o, N, exact=abs(N) < B33)
            if why:
                return why
            if o[L_INV] != int(N < 0):
                return f"invert = {o[L_INV]} for N = {N}"
            if not (abs(N) < B33 and abs(R) < B33):
                return None        # beyond float resolution: boundary of the claim (components_sum_outside_D9_refuted)
            # inside D9 this must hold; in the band D9 < . < 2^33 s with years/months it fails by one microsecond: known finding ym-double-rounding
            why = _check_components(o, R)
            if why:
                return why
            if o[11] != (abs(R) // US % 86400) * (-1 if R < 0 else 1) or o[9] != (abs(R) // DAY_US) * (-1 if R < 0 else 1):
                return f"_seconds/_days = {o[11]}/{o[9]} inconsistent with the non-year/month part {R}"
            o2 = o[L_LEN:]
            if o2[:1] == ["rebuild"]:
                return f"rebuilding from the components raised {o2[2]}"
            if o2[:L_TOT] != o[:L_TOT] or o2[L_Y:L_INV + 1] != o[L_Y:L_INV + 1]:
                return f"rebuilding from the components gives native {o2[:3]} components {o2[L_Y:L_INV]}, original native {o[:3]} components {o[L_Y:L_INV]}"
            return None
        # AbsoluteDuration
        why = _check_totals(o, N, exact=abs(N) < B33, who="AbsoluteDuration.", absolute=True)
        if why:
            return why
        if o[L_Y:L_Y + 2] != [abs(y), abs(mo)] or o[L_INV] != int(N < 0):
            return f"AbsoluteDuration years/months/invert = {o[L_Y:L_Y + 2]}/{o[L_INV]}"
        if abs(N) < B33:
            why = _check_components(o, abs(N), who="AbsoluteDuration.")
            if why:
                return why
        return None
    if fn == "roundtrip":
        n = a[0]
        if r[0] != 0:
            return f"raised {r[1]}"
        back = r[4]
        if abs(n) < B33 and back != n:
            return f"Hrt fails: timedelta(seconds=timedelta(microseconds={n}).total_seconds()) = {back} us"
        if abs(back - n) > 64:
            return f"round trip of {n} us deviates by {back - n} us (> 64)"
        return None
    return None


def known(c, backend, r):
    """ym-double-rounding: years/months present, max(|N|, |R|) in [2^32, 2^33) s, and the ONLY thing wrong is one microsecond in `microseconds`."""
    if c["fn"] != "dur" or not r or r[0] != 0:
        return None
    a = c["args"]
    N, R = n_all(a), n_rest(a)
    if 365 * a[0] + 30 * a[1] != 0 and not in_domain(a) and B32 <= max(abs(N), abs(R)) < B33:
        why = _check_components(r[1:], R)
        if why and (why.endswith("(diff 1)") or why.endswith("(diff -1)")):
            return "ym-double-rounding"
    return None


LEVEL_TEXT = ("Machine-checked Coq theorems about an executable SpecFloat model of Duration.__new__/AbsoluteDuration.__new__ (bit-for-bit equal to the implementation in both backends "
              "on every run): native value = exact timedelta arithmetic with year = 365 d and month = 30 d (all integers, no bound), years/months as given, and - given the float "
              "round-trip premise Hsplit, validated densely each run - sign, canonical ranges, exact sum, rebuild, in_seconds and AbsoluteDuration; instances of the premise and the sharpness of its domain are proved by kernel computation.")
DESIGN_REF = "DESIGN.md section 4 C09, section 3.3"
LEVEL_NOTE = ("The float exactness lemma (Hsplit/Hrt) is a Section hypothesis, not an axiom: theorems depending on it are *_partial and state it as a premise. "
              "Boundary of the claim (float resolution) is proved by *_refuted witnesses.")
TECHNIQUE = "Coq proof (lia over the integer skeleton, vm_compute witnesses) over a SpecFloat model; differential correspondence vs CPython for the float layer; exact-integer oracle"


# the float premise has since been PROVED (coq/Proofs/FloatRoundTrip*.v): the unconditional theorems of Props/C09.v depend on these standard-library axioms
TRUSTED = list(TRUSTED) + [
    "Flocq (installed library) correctness theorems for binary64 operations, bridged to Coq's SpecFloat in coq/Proofs/FloatRoundTripBase.v",
    "standard-library axioms reported by Print Assumptions for the float theorems only: ClassicalDedekindReals.sig_not_dec, ClassicalDedekindReals.sig_forall_dec, "
    "FunctionalExtensionality.functional_extensionality_dep, Classical_Prop.classic (the real-number axioms Flocq and Reals rest on); the integer theorems are closed under the global context",
]
LEVEL_NOTE = LEVEL_NOTE + (" Update: the float round-trip premise float_split_exact_on_D9 is now a theorem (Flocq); the *_partial theorems are kept and their unconditional forms "
                           "(construction, components_sign_ranges_sum, rebuild_from_components, in_seconds_exact, absolute_duration_spec) are proved from it; they depend on the standard real-number axioms.")


# the hand model Model/Duration.v is proved equal to a translation of /repo's float code that is regenerated on every run
TRUSTED = list(TRUSTED) + [
    "tools/vlib/pyfloat2gallina.py + tools/vlib/gens/g51_duration_float.py (Python ast -> Gallina for the float fragment of duration.py: CPython's int/float typing and "
    "conversion points, evaluation order, floor // and % only by static non-zero constants, float < > == against static int constants, every raising operation a bind, "
    "`if PYPY:` blocks skipped, lazily cached properties read as their first evaluation on a fresh object, method resolution Duration/AbsoluteDuration on d_abs; "
    "fails closed outside the fragment): its reading rules replace the former trust in the hand transcription of Model/Duration.v, which is now PROVED equal to the "
    "translation (model_is_code_duration_new / model_is_code_duration_accessors / model_is_code_absolute_duration, all arguments, closed under the global context)",
]
LEVEL_NOTE = LEVEL_NOTE + (" Model = code: coq/Gen/DurationFloat.v is translated from src/pendulum/duration.py on every run (Duration.__new__ and AbsoluteDuration.__new__ on integer "
                           "arguments, _sign, hours/minutes/remaining_seconds, total_*(), invert, in_*()) and Proofs/DurationFloatFacts.v proves it equal to Model/Duration.v for all "
                           "arguments, so a semantic edit of that code breaks a proof (self-tested with five mutations: `total < 0` -> `<= 0`, `% m` dropped, 1e6 -> 1e3, abs() removed, "
                           "SECONDS_PER_DAY replaced) rather than only a source pin. Not translated: the float-`seconds` constructor path used by + - * (Model/DurationOps.duration_new_fsec), "
                           "_to_microseconds and __neg__ (integer code: translated by g50 for C10).")

LEVEL_NOTE = LEVEL_NOTE + (" Update: the float-`seconds` constructor path (Duration(seconds=<float>, years=, months=)) is translated as well (Gen/DurationOpsFloat.gen_duration_new_fsec, "
                           "Spec/TdFloatMixed.td_of_days_fsec) and proved equal to Model/DurationOps.duration_new_fsec: Props/C10.v model_is_code_duration_new_fsec.")
