"""C18 — human-readable differences are total, localized and correctly directed."""
from __future__ import annotations

import ast
import itertools
import os
import random
import re

ID = "C18"
PROPS = "Props/C18.v"
VM_SUBSET = 120
RULE = ("fmt-grid: every shipped locale x 7 units x counts (0..130 + plural-class boundaries in quick, 0..1000 in thorough) x {now, other} x {past, future} x "
        "{absolute, relative}, the count placed in the unit's component of a duck-typed difference object passed to pendulum.format_diff; "
        "fmt-boundary: component records at every rounding threshold (+-1) x all flags x all locales (seed-rotated subset of the product in quick); "
        "words: Duration.in_words / Interval.in_words on component records of either sign, microsecond-only and zero durations, all locales; "
        "tokens: every locale x 12 months x 7 weekdays x AM/PM x all locale-dependent tokens; plural/ordinal: lambdas on 0..1200 and large values; "
        "instants: random and boundary pairs of instants in one zone through diff_for_humans(other)/Date/Time and real Duration/Interval objects; "
        "instants-xz: the two instants written in DIFFERENT zones (negative and positive non-whole-hour offsets: St_Johns, Marquesas, Caracas, Kathmandu, Lord_Howe, "
        "Chatham, fixed -23:59..+23:59), a deterministic block of negative odd offsets x 4 partner zones x 7 spans, the witnesses of the listed findings "
        "(wall-clock order inside a repeated hour, mis-carried UTC shift of the compiled helper) and of the repaired finding interval-init-drops-fold, whose region is "
        "now an ordinary deterministic block: endpoints that are the SECOND occurrence of a repeated wall time (8 overlaps of Paris, New_York, St_Johns, Lord_Howe, Chatham, "
        "Kolkata 1945; as reference and as instance) x 6 partner zones incl. the zone itself x 6 spans, both directions; random pairs with spans "
        "from 1 s to 13 years; both instants streams are INSIDE the model (Model/DiffHumans.v: components, invert and phrase are compared per backend); "
        "session: ONE case = a whole history of the process executed in order — set_locale with shipped names in several spellings, with names that are REJECTED "
        "(unknown, not a str), get_locale, pendulum.locale, and rendering calls with and without a locale argument (format_diff, in_words, format tokens on duck-typed "
        "records: modelled by the state machine Model/LocaleSession.v; diff_for_humans of real DateTime/Date/Time and str(duration): oracle only) — per shipped locale, "
        "the shortest reject-then-render histories, and random histories; "
        "default-locale: calls without a locale argument and without any set_locale of their own must equal the same call with locale=get_locale() (oracle only; "
        "its canonical result is independent of the configured locale, so the runner's history passes — after rejected configuration calls, under another configuration — apply). "
        "instants-native: the reference / an endpoint handed in as a NATIVE value — stdlib aware datetime carrying zoneinfo.ZoneInfo, datetime.timezone(offset) or "
        "datetime.timezone.utc, stdlib naive datetime, stdlib date — through x.diff_for_humans(native) / x.diff(native) and pendulum.interval(x, y, absolute) with "
        "(native, native), (pendulum, native), (native, pendulum) endpoints rendered by format_diff and in_words; same zone on one calendar day and across days, "
        "different zones, fixed offsets, both directions, a deterministic block (~330 items) + 360 random items in quick (5000 in thorough), all for en and 14 per other "
        "locale; INSIDE the model (Model/DiffHumansNative.v: the values as Interval.__new__ sees them and as Interval.__init__ keeps them, components, invert, phrase and "
        "words compared per backend) except the pure-Python backend inside the region of finding py-native-endpoint-shift (oracle only there); the oracle demands the "
        "direction and the documented rounding of the TRUE elapsed time (exact components below 28 days when compared in UTC, within one unit elsewhere). "
        "A case is non-trivial when it is a distinct (function, argument) tuple; model (extracted Coq) and implementation are compared string for string, "
        "and the stdlib oracle re-derives the admissible phrases from the locale files parsed with ast.")
EXHAUSTIVE = {"quick": False, "thorough": True}
TRUSTED = ["string.Formatter().parse (CPython's own str.format field parser) is used by the generator to split templates into literal text and replacement fields",
           "Coq.Floats.SpecFloat.SFdiv (binary64) models abs(us)/1e6 and '%.2f' is modelled as exact round-half-even of that double (validated by the words-us stream)",
           "the key-construction part of DifferenceFormatter.format and in_words are hand models (coq/Model/DiffFormat.v): the generator pins the source text of that part, "
           "the correspondence run compares every output string",
           "set_locale / get_locale / Locale.load / Locale.normalize_locale (ASCII names) and the `locale is None` defaults are a hand model (coq/Model/LocaleSession.v) "
           "compared output by output on whole call histories (stream session); these functions are not yet in tools/pins.json",
           "Interval's endpoint ordering, native rebuild (with the operand's fold) and component properties, and both precise_diff backends are the C06 models (Model/PdBase.v, "
           "PdInterval.v, RustPreciseDiff.v, Gen/PreciseDiff.v) composed in coq/Model/DiffHumans.v; local wall fields and offsets of the operands are computed by "
           "the harness with datetime + zoneinfo and checked against what pendulum reports"]
ASSUMPTIONS = ["difference objects carry integer components (years, months, weeks, remaining_days, hours, minutes, remaining_seconds) as produced by Duration/Interval",
               "locale names are ASCII (Locale.normalize_locale is modelled on ASCII code points; str.lower / re.I on non-ASCII names are outside the model), and names that "
               "name something other than a locale directory inside pendulum/locales ('', '__pycache__') are outside the session streams",
               "one tzinfo object per zone name (pendulum.timezone caches named and fixed zones), which is how the harness builds its operands"]

REPO = os.environ.get("VERIF_REPO", "/repo")
UNITS = ["year", "month", "week", "day", "hour", "minute", "second"]
TOKENS = ["MMM", "MMMM", "dd", "ddd", "dddd", "e", "Do", "do", "Mo", "eo", "A"]       # model token ids 0..10
DATE_FORMATS = ["LTS", "LT", "L", "LL", "LLL", "LLLL"]
EXN = {1: "ValueError", 2: "TypeError", 3: "OverflowError", 4: "IndexError", 6: "AttributeError", 7: "KeyError", 15: "Unmodelled"}
FLAGS = [(inv, now, ab) for inv in (0, 1) for now in (0, 1) for ab in (0, 1)]
ZONES = ["UTC", "Europe/Paris", "America/New_York", "Pacific/Kiritimati", "Asia/Kolkata"]
# cross-zone pairs: offsets that are negative and not whole hours (St_Johns -03:30/-02:30, Marquesas -09:30, Caracas -04:30 in 2007..2016, LMT before
# the 1880s), positive odd ones, both ends of the range; an int is a fixed offset in seconds (pendulum.timezone(int), named "+HH:MM")
XZONES = ZONES + ["America/St_Johns", "Pacific/Marquesas", "America/Caracas", "Asia/Kathmandu", "Australia/Lord_Howe", "Pacific/Chatham",
                  -12600, -34200, -900, 900, 20700, -86340, 86340, 50400, -43200, -16200, 3600]
NEG_ODD = ["America/St_Johns", "Pacific/Marquesas", -12600, -900, -16200, -86340]


# ----------------------------------------------------------------------------- locale files, read with ast (never imported)
_LOC = {}


def locale_names():
    root = os.path.join(REPO, "src", "pendulum", "locales")
    return sorted(d for d in os.listdir(root) if os.path.isfile(os.path.join(root, d, "locale.py")))


def _lit(node, imports, depth=0):
    if isinstance(node, ast.Dict):
        return {_lit(k, imports): _lit(v, imports) for k, v in zip(node.keys, node.values)}
    if isinstance(node, ast.Constant):
        return node.value
    if isinstance(node, ast.Lambda):
        return None
    if isinstance(node, ast.Name) and node.id in imports and depth == 0:
        mod, name = imports[node.id]
        p = os.path.join(REPO, "src", *mod.split(".")) + ".py"
        return _module_value(p, name, depth + 1)
    raise ValueError("locale data: " + ast.dump(node)[:80])


def _module_value(path, name, depth=0):
    tree = ast.parse(open(path, encoding="utf-8").read())
    imports, val = {}, None
    for st in tree.body:
        if isinstance(st, ast.ImportFrom):
            for al in st.names:
                imports[al.asname or al.name] = (st.module, al.name)
        elif isinstance(st, ast.Assign) and st.targets[0].id == name:
            val = st.value
    return _lit(val, imports, depth)


def locale_data(loc):
    if loc not in _LOC:
        _LOC[loc] = _module_value(os.path.join(REPO, "src", "pendulum", "locales", loc, "locale.py"), "locale")
    return _LOC[loc]


def _get(d, *path):
    for p in path:
        if not isinstance(d, dict) or p not in d:
            return None
        d = d[p]
    return d


# ----------------------------------------------------------------------------- cases
def _grid_counts(tier, rnd):
    if tier == "thorough":
        return [(0, 1001)]
    return [(0, 131), (198, 206), (998, 1001)]


def _boundary_records(rnd, tier):
    ys, mos = [0, 1, 2, 5], [0, 1, 6, 7, 10, 11, 12]
    ws, ds = [0, 1, 2, 3, 4], [0, 1, 3, 4, 5, 6]
    hs, mis, ss = [0, 1, 21, 22, 23], [0, 1, 59], [0, 1, 10, 11, 59, 60]
    full = list(itertools.product(ys, mos, ws, ds, hs, mis, ss))
    if tier != "thorough":
        # the thresholds interact only between adjacent components: keep records where at most 3 components are non-zero, plus a random sample
        keep = [r for r in full if sum(1 for x in r if x) <= 2]
        keep += rnd.sample(full, 1500)
        full = sorted(set(keep))
    # days thresholds 15/16 and 26/27 are reached through weeks*7 + remaining_days
    extra = [(0, mo, w, d, h, 0, 0) for mo in (0, 1, 11) for w in (2, 3) for d in (0, 1, 2, 5, 6) for h in (0, 22)]
    extra += [(y, mo, 0, 0, 0, 0, 0) for y in (0, 1, 3) for mo in range(0, 13)]
    extra += [(0, 0, 0, 0, 0, 0, s) for s in range(-2, 62)]
    extra += [(-1, 0, 0, 0, 0, 0, 0), (0, -2, 0, 0, 0, 0, 0), (0, 0, 0, -3, 0, 0, 0), (0, 0, 0, 0, 0, 0, -30), (0, 0, -1, -2, -3, -4, -5)]
    return sorted(set(full + extra))



# ----------------------------------------------------------------------------- sessions: the process-wide default locale as a state machine
# unknown names: not shipped, and not turned into a shipped name by Locale.normalize_locale (which only looks at the first five characters
# of an xx-yy / xx_yy name); ASCII letters, '-' and '_' only
UNKNOWN_NAMES = ["tlh", "xx", "xx_YY", "xx-yy", "fr_ca", "de_AT", "eng", "english", "e", "EN_", "en-", "zz_zz", "français".encode("ascii", "ignore").decode(),
                 "pt", "pt_pt", "ptbr", "no", "uk", "cz", "zh_cn", "en_u", "C", "POSIX", "klingon"]


def _norm_name(name):
    """the documented normal form of a locale name: case-insensitive, '-' or '_' between language and territory"""
    m = re.match(r"([A-Za-z]{2})[-_]([A-Za-z]{2})", name)
    if m:
        return (m.group(1) + "_" + m.group(2)).lower()
    return name.lower()


def _aliases(loc, rnd):
    """spellings of a shipped name that must load the same locale"""
    out = [loc, loc.upper(), loc.capitalize()]
    if "_" in loc:
        a, b = loc.split("_")
        out += [a + "-" + b, a + "-" + b.upper(), a.upper() + "_" + b, a + "_" + b.upper()]
    return out


def _render_ops(rnd, loc, year):
    """one of each kind of rendering call; loc None = no locale argument (the configured locale is used)"""
    rec = rnd.choice([[0, 0, 0, 3, 0, 0, 0], [0, 2, 0, 0, 0, 0, 0], [1, 7, 0, 0, 0, 0, 0], [0, 0, 2, 4, 0, 0, 0], [0, 0, 0, 0, 5, 1, 0], [0, 0, 0, 0, 0, 42, 0],
                      [0, 0, 0, 0, 0, 0, 30], [0, 0, 0, 0, 0, 0, 3], [0, 11, 2, 3, 0, 0, 0], [0, 0, 0, 1, 22, 0, 0], [21, 0, 0, 0, 0, 0, 0], [0, 0, 0, 0, 101, 0, 0]])
    inv, now, ab = rnd.choice(FLAGS)
    wrec = [rnd.choice([0, 0, 1, 2, 5, 21]) for _ in range(7)]
    st = [rnd.randrange(1990, 2040), rnd.randrange(1, 13), rnd.randrange(1, 29), rnd.randrange(24), rnd.randrange(60), rnd.randrange(60)]
    span = rnd.choice([5, 42, 3000, 18060, 3 * 86400, 9 * 86400 + 7200, 70 * 86400, 800 * 86400])
    return [["fmt", loc, rec, inv, now, ab],
            ["words", loc, wrec, rnd.choice([0, 0, 125000]), rnd.choice([" ", ", "]), rnd.choice(["D", "I"])],
            ["tok", loc, rnd.randrange(len(TOKENS)), year, rnd.randrange(1, 13), rnd.randrange(1, 29), rnd.choice([3, 15])],
            ["dfh", loc, rnd.choice(["dt", "dt", "date", "time"]), st, span, rnd.choice(ZONES), rnd.choice([0, 1]), rnd.choice([0, 0, 1])],
            ["str", [rnd.choice([0, 1]), rnd.choice([0, 2]), 0, rnd.randrange(0, 9), rnd.randrange(0, 24), rnd.randrange(0, 60), rnd.randrange(0, 60)]]]


def _sessions(tier, seed, rnd, locs):
    """Each session is ONE case: the whole operation sequence runs in the process, so a replay is self-contained.  Every session starts by
    setting the locale explicitly (it does not depend on what ran before) and the harness restores the previous configuration afterwards."""
    out = []
    year = 2000 + seed % 25
    unknown = [n for n in UNKNOWN_NAMES if _norm_name(n) not in locs]
    # deterministic pattern per shipped locale: set it, render, try names that are REJECTED (str and non-str), render again, read it back
    for li, loc in enumerate(locs):
        alias = rnd.choice(_aliases(loc, rnd))
        other = locs[(li + 7) % len(locs)]
        ops = [["set", "en"], ["set", alias], ["get"]] + _render_ops(rnd, None, year)
        ops += [["set", rnd.choice(unknown)], ["get"]] + _render_ops(rnd, None, year)
        ops += [["load", rnd.choice(unknown)], ["setbad", rnd.choice(["none", "int", "bytes", "list"])], ["set", unknown[(li + seed) % len(unknown)]]]
        ops += [["get"]] + _render_ops(rnd, None, year)[:3] + _render_ops(rnd, other, year)[:3] + [["get"], ["fmt", None, [0, 0, 0, 0, 0, 0, 5], 1, 1, 0]]
        out.append(ops)
    # the shortest histories: a rejected call right after the default, or after one successful set (the usual "try the user's locale, keep the
    # current one on ValueError" pattern), then ONE call that relies on the configured locale
    shorts = []
    for i, name in enumerate(n for n in UNKNOWN_NAMES if _norm_name(n) not in locs):
        r1 = _render_ops(rnd, None, year)
        shorts.append([["set", "en"], ["set", name], r1[i % 3]])
        shorts.append([["set", locs[(i * 5 + seed) % len(locs)]], ["set", name], r1[(i + 1) % 3], ["get"]])
        shorts.append([["set", "en"], ["setbad", ["none", "int", "bytes", "list"][i % 4]], r1[(i + 2) % 3], ["get"]])
        # a rejected pendulum.locale(name) must not leave anything behind in Locale._cache that makes the same name acceptable (or fatal) later
        shorts.append([["set", "en"], ["load", name], ["set", name], ["load", name], r1[i % 3], ["get"]])
    out = shorts + out
    # random histories
    n = 40 if tier == "quick" else 600
    for _ in range(n):
        ops = [["set", "en"]]
        for _k in range(rnd.randrange(6, 16)):
            x = rnd.random()
            good = rnd.choice(_aliases(rnd.choice(locs), rnd))
            bad = rnd.choice(unknown)
            if x < 0.18:
                ops.append(["set", good])
            elif x < 0.36:
                ops.append(["set", bad])
            elif x < 0.42:
                ops.append(["setbad", rnd.choice(["none", "int", "bytes", "list"])])
            elif x < 0.50:
                ops.append(["load", rnd.choice([good, bad])])
            elif x < 0.58:
                ops.append(["get"])
            else:
                loc = None if rnd.random() < 0.7 else rnd.choice([good, good, bad])
                ops.append(rnd.choice(_render_ops(rnd, loc, year)))
        ops += [["get"]] + _render_ops(rnd, None, year)[:2]
        out.append(ops)
    return [{"stream": "session", "fn": "session", "args": [ops]} for ops in out]


def _default_locale_cases(tier, seed, rnd):
    """Calls WITHOUT a locale argument and without any set_locale of their own: whatever history the process has (the runner re-runs a sample of
    the cases after rejected configuration calls and under a non-default configuration), the call must render exactly as the same call given
    locale=get_locale().  The canonical result carries no phrase, so it is the same under every configured locale.  A contiguous block, so that
    the runner's every-k-th sample always contains several of them."""
    out = []
    for _ in range(40):
        items = []
        for op in _render_ops(rnd, None, 2000 + seed % 25):
            items.append(op)
        out.append({"stream": "default-locale", "fn": "default_locale", "args": [items]})
    return out


def _chunks_by_region(items, size):
    """batches that are homogeneous w.r.t. the listed findings' regions (predicates on the input), so that one batch reproduces at most one finding"""
    groups = {}
    for it in items:
        groups.setdefault(_region(it) or "", []).append(it)
    out = []
    for g in sorted(groups):
        n = size if g == "" else 1          # inside a listed region: one pair per case, so that known() and the model comparison are per pair
        for k in range(0, len(groups[g]), n):
            out.append(groups[g][k:k + n])
    return out


# UTC instants inside the SECOND occurrence of a repeated wall time (zone, UTC fields): whole-hour and half-hour overlaps, positive and negative
# offsets, one whose local date differs from the UTC date, the first second and the last second of an overlap
SECOND_OCCURRENCES = [("Europe/Paris", [2012, 10, 28, 1, 20, 0]), ("Europe/Paris", [1996, 10, 27, 1, 0, 0]), ("America/New_York", [2021, 11, 7, 6, 10, 0]),
                      ("America/St_Johns", [1996, 10, 27, 2, 55, 0]), ("America/St_Johns", [2021, 11, 7, 5, 29, 59]), ("Australia/Lord_Howe", [2021, 4, 3, 15, 5, 0]),
                      ("Pacific/Chatham", [2012, 3, 31, 14, 30, 0]), ("Asia/Kolkata", [1945, 10, 14, 17, 45, 0])]


def _second_occurrence_items():
    """The region of the repaired finding interval-init-drops-fold as ordinary cases: the reference (or the instance) is the second occurrence of
    a repeated wall time; the other value is `span` seconds away in a partner zone (or in the zone itself).  Only instants that the stdlib
    renders with fold=1 are used (a tz database without that overlap drops the item)."""
    import datetime as _dt
    out = []
    for zi, (z, f) in enumerate(SECOND_OCCURRENCES):
        t = _dt.datetime(*f, tzinfo=_dt.timezone.utc)
        try:
            if t.astimezone(_std_tz(z)).fold != 1:
                continue
        except Exception:  # noqa
            continue
        for pi, partner in enumerate(("UTC", "Asia/Kolkata", "America/New_York", "Europe/Paris", -16200, z)):
            for si, span in enumerate((1, 45, 3600, 4200, 90000, 3 * 86400 + 5)):
                k = zi + pi + si
                u = t - _dt.timedelta(seconds=span)
                # the reference is the second occurrence, `span` after the instance
                out.append([[u.year, u.month, u.day, u.hour, u.minute, u.second], span, partner, k % 2, int(k % 5 == 0), z])
                # the instance is the second occurrence, the reference `span` later
                out.append([list(f), span, z, (k + 1) % 2, int(k % 7 == 0), partner])
    return out


def _listed_witnesses():
    """deterministic inputs inside the regions of the listed findings (they re-confirm the finding on every run) and right next to them"""
    return [
        # interval-init-drops-fold (repaired: these must PASS): the reference is the SECOND 02:30 of 2012-10-28 in Paris, one hour / 70 minutes after the instance
        [[2012, 10, 28, 0, 30, 0], 3600, "UTC", 0, 0, "Europe/Paris"], [[2012, 10, 28, 0, 30, 0], 3600, "America/New_York", 1, 0, "Europe/Paris"],
        [[2012, 10, 28, 1, 30, 0], 4200, "Europe/Paris", 1, 1, "Asia/Kolkata"], [[2012, 10, 28, 0, 30, 0], 3600, "UTC", 0, 0, "UTC"],
        # same-tzinfo-wall-order (C05): 02:45 first occurrence vs 02:15 second occurrence, same zone object
        [[2012, 10, 28, 0, 45, 0], 1800, "Europe/Paris", 0, 0, "Europe/Paris"], [[2012, 10, 28, 0, 45, 0], 1800, "Europe/Paris", 1, 0, "Europe/Paris"],
        # rs-cross-zone-shift (C06): the compiled helper's manual UTC shift leaves hour 24 / minute 60 / day 0
        [[1968, 5, 1, 0, 1, 0], 1, "Europe/Paris", 0, 0, "America/New_York"], [[2008, 9, 28, 23, 0, 12], 11, -16200, 1, 0, 49500],
        [[2021, 2, 28, 23, 30, 0], 31 * 86400 + 1800, 3600, 0, 0, "UTC"], [[2014, 9, 15, 23, 0, 59], 86400, "UTC", 0, 1, -900],
    ]

# ----------------------------------------------------------------------------- operands handed in as NATIVE values
# item = [utc fields of the instance, span, zone, swap, absolute, zone2, kind, route, iv_abs]
#   kind   "aware"  the two values are aware datetimes in zone / zone2;  "naive"  naive datetimes (the UTC fields are their wall clock);
#          "date"   the dates of those naive datetimes
#   route  "dfh"    x.diff_for_humans(y_native) and x.diff(y_native): x a pendulum value, y a stdlib one
#          "iv-nn" / "iv-pn" / "iv-np"   pendulum.interval(x, y, absolute=iv_abs) with (native, native) / (pendulum, native) / (native, pendulum)
#          endpoints, rendered by pendulum.format_diff(interval, False, absolute, locale) and interval.in_words(locale)
#   A native aware value carries zoneinfo.ZoneInfo(zone) (one object per key), datetime.timezone(timedelta(seconds=zone)) for a fixed offset,
#   and for "UTC" alternately ZoneInfo("UTC") and datetime.timezone.utc.
NATIVE_ROUTES = ["dfh", "iv-nn", "iv-pn", "iv-np"]
NATIVE_ZONES = ["UTC", "Europe/Paris", "America/New_York", "Asia/Tokyo", "Asia/Kolkata", "America/St_Johns", "Australia/Lord_Howe", "Pacific/Kiritimati",
                19800, 3600, -12600, -34200, 50400, -900]


def _native_items(tier, rnd):
    det = []
    # same zone, same calendar day / next day; different zones; every route; both directions; fixed offsets and tz-database zones
    k = 0
    for z, z2 in (("Europe/Paris", "Europe/Paris"), ("Asia/Tokyo", "America/New_York"), (19800, 3600), ("America/New_York", "America/New_York"),
                  ("UTC", "Asia/Kolkata"), (-12600, -12600), ("Australia/Lord_Howe", "UTC"), ("UTC", "UTC"), ("Pacific/Kiritimati", -34200)):
        for st in ([2024, 5, 10, 10, 0, 0], [2024, 1, 15, 4, 30, 0], [2021, 7, 1, 13, 5, 9]):
            for span in (0, 7, 45, 2700, 10800, 18060, 90000, 3 * 86400 + 5, 40 * 86400):
                route = NATIVE_ROUTES[k % 4]
                swap = (k // 4) % 2
                det.append([st, span, z, swap, int(k % 5 == 0), z2, "aware", route, 1 if (swap or route == "dfh") else (k // 8) % 2])
                k += 1
    for st in ([2020, 1, 31, 10, 0, 0], [2019, 12, 31, 23, 59, 59], [2024, 2, 29, 6, 0, 0]):
        for span in (0, 5, 61, 10800, 86400, 5 * 86400, 35 * 86400, 400 * 86400):
            for route in ("iv-nn", "dfh"):
                for kind in ("naive", "date"):
                    swap = k % 2
                    det.append([st, span, "UTC", swap, int(k % 3 == 0), "UTC", kind, route, 1 if (swap or route == "dfh") else (k // 2) % 2])
                    k += 1
    # inside / next to a repeated hour with the reference native (finding same-tzinfo-wall-order: __new__ orders by instant, __init__ by wall clock)
    det += [[[2012, 10, 28, 0, 45, 0], 1807, "Europe/Paris", 0, 0, "Europe/Paris", "aware", "dfh", 1],
            [[2012, 10, 28, 0, 45, 0], 1807, "Europe/Paris", 1, 0, "Europe/Paris", "aware", "iv-pn", 1],
            [[2012, 10, 28, 0, 45, 0], 1807, "Europe/Paris", 0, 0, "Europe/Paris", "aware", "iv-nn", 0],
            [[2012, 10, 28, 0, 30, 0], 3600, "UTC", 0, 0, "Europe/Paris", "aware", "dfh", 1],
            [[2012, 10, 28, 0, 30, 0], 3600, "UTC", 0, 0, "Europe/Paris", "aware", "iv-nn", 0],
            # a naive pendulum value against a naive native one (finding native-naive-operand)
            [[2020, 1, 1, 10, 0, 0], 10800, "UTC", 0, 0, "UTC", "naive", "iv-pn", 0], [[2020, 1, 1, 10, 0, 0], 10800, "UTC", 1, 1, "UTC", "naive", "iv-np", 1]]
    rand = []
    for _ in range(360 if tier == "quick" else 5000):
        st = [rnd.randrange(1930, 2080), rnd.randrange(1, 13), rnd.choice([1, 2, 15, 27, 28, rnd.randrange(1, 29)]), rnd.choice([0, 1, 5, 12, 22, 23, rnd.randrange(24)]),
              rnd.choice([0, 1, 29, 30, 31, 59, rnd.randrange(60)]), rnd.choice([0, 1, 30, 59, rnd.randrange(60)])]
        span = rnd.choice([1, 9, 10, 11, 59, 60, 61, 3599, 3600, 3601, 7200, 10800, 18060, 86399, 86400, 86401, rnd.randrange(0, 4000), rnd.randrange(0, 90000),
                           rnd.randrange(0, 90000), rnd.randrange(0, 28 * 86400), rnd.randrange(0, 400 * 86400), rnd.randrange(0, 5000 * 86400)])
        x = rnd.random()
        kind = "aware" if x < 0.8 else ("naive" if x < 0.9 else "date")
        z1 = rnd.choice(NATIVE_ZONES)
        z2 = z1 if rnd.random() < 0.4 else rnd.choice(NATIVE_ZONES)
        if kind != "aware":
            z1 = z2 = "UTC"
        route = rnd.choice(NATIVE_ROUTES if kind == "aware" else ["dfh", "iv-nn", "iv-nn", "iv-pn"])
        if kind == "date" and route == "iv-pn":
            route = "iv-np"
        swap = rnd.choice([0, 1])
        rand.append([st, span, z1, swap, rnd.choice([0, 0, 1]), z2, kind, route, 1 if (swap or route == "dfh") else rnd.choice([0, 1])])
    return det, rand


def _native_cases(tier, seed, rnd, locs):
    det, rand = _native_items(tier, rnd)
    out = []
    for li, loc in enumerate(locs):
        if loc == "en":
            mine = det + rand
        else:
            mine = [det[(li * 53 + k * 17) % len(det)] for k in range(6)] + rnd.sample(rand, 8 if tier == "quick" else 200)
        for chunk in _chunks_by(mine, 60, _native_region):
            out.append({"stream": "instants-native", "fn": "natives", "args": [li, loc, chunk]})
    return out


def _chunks_by(items, size, region):
    groups = {}
    for it in items:
        groups.setdefault(region(it) or "", []).append(it)
    out = []
    for g in sorted(groups):
        n = size if g == "" else 1
        for k in range(0, len(groups[g]), n):
            out.append(groups[g][k:k + n])
    return out


def cases(tier, seed):
    rnd = random.Random(seed)
    locs = locale_names()
    out = [{"stream": "locales", "fn": "locales", "args": []}]
    # 1. grid
    for li, loc in enumerate(locs):
        for ui in range(7):
            for lo, hi in _grid_counts(tier, rnd):
                out.append({"stream": "fmt-grid", "fn": "fmt_grid", "args": [li, loc, ui, lo, hi]})
    # 2. boundary records
    recs = _boundary_records(rnd, tier)
    for li, loc in enumerate(locs):
        if tier == "thorough" or loc in ("en", "zh", "pl", "ru", "de", "fr", "he", "lt") :
            mine = recs
        else:
            mine = rnd.sample(recs, 400)
        for k in range(0, len(mine), 250):
            chunk = mine[k:k + 250]
            out.append({"stream": "fmt-boundary", "fn": "fmt_batch", "args": [li, loc, [list(r) for r in chunk]]})
    # 3. in_words on component records
    wrecs = []
    for _ in range(300 if tier == "quick" else 3000):
        sign = rnd.choice([1, 1, -1])
        r = [sign * rnd.choice([0, 0, 1, 2, 5, 11, 21, 22, 100, 101, 111, 1000]) if rnd.random() < 0.5 else 0 for _ in range(7)]
        wrecs.append(r + [0])
    wrecs += [[0] * 7 + [us] for us in (0, 1, -1, 4999, 5000, 5001, 15000, 25000, 125000, 375000, 994999, 995000, 999999, -125000, 500000)]
    wrecs += [[0] * 7 + [rnd.randrange(1, 1000000)] for _ in range(100 if tier == "quick" else 2000)]
    wrecs += [[0] * 7 + [5000 + 10000 * k] for k in range(100)]
    for li, loc in enumerate(locs):
        mine = wrecs if (tier == "thorough" or loc in ("en", "pl", "ru")) else wrecs[:120] + rnd.sample(wrecs, 80)
        for k in range(0, len(mine), 300):
            out.append({"stream": "words", "fn": "words_batch", "args": [li, loc, mine[k:k + 300], rnd.choice([" ", ", ", "", " - "])]})
    # 4. plural / ordinal lambdas
    ns = list(range(0, 1201)) + [10 ** 6, 10 ** 6 + 1, 10 ** 6 + 11, 2 * 10 ** 6, 10 ** 9 + 12, 10 ** 18 + 3, -1, -2, -11, -21]
    for li, loc in enumerate(locs):
        out.append({"stream": "plural-ordinal", "fn": "classes", "args": [li, loc, ns]})
    # 5. tokens
    for li, loc in enumerate(locs):
        out.append({"stream": "tokens", "fn": "tokens", "args": [li, loc, 2000 + (seed + li) % 25]})
    # 6. instants
    n_inst = 60 if tier == "quick" else 600
    base_pairs = []
    import datetime as _dt
    spans = [0, 1, 9, 10, 11, 59, 60, 61, 3599, 3600, 86399, 86400, 21 * 3600, 22 * 3600 + 86400, 3 * 86400, 4 * 86400, 7 * 86400, 11 * 86400, 26 * 86400,
             27 * 86400, 31 * 86400, 45 * 86400, 200 * 86400, 340 * 86400, 350 * 86400, 365 * 86400, 366 * 86400, 560 * 86400, 1000 * 86400, 4000 * 86400]
    for s in spans:
        for start in ((2020, 1, 31, 12, 0, 0), (2021, 3, 28, 0, 30, 0), (2019, 12, 31, 23, 59, 59), (2024, 2, 29, 6, 0, 0)):
            base_pairs.append((start, s))
    for _ in range(n_inst * 5):
        st = (rnd.randrange(1950, 2080), rnd.randrange(1, 13), rnd.randrange(1, 29), rnd.randrange(24), rnd.randrange(60), rnd.randrange(60))
        mag = rnd.choice([60, 3600, 86400, 30 * 86400, 400 * 86400, 5000 * 86400])
        base_pairs.append((st, rnd.randrange(0, mag)))
    for li, loc in enumerate(locs):
        mine = base_pairs if loc == "en" else rnd.sample(base_pairs, min(len(base_pairs), n_inst))
        items = []
        for st, s in mine:
            items.append([list(st), s, rnd.choice(ZONES), rnd.choice([0, 1]), rnd.choice([0, 0, 1])])
        for chunk in _chunks_by_region(items, 150):
            out.append({"stream": "instants", "fn": "instants", "args": [li, loc, chunk]})
    # 6b. pairs of instants written in DIFFERENT zones (both operands are compared in UTC), second occurrences of repeated wall times
    xz_det, xz = [], []
    for z in NEG_ODD:
        for z2 in ("UTC", "Asia/Kolkata", "Europe/Paris", 50400):
            for span in (0, 10, 61, 3000, 18060, 90000, 4 * 86400 + 7):
                xz_det.append([[2020, 6, 15, 14, 30, 0], span, z, (len(xz_det) // 3) % 2, 0, z2])
                xz_det.append([[2009, 1, 31, 23, 45, 10], span, z2, (len(xz_det) // 3) % 2, len(xz_det) % 2, z])
    wit = _listed_witnesses()
    so = _second_occurrence_items()
    en = locs.index("en") if "en" in locs else 0
    for it in xz_det + wit + so:
        out.append({"stream": "instants-xz", "fn": "instants", "args": [en, locs[en], [it]]})
    for _ in range(500 if tier == "quick" else 6000):
        st = [rnd.randrange(1900, 2090), rnd.randrange(1, 13), rnd.choice([1, 1, 2, 15, 27, 28, rnd.randrange(1, 29)]), rnd.choice([0, 0, 1, 5, 12, 22, 23, 23]),
              rnd.choice([0, 1, 29, 30, 31, 59, rnd.randrange(60)]), rnd.choice([0, 1, 30, 59, rnd.randrange(60)])]
        span = rnd.choice([1, 5, 9, 10, 11, 59, 60, 61, 3599, 3600, 3601, 7200, 18060, 86399, 86400, 86401, rnd.randrange(0, 4000), rnd.randrange(0, 90000),
                           rnd.randrange(0, 28 * 86400), rnd.randrange(0, 28 * 86400), rnd.randrange(0, 400 * 86400), rnd.randrange(0, 5000 * 86400)])
        z1 = rnd.choice(XZONES)
        z2 = rnd.choice([z for z in XZONES if z != z1])
        xz.append([st, span, z1, rnd.choice([0, 1]), rnd.choice([0, 0, 1]), z2])
    for li, loc in enumerate(locs):
        mine = xz if loc == "en" else ([wit[(li + k) % len(wit)] for k in (0, 3, 6)] + [so[(li * 37 + k * 101) % len(so)] for k in range(4 if so else 0)]
                                       + rnd.sample(xz_det, 6) + rnd.sample(xz, 40 if tier == "quick" else 400))
        for chunk in _chunks_by_region(mine, 150):
            out.append({"stream": "instants-xz", "fn": "instants", "args": [li, loc, chunk]})
    # 7. real Duration objects (integer arguments) + glue (default locale, aliases, now)
    durs = []
    for _ in range(200 if tier == "quick" else 2000):
        durs.append([rnd.choice([0, 0, 1, 3]), rnd.choice([0, 0, 1, 7, 11]), rnd.choice([0, 0, 1, 2]), rnd.randrange(0, 10), rnd.randrange(0, 30),
                     rnd.randrange(0, 70), rnd.randrange(0, 70), rnd.choice([1, 1, -1])])
    for li, loc in enumerate(locs):
        mine = durs if loc in ("en", "fr") or tier == "thorough" else rnd.sample(durs, 40)
        out.append({"stream": "durations", "fn": "durations", "args": [li, loc, mine]})
    out.append({"stream": "glue", "fn": "glue", "args": []})
    # 8. the process-wide default locale: whole histories in one case, and calls that rely on the ambient configuration
    out += _default_locale_cases(tier, seed, rnd)
    out += _sessions(tier, seed, rnd, locs)
    # 9. operands handed in as native values (own generator: the streams above are unchanged by it)
    out += _native_cases(tier, seed, random.Random(seed * 7919 + 18), locs)
    return out


def search_cases(seed):
    return [c for c in cases("thorough", seed) if c["fn"] in ("fmt_grid", "fmt_batch", "tokens", "words_batch", "classes", "session", "default_locale", "natives")]


def nontrivial(c):
    return True


# ----------------------------------------------------------------------------- implementation side
def _grid_records(ui, lo, hi):
    for n in range(lo, hi):
        r = [0] * 7
        r[ui] = n
        yield r


def impl_run(cases):
    import datetime

    import pendulum
    from pendulum.duration import Duration
    from pendulum.interval import Interval
    from pendulum.locales.locale import Locale

    class D:
        def __init__(self, r, inv=0, us=0):
            (self.years, self.months, self.weeks, self.remaining_days, self.hours, self.minutes, self.remaining_seconds) = r[:7]
            self.invert = bool(inv)
            self.microseconds = us

    def guard(f):
        try:
            r = f()
            return r if isinstance(r, str) else "!nonstr:" + type(r).__name__
        except Exception as e:  # noqa
            return "!" + type(e).__name__

    def comps(d):
        return [d.years, d.months, d.weeks, d.remaining_days, d.hours, d.minutes, d.remaining_seconds]

    out = []
    for c in cases:
        fn, a = c["fn"], c["args"]
        try:
            if fn == "locales":
                root = os.path.dirname(pendulum.locales.locale.__file__)
                names = sorted(d for d in os.listdir(root) if os.path.isfile(os.path.join(root, d, "locale.py")))
                out.append([0] + names)
            elif fn == "fmt_grid":
                li, loc, ui, lo, hi = a
                res = [0]
                for r in _grid_records(ui, lo, hi):
                    for inv, now, ab in FLAGS:
                        res.append(guard(lambda: pendulum.format_diff(D(r, inv), bool(now), bool(ab), loc)))
                out.append(res)
            elif fn == "fmt_batch":
                li, loc, recs = a
                res = [0]
                for r in recs:
                    for inv, now, ab in FLAGS:
                        res.append(guard(lambda: pendulum.format_diff(D(r, inv), bool(now), bool(ab), loc)))
                out.append(res)
            elif fn == "words_batch":
                li, loc, recs, sep = a
                res = [0]
                for r in recs:
                    res.append(guard(lambda: Duration.in_words(D(r[:7], 0, r[7]), loc, sep)))
                    res.append(guard(lambda: Interval.in_words(D(r[:7], 0, r[7]), loc, sep)))
                out.append(res)
            elif fn == "classes":
                li, loc, ns = a
                L = Locale.load(loc)
                res = [0]
                for n in ns:
                    res += [guard(lambda: L.plural(n)), guard(lambda: L.ordinal(n)), guard(lambda: L.ordinalize(n))]
                out.append(res)
            elif fn == "tokens":
                li, loc, year = a
                res = [0]
                for m, k, hour in _token_points():
                    dt = pendulum.datetime(year, m, 1 + k, hour, 7, 9)
                    for tok in TOKENS + DATE_FORMATS:
                        res.append(guard(lambda: dt.format(tok, locale=loc)))
                L = Locale.load(loc)
                for tok in DATE_FORMATS:
                    v = L.get("custom.date_formats." + tok)
                    res.append("!None" if v is None else v)
                out.append(res)
            elif fn == "instants":
                li, loc, items = a
                res = [0]
                for it in items:
                    st, s, zone, swap, ab = it[:5]
                    zone2 = it[5] if len(it) > 5 else zone
                    x = pendulum.datetime(*st, tz="UTC").in_timezone(pendulum.timezone(zone))
                    y = x.add(seconds=s).in_timezone(pendulum.timezone(zone2))
                    if swap:
                        x, y = y, x
                    d = x.diff(y)
                    cs = comps(d)
                    res.append([guard(lambda: x.diff_for_humans(y, absolute=bool(ab), locale=loc)),
                                guard(lambda: pendulum.format_diff(D(cs, d.invert), False, bool(ab), loc)),
                                cs, int(d.invert),
                                guard(lambda: x.date().diff_for_humans(y.date(), absolute=bool(ab), locale=loc)), comps(x.date().diff(y.date())),
                                guard(lambda: x.time().diff_for_humans(y.time(), absolute=bool(ab), locale=loc)),
                                [x.year, x.month, x.day, x.hour, x.minute, x.second, int(x.utcoffset().total_seconds()), x.fold],
                                [y.year, y.month, y.day, y.hour, y.minute, y.second, int(y.utcoffset().total_seconds()), y.fold],
                                guard(lambda: d.in_words(locale=loc)), guard(lambda: Interval.in_words(D(cs, 0, d.microseconds), loc))])
                out.append(res)
            elif fn == "natives":
                li, loc, items = a
                res = [0]
                for it in items:
                    res.append(_natives_impl(pendulum, Interval, D, guard, comps, loc, it))
                out.append(res)
            elif fn == "durations":
                li, loc, durs = a
                res = [0]
                for y, mo, w, dd, h, mi, s, sign in durs:
                    d = pendulum.duration(years=sign * y, months=sign * mo, weeks=sign * w, days=sign * dd, hours=sign * h, minutes=sign * mi, seconds=sign * s)
                    cs = comps(d)
                    res.append([cs, int(d.invert), guard(lambda: d.in_words(locale=loc)), guard(lambda: Duration.in_words(D(cs, 0, d.microseconds), loc)),
                                guard(lambda: pendulum.format_diff(d, True, False, loc)), guard(lambda: pendulum.format_diff(D(cs, d.invert), True, False, loc)),
                                guard(lambda: pendulum.format_diff(d, False, True, loc)), guard(lambda: pendulum.format_diff(D(cs, d.invert), False, True, loc))])
                out.append(res)
            elif fn == "glue":
                res = [0]
                r = [0, 0, 0, 2, 0, 0, 0]
                for alias, canon in (("EN", "en"), ("en-US", "en_us"), ("pt-BR", "pt_br"), ("EN_gb", "en_gb"), ("Zh", "zh")):
                    res.append([alias, guard(lambda: pendulum.format_diff(D(r, 1), True, False, alias)), guard(lambda: pendulum.format_diff(D(r, 1), True, False, canon))])
                res.append(["nolocale", guard(lambda: pendulum.format_diff(D(r, 1), True, False, "xx")), "!ValueError"])
                old = pendulum.get_locale()
                try:
                    pendulum.set_locale("fr")
                    res.append(["default", guard(lambda: pendulum.format_diff(D(r, 0))), guard(lambda: pendulum.format_diff(D(r, 0), True, False, "fr"))])
                    res.append(["default-words", guard(lambda: pendulum.duration(days=2).in_words()), guard(lambda: pendulum.duration(days=2).in_words(locale="fr"))])
                finally:
                    pendulum.set_locale(old)
                # relative to the real clock (no time travel): margins of many hours make the phrase independent of the run time
                now = pendulum.now("UTC")
                res.append(["now-past", guard(lambda: now.subtract(days=2, hours=5).diff_for_humans(locale="en")), "2 days ago"])
                res.append(["now-future", guard(lambda: now.add(days=2, hours=5).diff_for_humans(locale="en")), "in 2 days"])
                res.append(["now-date-past", guard(lambda: pendulum.today().date().subtract(years=3, months=2).diff_for_humans(locale="en")), "3 years ago"])
                res.append(["now-abs", guard(lambda: now.add(days=400).diff_for_humans(absolute=True, locale="en")), "1 year"])
                out.append(res)
            elif fn in ("session", "default_locale"):
                BAD = {"none": None, "int": 7, "bytes": b"fr", "list": ["fr"]}

                def render(op, kw):
                    """kw is {} (no locale argument at all) or {"locale": name}"""
                    k = op[0]
                    if k == "fmt":
                        _, _loc, rec, inv, now, ab = op
                        return guard(lambda: pendulum.format_diff(D(rec, inv), bool(now), bool(ab), **kw))
                    if k == "words":
                        _, _loc, rec, us, sep, which = op
                        cls = Duration if which == "D" else Interval
                        return guard(lambda: cls.in_words(D(rec, 0, us), separator=sep, **kw))
                    if k == "tok":
                        _, _loc, ti, year, month, day, hour = op
                        return guard(lambda: pendulum.datetime(year, month, day, hour, 7, 9).format(TOKENS[ti], **kw))
                    if k == "dfh":
                        _, _loc, kind, st, span, zone, swap, ab = op
                        x = pendulum.datetime(*st, tz="UTC").in_timezone(zone)
                        y = x.add(seconds=span)
                        if swap:
                            x, y = y, x
                        if kind == "date":
                            x, y = x.date(), y.date()
                        elif kind == "time":
                            x, y = x.time(), y.time()
                        d = x.diff(y)
                        return [guard(lambda: x.diff_for_humans(y, absolute=bool(ab), **kw)), comps(d), int(d.invert), int(x > y)]
                    if k == "str":
                        y_, mo, w, dd, h, mi, sec = op[1]
                        d = pendulum.duration(years=y_, months=mo, weeks=w, days=dd, hours=h, minutes=mi, seconds=sec)
                        if kw:
                            return [guard(lambda: d.in_words(**kw)), comps(d), d.microseconds]
                        return [guard(lambda: str(d)), comps(d), d.microseconds]
                    raise ValueError(k)

                old = pendulum.get_locale()
                try:
                    res = [0]
                    if fn == "default_locale":
                        for op in a[0]:
                            got = render(op, {})
                            cur = pendulum.get_locale()
                            want = render(op, {"locale": cur})
                            g0 = got[0] if isinstance(got, list) else got
                            ok = got == want and isinstance(g0, str) and g0 != "" and not g0.startswith("!")
                            res.append([1] if ok else [0, got, want, cur if isinstance(cur, str) else repr(cur)])
                    else:
                        for op in a[0]:
                            k = op[0]
                            if k == "set":
                                res.append(guard(lambda: "" if pendulum.set_locale(op[1]) is None else "!nonNone"))
                            elif k == "setbad":
                                res.append(guard(lambda: "" if pendulum.set_locale(BAD[op[1]]) is None else "!nonNone"))
                            elif k == "get":
                                res.append(guard(lambda: pendulum.get_locale()))
                            elif k == "load":
                                res.append(guard(lambda: pendulum.locale(op[1])._locale))
                            else:
                                res.append(render(op, {} if op[1] is None or k == "str" else {"locale": op[1]}))
                    out.append(res)
                finally:
                    # leave the process as it was found (also when the configuration found cannot be set again: that is for the case to report)
                    try:
                        pendulum.set_locale(old)
                    except Exception:  # noqa
                        pendulum._LOCALE = old
            else:
                out.append([9])
        except Exception as e:  # noqa
            out.append([1, type(e).__name__, str(e)[:200]])
    return out

_STD_TZ = {}


def _native_tz(z, alt=0):
    """the tzinfo of a NATIVE value: one object per zone (zoneinfo caches by key; fixed offsets are cached here); "UTC" with alt=1 is datetime.timezone.utc"""
    import datetime
    if z == "UTC" and alt:
        return datetime.timezone.utc
    if z not in _STD_TZ:
        _STD_TZ[z] = _std_tz(z)
    return _STD_TZ[z]


def _native_alt(it):
    return (it[1] + it[0][5]) % 2


def _natives_impl(pendulum, Interval, D, guard, comps, loc, it):
    """runs inside the staged interpreter"""
    import datetime
    st, span, zone, swap, ab, zone2, kind, route, iv_abs = it
    alt = _native_alt(it)
    u = datetime.datetime(*st, tzinfo=datetime.timezone.utc)
    v = u + datetime.timedelta(seconds=span)
    if kind == "aware":
        nat = [u.astimezone(_native_tz(zone, alt)), v.astimezone(_native_tz(zone2, 1 - alt))]
        pen = [pendulum.datetime(*st, tz="UTC").in_timezone(pendulum.timezone(zone)),
               pendulum.datetime(*st, tz="UTC").add(seconds=span).in_timezone(pendulum.timezone(zone2))]
    elif kind == "naive":
        nat = [u.replace(tzinfo=None), v.replace(tzinfo=None)]
        pen = [pendulum.naive(*st), pendulum.naive(*st).add(seconds=span)]
    else:
        nat = [u.date(), v.date()]
        pen = [pendulum.date(u.year, u.month, u.day), pendulum.date(v.year, v.month, v.day)]
    if swap:
        nat.reverse()
        pen.reverse()
    x, y = {"dfh": (pen[0], nat[1]), "iv-nn": (nat[0], nat[1]), "iv-pn": (pen[0], nat[1]), "iv-np": (nat[0], pen[1])}[route]

    def view(o):
        if kind == "date":
            return [o.year, o.month, o.day, 0, 0, 0, 0, 0, type(o).__module__.split(".")[0]]
        off = o.utcoffset()
        return [o.year, o.month, o.day, o.hour, o.minute, o.second, -1 if off is None else int(off.total_seconds()), o.fold, type(o).__module__.split(".")[0]]
    try:
        if route == "dfh":
            d = x.diff(y)
            phrase = guard(lambda: x.diff_for_humans(y, absolute=bool(ab), locale=loc))
        else:
            d = pendulum.interval(x, y, absolute=bool(iv_abs))
            phrase = guard(lambda: pendulum.format_diff(d, False, bool(ab), loc))
    except Exception as e:  # noqa
        return ["!" + type(e).__name__, view(x), view(y)]
    cs = comps(d)
    return [phrase, guard(lambda: pendulum.format_diff(D(cs, d.invert), False, bool(ab), loc)), cs, int(d.invert), view(x), view(y),
            guard(lambda: d.in_words(locale=loc)), guard(lambda: Interval.in_words(D(cs, 0, d.microseconds), loc)), d.microseconds,
            [type(d.start).__module__.split(".")[0], type(d.end).__module__.split(".")[0]]]


def _native_operands(it):
    """(x, y) of one `natives` item, stdlib only: dicts as in _operands plus "kind", "native" (handed in as a stdlib value) and "name" (what
    pendulum.instance gives the value: the zone name, +HH:MM for a fixed offset, UTC for a naive one)"""
    import datetime
    st, span, zone, swap, ab, zone2, kind, route, iv_abs = it
    if kind == "aware":
        ops = _operands([st, span, zone, 0, ab, zone2])
        for o in ops:
            o["name"] = _tz_name(o["zone"])
            o["aware"] = True
    else:
        u = datetime.datetime(*st)
        ops = []
        for t in (u, u + datetime.timedelta(seconds=span)):
            f = [t.year, t.month, t.day, t.hour, t.minute, t.second] if kind == "naive" else [t.year, t.month, t.day, 0, 0, 0]
            ops.append({"f": f, "off": 0, "fold": 0, "off0": 0, "zone": "UTC", "name": "UTC", "aware": False,
                        "t": int((datetime.datetime(*f) - datetime.datetime(1970, 1, 1)).total_seconds())})
    if swap:
        ops.reverse()
    nx, ny = {"dfh": (0, 1), "iv-nn": (1, 1), "iv-pn": (0, 1), "iv-np": (1, 0)}[route]
    for o, n in zip(ops, (nx, ny)):
        o["kind"] = kind
        o["native"] = bool(n) and not (kind == "date" and route == "dfh")       # Date.diff rebuilds its argument as a pendulum Date
        if kind == "naive":
            o["aware"] = o["native"]          # pendulum.instance(naive native) is a UTC value; a naive pendulum value stays naive
    return ops


def _enc_native_operand(o):
    """12 integers of the value Interval.__init__ keeps + (has_tz, tzinfo object id) of the value as given"""
    if o["kind"] == "date":
        return o["f"][:3] + [0, 0, 0, 0, 0, 0, 0, 0, 0] + [0, 0]
    if not o["aware"]:
        return o["f"] + [0, 0, 0, 0, 0, 1] + [0, 0]
    n = _name_id(o["name"])
    given = [1, n + 10 ** 9 + 7] if o["kind"] == "aware" else [0, 0]
    if not o["native"]:
        given = [1, n]
    return o["f"] + [0, o["off"], 1, n, n, 1] + given


def _native_region(it, backend=None):
    """the listed finding (or None) whose region contains this item — predicates on the INPUT:
       native-naive-operand     a naive pendulum DateTime and a naive NATIVE datetime in one Interval (pendulum.instance makes the native one aware);
       same-tzinfo-wall-order / rs-cross-zone-shift   as for pendulum operands (_region), on the values Interval.__init__ keeps."""
    st, span, zone, swap, ab, zone2, kind, route, iv_abs = it
    if kind == "naive":
        return "native-naive-operand" if route in ("dfh", "iv-pn", "iv-np") else None
    if kind == "date":
        return None
    x, y = _native_operands(it)
    if x["name"] == y["name"] and ((x["f"] > y["f"]) != (x["t"] > y["t"]) or (x["f"] == y["f"]) != (x["t"] == y["t"])):
        return "same-tzinfo-wall-order"
    if backend in (None, "rs") and _rs_shift_irregular(x, y):
        return "rs-cross-zone-shift"
    if backend in (None, "py") and _py_native_shift_irregular(x, y):
        return "py-native-endpoint-shift"
    return None


def _py_native_shift_irregular(x, y):
    """Region of listed finding py-native-endpoint-shift, a predicate on the two operands (pure-Python backend only): an endpoint handed in as a
    native aware datetime reaches precise_diff as pendulum.instance(x) — a pendulum.DateTime, not a plain datetime — so the helper's UTC
    normalisation `d = d - d.utcoffset()` (taken when the zone names differ or both values fall on one local date) is pendulum's TIMELINE
    arithmetic: the wall clock of the instant `offset` earlier, not the wall clock moved by `offset`.  The two differ exactly when the zone's
    UTC offset at that earlier instant is not the endpoint's own offset (a transition lies in between)."""
    import datetime
    if x["name"] == y["name"] and x["f"][:3] != y["f"][:3]:
        return False
    for o in (x, y):
        if o["kind"] == "aware" and o["native"] and o["off"] != 0:
            t2 = datetime.datetime(1970, 1, 1, tzinfo=datetime.timezone.utc) + datetime.timedelta(seconds=o["t"] - o["off"])
            if int(t2.astimezone(_std_tz(o["zone"])).utcoffset().total_seconds()) != o["off"]:
                return True
    return False


def _token_points():
    pts = []
    for m in range(1, 13):
        for k in range(7):
            pts.append((m, k, 9 if (m + k) % 2 else 15))
    return pts


# ----------------------------------------------------------------------------- model side
def _dec(o):
    if o[0] == 0:
        return "".join(map(chr, o[1:]))
    if o[0] == 1:
        return "!" + EXN.get(o[1], f"exn{o[1]}")
    if o[0] == 2:
        return "!None"
    return "!badcall"


def _weekday(y, m, d):
    import datetime
    return datetime.date(y, m, d).weekday()


def model_calls(c, backend):
    fn, a = c["fn"], c["args"]
    if fn == "locales":
        return [("locale_name", [i]) for i in range(len(locale_names()))]
    if fn == "fmt_grid":
        li, loc, ui, lo, hi = a
        return [("format_diff", [li] + r + [inv, now, ab]) for r in _grid_records(ui, lo, hi) for inv, now, ab in FLAGS]
    if fn == "fmt_batch":
        li, loc, recs = a
        return [("format_diff", [li] + list(r) + [inv, now, ab]) for r in recs for inv, now, ab in FLAGS]
    if fn == "words_batch":
        li, loc, recs, sep = a
        return [("in_words", [li] + list(r) + [ord(ch) for ch in sep]) for r in recs]
    if fn == "classes":
        li, loc, ns = a
        calls = []
        for n in ns:
            calls += [("plural", [li, n]), ("ordinal", [li, n]), ("ordinalize", [li, n])]
        return calls
    if fn == "tokens":
        li, loc, year = a
        calls = []
        for m, k, hour in _token_points():
            dow = _weekday(year, m, 1 + k)
            calls += [("token", [li, t, m, dow, 1 + k, hour]) for t in range(len(TOKENS))]
        calls += [("date_format", [li, i]) for i in range(len(DATE_FORMATS))]
        return calls
    if fn == "session":
        code, n = _session_code(a[0])
        return [("session", [k] + code) for k in range(n)]
    if fn == "instants":
        li, loc, items = a
        rs = int(backend == "rs")
        calls = []
        for it in items:
            x, y = _operands(it)
            ab = _enc_operand(x) + _enc_operand(y)
            calls += [("diff_comps", [rs] + ab), ("dfh", [li, rs, it[4]] + ab)]
        return calls
    if fn == "natives":
        li, loc, items = a
        rs = int(backend == "rs")
        calls = []
        for it in items:
            x, y = _native_operands(it)
            ab = _enc_native_operand(x) + _enc_native_operand(y)
            calls += [("diff_comps_native", [rs, it[8]] + ab), ("format_diff_native", [li, rs, it[8], it[4]] + ab), ("in_words_native", [li, rs, it[8]] + ab)]
        return calls
    return None


def _std_tz(z):
    import datetime
    import zoneinfo
    if isinstance(z, int):
        return datetime.timezone(datetime.timedelta(seconds=z))
    return zoneinfo.ZoneInfo(z)


def _tz_name(z):
    """what _get_tzinfo_name / get_tz_name find on the pendulum tzinfo: Timezone.name, FixedTimezone.name = +HH:MM"""
    if isinstance(z, int):
        a = abs(z)
        return f"{'-' if z < 0 else '+'}{a // 3600:02d}:{a % 3600 // 60:02d}"
    return z


def _operands(it):
    """(instance, reference) of one `instants` item, computed with datetime + zoneinfo only: each is a dict with the wall fields, the UTC
    offset, the fold, the offset of the same wall time read with fold 0, the zone and the instant in seconds"""
    import datetime
    st, span, zone, swap, ab = it[:5]
    zone2 = it[5] if len(it) > 5 else zone
    u = datetime.datetime(*st, tzinfo=datetime.timezone.utc)
    ops = []
    for t, z in ((u, zone), (u + datetime.timedelta(seconds=span), zone2)):
        loc = t.astimezone(_std_tz(z))
        ops.append({"f": [loc.year, loc.month, loc.day, loc.hour, loc.minute, loc.second], "off": int(loc.utcoffset().total_seconds()), "fold": loc.fold,
                    "off0": int(loc.replace(fold=0).utcoffset().total_seconds()), "zone": z, "t": int((t - datetime.datetime(1970, 1, 1, tzinfo=datetime.timezone.utc)).total_seconds())})
    if swap:
        ops.reverse()
    return ops


def _name_id(n):
    import zlib
    return zlib.crc32(n.encode()) % 10 ** 9 + 1


def _enc_operand(o):
    n = _name_id(_tz_name(o["zone"]))
    # the offset is the one the operand's fold selects: Interval.__init__ passes fold= to the natives it hands to precise_diff (since the repair
    # of finding interval-init-drops-fold); one tzinfo object per zone name (pendulum.timezone caches both kinds)
    return o["f"] + [0, o["off"], 1, n, n, 1]


def _enc_str(x):
    return [len(x)] + [ord(ch) for ch in x]


def _enc_loc(x):
    return [0] if x is None else [1] + _enc_str(x)


def _session_code(ops):
    """the modelled operations of a session as the integer list Model/DispatchC18.v decodes (the others — real DateTime/Date/Time/Duration
    objects, set_locale of a non-str — neither change the model's state nor have a model output), and their number"""
    code, n = [], 0
    for op in ops:
        k = op[0]
        if k == "set":
            code += [1] + _enc_str(op[1])
        elif k == "get":
            code += [2]
        elif k == "load":
            code += [3] + _enc_str(op[1])
        elif k == "fmt":
            _, loc, rec, inv, now, ab = op
            code += [4] + _enc_loc(loc) + list(rec) + [inv, now, ab]
        elif k == "words":
            _, loc, rec, us, sep, which = op
            code += [5] + _enc_loc(loc) + list(rec) + [us] + _enc_str(sep)
        elif k == "tok":
            _, loc, ti, year, month, day, hour = op
            code += [6] + _enc_loc(loc) + [ti, month, _weekday(year, month, day), day, hour]
        else:
            continue
        n += 1
    return code, n


MODELLED_OPS = ("set", "get", "load", "fmt", "words", "tok")


def model_result(c, backend, outs):
    fn = c["fn"]
    if fn == "instants":
        r = [0]
        for i in range(0, len(outs), 2):
            c_, p_ = outs[i], outs[i + 1]
            if c_ == [3] or p_ == [3]:
                r.append(None)
            elif c_[0] != 0:
                r.append(["!" + EXN.get(c_[1], f"exn{c_[1]}"), None, None])
            else:
                r.append([_dec(p_), c_[1:8], c_[8]])
        return r
    if fn == "natives":
        r = [0]
        for i in range(0, len(outs), 3):
            c_, p_, w_ = outs[i:i + 3]
            if [3] in (c_, p_, w_) or (backend == "py" and _py_native_shift_irregular(*_native_operands(c["args"][2][i // 3]))):
                # (the second: finding py-native-endpoint-shift — pendulum's timeline arithmetic inside the pure-Python helper is outside the model)
                r.append(None)
            elif c_[0] != 0:
                r.append(["!" + EXN.get(c_[1], f"exn{c_[1]}")])
            else:
                r.append([_dec(p_), c_[1:8], c_[8], _dec(w_)])
        return r
    if fn == "session":
        r, k = [0], 0
        for op in c["args"][0]:
            if op[0] in MODELLED_OPS:
                r.append(_dec(outs[k]))
                k += 1
            else:
                r.append(None)
        return r
    if fn == "words_batch":
        r = [0]
        for o in outs:
            s = _dec(o)
            r += [s, s]          # Duration.in_words and Interval.in_words are the same function of the components
        return r
    if fn == "tokens":
        n = len(TOKENS)
        pts = _token_points()
        r = [0]
        for i in range(len(pts)):
            r += [_dec(o) for o in outs[i * n:(i + 1) * n]] + [None] * len(DATE_FORMATS)
        r += [_dec(o) for o in outs[len(pts) * n:]]
        return r
    return [0] + [_dec(o) for o in outs]


def same(c, m, r):
    if c["fn"] in ("tokens", "session"):
        return len(m) == len(r) and all(x is None or x == y for x, y in zip(m, r))
    if c["fn"] == "instants":
        # model: [phrase, components, invert] of DateTime.diff_for_humans(other) / DateTime.diff(other); None = outside the model's domain
        return len(m) == len(r) and all(x is None or (i == 0 and x == y) or (i > 0 and x == [y[0], y[2], y[3]]) for i, (x, y) in enumerate(zip(m, r)))
    if c["fn"] == "natives":
        # model: [phrase, components, invert, words] or ["!Exc"]; None = outside the model's domain
        return len(m) == len(r) and all(x is None or (i == 0 and x == y) or (i > 0 and (x == [y[0]] if len(x) == 1 or len(y) < 7 else x == [y[0], y[2], y[3], y[6]]))
                                        for i, (x, y) in enumerate(zip(m, r)))
    return m == r


# ----------------------------------------------------------------------------- the property itself (stdlib only)
def _expected(r):
    """Documented rounding: the largest non-zero component, rounded up when the next smaller components reach the threshold."""
    y, mo, w, d, h, mi, s = r
    days = w * 7 + d
    if y > 0:
        return "year", y + (1 if mo > 6 else 0)
    if mo == 11 and days > 15:
        return "year", 1
    if mo > 0:
        return "month", mo + (1 if days >= 27 else 0)
    if w > 0:
        return "week", w + (1 if d > 3 else 0)
    if d > 0:
        return "day", d + (1 if h >= 22 else 0)
    if h > 0:
        return "hour", h
    if mi > 0:
        return "minute", mi
    if 10 < s <= 59:
        return "second", s
    return "few", s


def _fmt1(tpl, arg):
    return tpl.format(arg)


def _phrases(loc, unit, count, inv, now, ab):
    """All phrases the locale's own data admits for (unit, count, direction): over every plural class present. May raise."""
    data = locale_data(loc)
    tr, cu = data["translations"], data["custom"]
    if unit == "few":
        few = _get(cu, "units", "few_second")
        if few is not None:
            if ab:
                return {few}
            key = ("from_now" if inv else "ago") if now else ("after" if inv else "before")
            return {_fmt1(cu[key], few)}
        unit, count = "second", (count if count != 0 else 1)
    if ab:
        return {_fmt1(t, count) for t in tr["units"][unit].values()}
    if now:
        return {_fmt1(t, count) for t in tr["relative"][unit]["future" if inv else "past"].values()}
    special = _get(cu, "units_relative", unit, "future" if inv else "past")
    times = {_fmt1(t, count) for t in (special or tr["units"][unit]).values()}
    return {_fmt1(cu["after" if inv else "before"], t) for t in times}


def _check_phrase(loc, r, inv, now, ab, s):
    """None or a reason; s is what the implementation returned for component record r."""
    if s.startswith("!"):
        return f"raised {s[1:]}"
    if s == "":
        return "empty string"
    if "{" in s or "}" in s:
        return f"unsubstituted placeholder in {s!r}"
    unit, count = _expected(r)
    if unit != "few" and count < 1:
        return f"count {count} < 1"
    try:
        good = _phrases(loc, unit, count, inv, now, ab)
    except Exception as e:  # noqa
        return f"locale data cannot produce a phrase: {type(e).__name__}: {e}"
    if s not in good:
        return f"{s!r} is not a phrase of unit={unit} count={count} direction={'future' if inv else 'past'} now={now} absolute={ab}: expected one of {sorted(good)[:4]}"
    if not ab:
        try:
            wrong = _phrases(loc, unit, count, 1 - inv, now, ab)
        except Exception:  # noqa
            wrong = set()
        if s in wrong:
            return f"{s!r} does not tell past from future"
    return None


def _check_token(loc, tok, year, m, day, hour, s):
    """None or a reason; s is what dt.format(tok, locale=loc) returned for year-m-day hour:07:09"""
    data = locale_data(loc)
    dow = _weekday(year, m, day)
    if s.startswith("!"):
        return f"raised {s[1:]}"
    if s == "":
        return "empty"
    why = None
    tr = data["translations"]
    exp = {"MMM": lambda: tr["months"]["abbreviated"][m], "MMMM": lambda: tr["months"]["wide"][m], "dd": lambda: tr["days"]["short"][dow],
           "ddd": lambda: tr["days"]["abbreviated"][dow], "dddd": lambda: tr["days"]["wide"][dow],
           "A": lambda: tr["day_periods"]["pm" if hour >= 12 else "am"]}.get(tok)
    if exp is not None and s != exp():
        why = f"{s!r} is not the locale's entry {exp()!r}"
    if tok in ("Do", "Mo", "do", "eo", "e") and not s[0].isdigit():
        why = f"{s!r} does not start with the number"
    if tok == "Do" and not s.startswith(str(day)):
        why = f"{s!r} is not day {day}"
    if tok in ("e", "eo"):
        fd = _get(tr, "week_data", "first_day")
        if isinstance(fd, int):
            e = (dow % 7 - fd) % 7
            if (tok == "e" and s != str(e)) or (tok == "eo" and not s.startswith(str(e + 1))):
                why = f"{s!r} is not the day of the localized week ({e})"
    if tok in DATE_FORMATS and tok not in ("LT", "LTS") and str(year) not in s and str(year % 100) not in s:
        why = f"{s!r} lacks the year"
    return why


def _check_session(ops, res):
    """The property over a history of the process: the configured locale is the name given to the last set_locale call that returned; a call
    that is rejected (unknown name, not a str) raises and changes nothing; every rendering call without a locale argument renders in the
    configured locale (same checks as everywhere else, against that locale's own data), with one in the locale given."""
    shipped = set(locale_names())
    cur, out = None, []
    if len(res) != len(ops):
        return [f"harness: {len(res)} results for {len(ops)} operations"]
    for i, (op, s) in enumerate(zip(ops, res)):
        k = op[0]
        hist = f"after {[o[:2] for o in ops[:i] if o[0] in ('set', 'setbad', 'load')]}"
        if k == "set":
            ok = _norm_name(op[1]) in shipped
            if ok:
                if s != "":
                    out.append(f"set_locale({op[1]!r}) {hist}: {s!r} (a shipped locale must be accepted)")
                cur = op[1]
            elif s != "!ValueError":
                out.append(f"set_locale({op[1]!r}) {hist}: {s!r}, expected ValueError (not a shipped locale)")
        elif k == "setbad":
            if not s.startswith("!"):
                out.append(f"set_locale(<{op[1]}>) {hist} was accepted")
        elif k == "get":
            if cur is not None and s != cur:
                out.append(f"get_locale() {hist} is {s!r}; the last set_locale call that succeeded set {cur!r}")
        elif k == "load":
            want = _norm_name(op[1]) if _norm_name(op[1]) in shipped else "!ValueError"
            if s != want:
                out.append(f"pendulum.locale({op[1]!r}) {hist}: {s!r}, expected {want!r}")
        else:
            name = op[1] if (k != "str" and op[1] is not None) else cur
            if name is None:
                continue
            how = f"locale={op[1]!r}" if (k != "str" and op[1] is not None) else f"no locale argument, configured locale {cur!r}"
            got = s[0] if isinstance(s, list) else s
            loc = _norm_name(name)
            if loc not in shipped:
                if got != "!ValueError":
                    out.append(f"{op} ({how}) {hist}: {got!r}, expected ValueError")
                continue
            if k == "fmt":
                _, _l, rec, inv, now, ab = op
                if any(x < 0 for x in rec):
                    why = f"raised {got[1:]}" if got.startswith("!") else ("empty" if not got else None)
                else:
                    why = _check_phrase(loc, rec, inv, now, ab, got)
            elif k == "words":
                _, _l, rec, us, sep, which = op
                why = _check_words(loc, list(rec) + [us], sep, got)
            elif k == "tok":
                _, _l, ti, year, month, day, hour = op
                why = _check_token(loc, TOKENS[ti], year, month, day, hour, got)
            elif k == "dfh":
                _, _l, kind, st, span, zone, swap, ab = op
                _g, cs, inv, later = s
                why = _check_phrase(loc, cs, later, 0, ab, got)
                if why is None and inv != later:
                    why = f"invert={inv} but instance > reference is {bool(later)}"
            elif k == "str":
                _g, cs, us = s
                why = _check_words(loc, cs + [us if not any(cs) else 0], " ", got)
            else:
                why = f"harness: unknown operation {k}"
            if why:
                out.append(f"{op} ({how}) {hist}: {why}")
    return out


def _failures(c, r, backend=None):
    """list of (class id or None, text)"""
    fn, a = c["fn"], c["args"]
    f = []
    if r and r[0] == 1:
        return [(None, f"harness raised {r[1:]}")]
    if fn == "locales":
        if r[1:] != locale_names():
            f.append((None, f"shipped locales {r[1:]} differ from the source tree's {locale_names()}"))
    elif fn in ("fmt_grid", "fmt_batch"):
        li, loc = a[0], a[1]
        recs = list(_grid_records(a[2], a[3], a[4])) if fn == "fmt_grid" else a[2]
        k = 1
        for rec in recs:
            neg = any(x < 0 for x in rec)
            for inv, now, ab in FLAGS:
                s = r[k]
                k += 1
                if neg:
                    # outside the domain of differences (diff() is absolute): only totality is required
                    why = f"raised {s[1:]}" if s.startswith("!") else ("empty" if not s else None)
                else:
                    why = _check_phrase(loc, rec, inv, now, ab, s)
                if why:
                    cls = "zh-time-placeholder" if (loc == "zh" and not now and not ab and s == "!KeyError") else None
                    f.append((cls, f"format_diff(components={rec}, invert={bool(inv)}, is_now={bool(now)}, absolute={bool(ab)}, locale={loc!r}): {why}"))
    elif fn == "words_batch":
        li, loc, recs, sep = a
        k = 1
        for rec in recs:
            for which in ("Duration", "Interval"):
                s = r[k]
                k += 1
                why = _check_words(loc, rec, sep, s)
                if why:
                    f.append((None, f"{which}.in_words(components={rec[:7]}, microseconds={rec[7]}, locale={loc!r}): {why}"))
    elif fn == "classes":
        li, loc, ns = a
        data = locale_data(loc)
        for i, n in enumerate(ns):
            pl, od, oz = r[1 + 3 * i: 4 + 3 * i]
            if pl.startswith("!") or od.startswith("!") or oz.startswith("!"):
                f.append((None, f"{loc}: plural/ordinal/ordinalize({n}) raised: {pl} {od} {oz}"))
                continue
            # every class the lambda can return must exist wherever the formatter will look it up
            for u in UNITS:
                if pl not in data["translations"]["units"][u]:
                    f.append((None, f"{loc}: plural({n}) = {pl!r} has no translations.units.{u} entry"))
            if not oz.startswith(str(n)):
                f.append((None, f"{loc}: ordinalize({n}) = {oz!r}"))
    elif fn == "tokens":
        li, loc, year = a
        toks = TOKENS + DATE_FORMATS
        k = 1
        for m, kk, hour in _token_points():
            for tok in toks:
                s = r[k]
                k += 1
                why = _check_token(loc, tok, year, m, 1 + kk, hour, s)
                if why:
                    cls = "nl-week-data" if (loc == "nl" and tok in ("e", "eo") and s == "!TypeError") else None
                    f.append((cls, f"format({tok!r}, locale={loc!r}) on {year}-{m}-{1 + kk}: {why}"))
    elif fn == "session":
        for why in _check_session(a[0], r[1:]):
            f.append((None, why))
    elif fn == "default_locale":
        for it, res in zip(a[0], r[1:]):
            if res != [1]:
                f.append((None, f"{it} without a locale argument gives {res[1]!r}, with locale=get_locale() (= {res[3]!r}) it gives {res[2]!r}: "
                                "the call does not render with the configured locale"))
    elif fn == "instants":
        li, loc, items = a
        for it, res in zip(items, r[1:]):
            reg = None
            for part, why in _check_instants(loc, it, res):
                cls = "zh-time-placeholder" if (loc == "zh" and not it[4] and "raised KeyError" in why) else None
                if cls is None and part == "dt":
                    # a listed finding is recognised by the call site (DateTime.diff / diff_for_humans(other)) and the region of the input
                    reg = reg or _region(it, backend or "py") or "-"
                    if reg != "-":
                        cls = reg
                f.append((cls, f"{loc} {it}: {why}"))
    elif fn == "natives":
        li, loc, items = a
        for it, res in zip(items, r[1:]):
            reg = None
            for part, why in _check_natives(loc, it, res):
                cls = None
                if part == "dt":
                    reg = reg or _native_region(it, backend or "py") or "-"
                    if reg == "native-naive-operand":
                        # the finding is the TypeError of the mixed naive pair and nothing else
                        cls = reg if why == "raised TypeError" else None
                    elif reg != "-":
                        cls = reg
                f.append((cls, f"{loc} {it}: {why}"))
    elif fn == "durations":
        li, loc, durs = a
        for du, res in zip(durs, r[1:]):
            for why in _check_duration(loc, du, res):
                f.append((None, f"{loc} duration{tuple(du)}: {why}"))
    elif fn == "glue":
        for name, got, want in r[1:]:
            if got != want or got.startswith("!") and name != "nolocale":
                f.append((None, f"{name}: {got!r} vs {want!r}"))
    return f


def _check_words(loc, rec, sep, s):
    if s.startswith("!"):
        return f"raised {s[1:]}"
    if s == "" or "{" in s or "}" in s:
        return f"bad string {s!r}"
    data = locale_data(loc)
    units = data["translations"]["units"]
    parts = []
    for u, cnt in zip(UNITS, rec[:7]):
        if abs(cnt) > 0:
            parts.append({t.format(cnt) for t in units[u].values()})
    if not parts:
        us = rec[7]
        if abs(us) > 0:
            import decimal
            import fractions
            # exact value of the double abs(us)/1e6, rounded half-even to 2 places
            dv = decimal.Decimal(abs(us) / 1e6).quantize(decimal.Decimal("0.01"), rounding=decimal.ROUND_HALF_EVEN)
            parts.append({t.format(f"{dv:.2f}") for t in units["second"].values()})
            if abs(fractions.Fraction(abs(us), 10 ** 6) - fractions.Fraction(str(dv))) > fractions.Fraction(1, 100):
                return f"{s!r} is not within 0.01 s of {us} us"
        else:
            parts.append({t.format(0) for t in units["microsecond"].values()})
    # the string must be a separator-join of one admissible phrase per non-zero unit, in order
    cands = {""}
    for i, p in enumerate(parts):
        cands = {c + (sep if i else "") + x for c in cands for x in p}
        if len(cands) > 4096:
            return None
    return None if s in cands else f"{s!r} is not the unit-by-unit wording, e.g. {sorted(cands)[:2]}"


def _add_months(dt, n):
    import calendar
    y, m = divmod(dt.year * 12 + dt.month - 1 + n, 12)
    m += 1
    if not 1 <= y <= 9999:
        return None
    return dt.replace(year=y, month=m, day=min(dt.day, calendar.monthrange(y, m)[1]))


def _dim(y, m):
    import calendar
    return calendar.monthrange(y, m)[1]


def _rs_shift_irregular(x, y):
    """Region of listed finding rs-cross-zone-shift (C06), as a predicate on the two operands: the compiled precise_diff subtracts the UTC
    offset from (hour, minute, second, day) by hand — truncating division, carries tested with `> 60` / `> 24`, the day moved without any
    month carry — whenever the zone names differ (and the offset is not 0) or both operands fall on the same local date; the region is where
    that leaves second 60, minute 60, hour 24, day 0 or a day past the end of the month.  The offsets are those of the natives Interval.__init__
    builds, which carry the operands' fold (since the repair of finding interval-init-drops-fold): the operands' own offsets."""
    same = _tz_name(x["zone"]) == _tz_name(y["zone"])
    td0 = x["f"][:3] == y["f"][:3]

    def tq(a, b):
        q = abs(a) // b
        return q if a >= 0 else -q
    for op in (x, y):
        off = op["off"]
        if off == 0 or not ((not same) or td0):
            continue
        yy, mo, dd, hh, mm, ss = op["f"]
        hh -= tq(off, 3600)
        off -= tq(off, 3600) * 3600
        mm -= tq(off, 60)
        off -= tq(off, 60) * 60
        ss -= off
        if ss < 0:
            ss += 60; mm -= 1
        elif ss > 60:
            ss -= 60; mm += 1
        if mm < 0:
            mm += 60; hh -= 1
        elif mm > 60:
            mm -= 60; hh += 1
        if hh < 0:
            hh += 24; dd -= 1
        elif hh > 24:
            hh -= 24; dd += 1
        if ss == 60 or mm == 60 or hh == 24 or dd < 1 or dd > _dim(yy, mo):
            return True
    return False


def _region(it, backend=None):
    """The listed finding (or None) whose region — a predicate on the INPUT — contains this pair of instants:
       same-tzinfo-wall-order    both values carry the same zone and CPython's wall-clock comparison of them (fold ignored: `start > end` in
                                 Interval, `d1 == d2` / `d1 > d2` in precise_diff) is not the comparison of the instants — the wall order is
                                 reversed, or the two are the two occurrences of ONE wall time and compare equal (C05);
       rs-cross-zone-shift       compiled backend only (backend None: either), see _rs_shift_irregular (C06);
       interval-init-drops-fold  (REPAIRED, status fixed: a failure classified here is reported as a VIOLATION) one of them is the second
                                 occurrence of a repeated wall time — Interval.__init__ used to rebuild its natives without fold=.
    The two listed findings come first: inside their regions a failure is theirs whichever occurrence the endpoints are."""
    x, y = _operands(it)
    if _tz_name(x["zone"]) == _tz_name(y["zone"]) and ((x["f"] > y["f"]) != (x["t"] > y["t"]) or (x["f"] == y["f"]) != (x["t"] == y["t"])):
        return "same-tzinfo-wall-order"
    if backend in (None, "rs") and _rs_shift_irregular(x, y):
        return "rs-cross-zone-shift"
    if x["off"] != x["off0"] or y["off"] != y["off0"]:
        return "interval-init-drops-fold"
    return None


def _check_instants(loc, it, res):
    """list of (part, reason); part "dt" = DateTime.diff / diff_for_humans(other), the part the listed findings are about"""
    import datetime
    st, span, zone, swap, ab = it[:5]
    s_dt, s_fd, cs, inv, s_date, cs_date, s_time, xw, yw, s_words, s_words_duck = res
    X, Y = _operands(it)
    cross = _tz_name(X["zone"]) != _tz_name(Y["zone"])
    out = []
    for nm, got, op in (("instance", xw, X), ("reference", yw, Y)):
        # (fold is compared only where it selects the offset; pendulum marks unambiguous values fold=1 or 0 depending on how they were made)
        if got[:7] != op["f"] + [op["off"]] or (op["off"] != op["off0"] and got[7] != op["fold"]):
            out.append(("operands", f"the {nm} is {got} (fields, offset, fold), zoneinfo says {op['f'] + [op['off'], op['fold']]}"))
    # direction: the instance is x, the reference y; x later than y <=> future marker
    x_later = bool(swap) and span > 0
    if bool(inv) != x_later:
        out.append(("dt", f"invert={inv} but instance {'later' if x_later else 'not later'} than reference"))
    if s_dt != s_fd:
        out.append(("dt", f"diff_for_humans(other) {s_dt!r} differs from format_diff on its own difference {s_fd!r}"))
    why = _check_phrase(loc, cs, int(x_later), 0, ab, s_dt)
    if why:
        out.append(("dt", "diff_for_humans(other): " + why))
    # magnitude.  Values in different zones, or on one local date, are compared in UTC; so are values with equal offsets in effect: below 28 days
    # the difference then has no calendar part and its components ARE the elapsed time, so the phrase is the documented rounding of it
    if span < 28 * 86400 and (cross or X["f"][:3] == Y["f"][:3] or X["off"] == Y["off"]):
        dd = span // 86400
        true = [0, 0, dd // 7, dd % 7, span // 3600 % 24, span // 60 % 60, span % 60]
        if cs != true:
            out.append(("dt", f"components {cs} of the difference are not the elapsed time {true} ({span} s)"))
        why = _check_phrase(loc, true, int(x_later), 0, ab, s_dt)
        if why:
            out.append(("dt", f"diff_for_humans(other) for {span} s elapsed: " + why))
    # within one unit of the true elapsed time (UTC instants; wall clock for calendar units)
    unit, count = _expected(cs)
    length = {"second": 1, "minute": 60, "hour": 3600, "day": 86400, "week": 7 * 86400}
    if unit == "few":
        if not span <= 10:
            out.append(("dt", f"'a few seconds' for {span} s"))
    elif unit in length:
        if not abs(count * length[unit] - span) < length[unit] + (3600 if unit in ("day", "week") and zone != "UTC" and not cross else 0):
            out.append(("dt", f"{count} {unit}(s) is not within one {unit} of {span} s"))
    else:
        if cross:
            a = datetime.datetime(*X["f"]) - datetime.timedelta(seconds=X["off"])
            b = datetime.datetime(*Y["f"]) - datetime.timedelta(seconds=Y["off"])
        else:
            a = datetime.datetime(*xw[:6])
            b = datetime.datetime(*yw[:6])
        lo, hi = min(a, b), max(a, b)
        k = 12 if unit == "year" else 1
        lo_b, hi_b = _add_months(lo, (count - 1) * k), _add_months(lo, (count + 1) * k)
        if lo_b is not None and hi_b is not None and not (lo_b - datetime.timedelta(hours=2) <= hi <= hi_b + datetime.timedelta(hours=2)):
            out.append(("dt", f"{count} {unit}(s) is not within one {unit} of {lo} .. {hi}"))
    # Date and Time flavours: total, directed
    da, db = datetime.date(*xw[:3]), datetime.date(*yw[:3])
    why = _check_phrase(loc, cs_date, int(da > db), 0, ab, s_date)
    if why:
        out.append(("date", "Date.diff_for_humans(other): " + why))
    ta, tb = xw[3] * 3600 + xw[4] * 60 + xw[5], yw[3] * 3600 + yw[4] * 60 + yw[5]
    d = abs(ta - tb)
    rec = [0, 0, 0, 0, d // 3600, d // 60 % 60, d % 60]
    why = _check_phrase(loc, rec, int(ta > tb), 0, ab, s_time)
    if why:
        out.append(("time", "Time.diff_for_humans(other): " + why))
    if s_words != s_words_duck:
        out.append(("words", f"Interval.in_words {s_words!r} differs from in_words on its own components {s_words_duck!r}"))
    why = _check_words(loc, cs + [0], " ", s_words) if any(cs) else (None if s_words and not s_words.startswith("!") and "{" not in s_words else f"bad {s_words!r}")
    if why:
        out.append(("words", "Interval.in_words: " + why))
    return out

def _check_natives(loc, it, res):
    """list of (part, reason) for one item of the instants-native stream: direction + documented rounding of the TRUE elapsed time, whatever
    the concrete type of the operands; "dt" = the part the listed findings are about"""
    import datetime
    st, span, zone, swap, ab, zone2, kind, route, iv_abs = it
    X, Y = _native_operands(it)
    out = []

    def views(xv, yv):
        for nm, got, op in (("first", xv, X), ("second", yv, Y)):
            want_mod = "datetime" if (op["native"] or (kind == "date" and route == "dfh" and nm == "second")) else "pendulum"
            if kind == "date":
                ok = got[:3] == op["f"][:3]
            else:
                ok = got[:6] == op["f"] and got[6] == (op["off"] if kind == "aware" else -1) and (op["off"] == op["off0"] or got[7] == op["fold"])
            if not ok or got[8] != want_mod:
                out.append(("operands", f"harness: the {nm} operand is {got}, expected {op['f']} offset {op['off']} fold {op['fold']} from {want_mod}"))
    if len(res) == 3:
        views(res[1], res[2])
        out.append(("dt", f"raised {res[0][1:]}"))
        return out
    s_dt, s_fd, cs, inv, xv, yv, s_words, s_words_duck, us, ends = res
    views(xv, yv)
    if ends != ["pendulum", "pendulum"]:
        out.append(("dt", f"the interval's start/end are {ends} values, not pendulum ones"))
    if us != 0:
        out.append(("dt", f"microseconds {us} for whole-second operands"))
    true_span = abs((datetime.date(*Y["f"][:3]) - datetime.date(*X["f"][:3])).days) * 86400 if kind == "date" else span
    x_later = (X["f"][:3] > Y["f"][:3]) if kind == "date" else (bool(swap) and span > 0)
    if bool(inv) != x_later:
        out.append(("dt", f"invert={inv} but the first value is {'later' if x_later else 'not later'} than the second"))
    if s_dt != s_fd:
        out.append(("dt", f"the phrase {s_dt!r} differs from format_diff on the difference's own components {s_fd!r}"))
    if s_words != s_words_duck:
        out.append(("words", f"Interval.in_words {s_words!r} differs from in_words on its own components {s_words_duck!r}"))
    if x_later and not iv_abs:
        # a non-absolute interval that runs backwards: negative components, outside the domain of differences — totality only
        for nm, s_ in (("format_diff", s_dt), ("in_words", s_words)):
            if s_.startswith("!") or not s_ or "{" in s_:
                out.append(("dt", f"{nm} on a backward interval: {s_!r}"))
        want = [-c for c in _elapsed_comps(true_span)]
        if true_span < 28 * 86400 and kind != "date" and (X["name"] != Y["name"] or X["f"][:3] == Y["f"][:3] or X["off"] == Y["off"]) and cs != want:
            out.append(("dt", f"components {cs} of the backward interval are not minus the elapsed time {want} ({true_span} s)"))
        return out
    why = _check_phrase(loc, cs, int(x_later), 0, ab, s_dt)
    if why:
        out.append(("dt", "phrase: " + why))
    why = _check_words(loc, cs + [0], " ", s_words) if any(cs) else (None if s_words and not s_words.startswith("!") and "{" not in s_words else f"bad {s_words!r}")
    if why:
        out.append(("words", "Interval.in_words: " + why))
    cross = X["name"] != Y["name"]
    # magnitude: differences computed in UTC (different zones, one local date, equal offsets, dates) below 28 days have no calendar part:
    # the components ARE the elapsed time and the phrase is its documented rounding
    if true_span < 28 * 86400 and (kind == "date" or cross or X["f"][:3] == Y["f"][:3] or X["off"] == Y["off"]):
        true = _elapsed_comps(true_span)
        if cs != true:
            out.append(("dt", f"components {cs} of the difference are not the elapsed time {true} ({true_span} s)"))
        why = _check_phrase(loc, true, int(x_later), 0, ab, s_dt)
        if why:
            out.append(("dt", f"phrase for {true_span} s elapsed: " + why))
        if any(true):
            why = _check_words(loc, true + [0], " ", s_words)
            if why:
                out.append(("dt", f"in_words for {true_span} s elapsed: " + why))
    unit, count = _expected(cs)
    length = {"second": 1, "minute": 60, "hour": 3600, "day": 86400, "week": 7 * 86400}
    if unit == "few":
        if not true_span <= 10:
            out.append(("dt", f"'a few seconds' for {true_span} s"))
    elif unit in length:
        if not abs(count * length[unit] - true_span) < length[unit] + (3600 if unit in ("day", "week") and kind == "aware" and not cross and X["off"] != Y["off"] else 0):
            out.append(("dt", f"{count} {unit}(s) is not within one {unit} of {true_span} s"))
    else:
        if cross:
            a_ = datetime.datetime(*X["f"]) - datetime.timedelta(seconds=X["off"])
            b_ = datetime.datetime(*Y["f"]) - datetime.timedelta(seconds=Y["off"])
        else:
            a_, b_ = datetime.datetime(*X["f"]), datetime.datetime(*Y["f"])
        lo, hi = min(a_, b_), max(a_, b_)
        k = 12 if unit == "year" else 1
        lo_b, hi_b = _add_months(lo, (count - 1) * k), _add_months(lo, (count + 1) * k)
        if lo_b is not None and hi_b is not None and not (lo_b - datetime.timedelta(hours=2) <= hi <= hi_b + datetime.timedelta(hours=2)):
            out.append(("dt", f"{count} {unit}(s) is not within one {unit} of {lo} .. {hi}"))
    return out


def _elapsed_comps(span):
    dd = span // 86400
    return [0, 0, dd // 7, dd % 7, span // 3600 % 24, span // 60 % 60, span % 60]


def _check_duration(loc, du, res):
    import datetime
    y, mo, w, dd, h, mi, s, sign = du
    cs, inv, words, words_duck, f1, f1d, f2, f2d = res
    out = []
    total = sign * (((w * 7 + dd) * 24 + h) * 3600 + mi * 60 + s)
    # components: years/months kept, the rest normalised from the total number of seconds, all with the duration's sign
    t = abs(total)
    sg = -1 if total < 0 else 1
    exp = [sign * y, sign * mo, sg * (t // 86400 // 7), sg * (t // 86400 % 7), sg * (t // 3600 % 24), sg * (t // 60 % 60), sg * (t % 60)]
    if cs != exp:
        out.append(f"components {cs} are not the normal form {exp}")
    if words != words_duck:
        out.append(f"in_words {words!r} differs from in_words on its own components {words_duck!r}")
    if f1 != f1d or f2 != f2d:
        out.append(f"format_diff on the Duration ({f1!r}, {f2!r}) differs from format_diff on its own components ({f1d!r}, {f2d!r})")
    why = _check_words(loc, cs + [0], " ", words)
    if why:
        out.append("in_words: " + why)
    if sign > 0:
        full_days = sign * (y * 365 + mo * 30) * 86400 + total
        if bool(inv) != (full_days < 0):
            out.append(f"invert={inv}")
        for s_, now, ab in ((f1, 1, 0), (f2, 0, 1)):
            why = _check_phrase(loc, cs, inv, now, ab, s_)
            if why:
                out.append("format_diff: " + why)
    else:
        for s_ in (f1, f2):
            if s_.startswith("!") or not s_ or "{" in s_:
                out.append(f"format_diff on a negative duration: {s_!r}")
    return out


def oracle(c, backend, r):
    f = _failures(c, r, backend)
    if not f:
        return None
    unk = [t for k, t in f if k is None]
    return (unk or [t for k, t in f])[0] + (f"  (+{len(f) - 1} more in this batch)" if len(f) > 1 else "")


def known(c, backend, r):
    f = _failures(c, r, backend)
    kinds = {k for k, _ in f}
    if len(kinds) == 1 and None not in kinds:
        return kinds.pop()
    return None


LEVEL_TEXT = ("Machine-checked Coq theorems over the generated tables of ALL shipped locales and the translated unit-selection chain: for every count (unbounded), "
              "every flag combination and every locale the formatter finds its key and every replacement field of the template is substituted (non-empty, brace-free "
              "output), proved via plural_range (a plural lambda only returns its leaves) + finite reflection over locales x units x classes x flags; the same for "
              "in_words and the locale-dependent tokens; unit/count rounding and direction specs; the process-wide default locale as a state machine over whole call "
              "histories (a rejected set_locale keeps the configuration, the configuration is the last successfully set name and always loads, rendering with the ambient "
              "locale is total after EVERY history, results with an explicit locale are independent of the history); DateTime.diff_for_humans(other) end to end on the C06 "
              "precise_diff models (total; direction proved for different tzinfo objects or equal offsets, refuted inside a repeated hour; precise_diff is handed the "
              "operands themselves, each with the offset its own fold selects, for EVERY pair — diff_sees_operands, full strength since finding interval-init-drops-fold "
              "was repaired (Interval.__init__ rebuilt its natives without fold=), diff_second_occurrence re-computes its former witness: one hour, both backends, both directions; "
              "magnitude refuted for the compiled helper's mis-carried UTC shift — two listed findings with machine-checked witnesses — and PROVED within one unit of the "
              "true elapsed time for zero-offset pairs less than a day apart, both backends, through C06's characterisation of precise_diff); the three defects found here and repaired by fix: commits "
              "in /repo (zh {time} templates, nl week_data, Interval.__init__ dropping fold) have their statements proved at full strength and are reported as violations if they return. Exhaustive correspondence model = implementation, string for string.")
DESIGN_REF = "DESIGN.md section 4 C18"
LEVEL_NOTE = ("Trusted: Coq kernel+VM, the generator g30_locales (ast -> Gallina tables; str.format field parsing by string.Formatter), the hand model of the key construction "
              "(its source text is pinned by the generator and every output string is compared), the hand models LocaleSession.v (default-locale state machine) and "
              "DiffHumans.v (Interval glue over the C06 precise_diff models), extraction+driver. Inside the model: format_diff/in_words/tokens on component records, "
              "whole set_locale/get_locale/render histories, DateTime.diff/diff_for_humans(other) on pairs of instants in one or two zones, per backend. Oracle only "
              "(model_calls gives no output for them): Date/Time.diff_for_humans, real Duration objects, diff_for_humans/str(duration) inside sessions, set_locale of a "
              "non-str, the default-locale stream, the clock-relative glue calls. For differences compared in UTC below 28 days the oracle demands the exact documented "
              "rounding of the TRUE elapsed time, elsewhere 'within one unit'.")
TECHNIQUE = "Coq proof (structural induction on plural ASTs + finite reflection over generated locale tables) over translated data/code; differential correspondence; stdlib oracle"


# ---- model = code theorems for the locale session (appended) ----
TRUSTED = [t for t in TRUSTED] + ["model_is_code_normalize_locale / _locale_load / _locale_cache_transparent / _locale / _set_locale / _get_locale / _format_diff: Locale.normalize_locale, Locale.load, helpers.locale, set_locale, get_locale and format_diff are translated from /repo on every run (Gen/HumanizeGlue.v, tools/vlib/gens/g18_humanize_glue.py; pendulum._LOCALE and Locale._cache threaded as explicit state) and proved equal to the steps of Model/LocaleSession.v (SSet, SGet, SLoad, SFmt) for every state, cache satisfying cache_ok and argument; the transparency of Locale._cache is now a THEOREM (cache_ok holds of the empty cache and is preserved), not an assumption. By hand: coq/Model/HumanizeObj.v (str = code points, the dict as an association list, re.match of the one locale pattern, existence of a shipped locale directory and import_module = the generated tables); recognised shapes: the existence loop of Locale.load -> a single test (its first iteration raises), set_locale's two statements, the f-strings. STILL hand-written + pinned: DifferenceFormatter.format and Locale.get/translation/plural/ordinal/ordinalize (Model/DiffFormat.v, Model/LocaleBase.v), Duration.in_words / Interval.in_words, DateTime.diff_for_humans, Formatter.format's locale default"]
LEVEL_NOTE = LEVEL_NOTE + " " + "model_is_code_normalize_locale / _locale_load / _locale_cache_transparent / _locale / _set_locale / _get_locale / _format_diff: Locale.normalize_locale, Locale.load, helpers.locale, set_locale, get_locale and format_diff are translated from /repo on every run (Gen/HumanizeGlue.v, tools/vlib/gens/g18_humanize_glue.py; pendulum._LOCALE and Locale._cache threaded as explicit state) and proved equal to the steps of Model/LocaleSession.v (SSet, SGet, SLoad, SFmt) for every state, cache satisfying cache_ok and argument; the transparency of Locale._cache is now a THEOREM (cache_ok holds of the empty cache and is preserved), not an assumption. By hand: coq/Model/HumanizeObj.v (str = code points, the dict as an association list, re.match of the one locale pattern, existence of a shipped locale directory and import_module = the generated tables); recognised shapes: the existence loop of Locale.load -> a single test (its first iteration raises), set_locale's two statements, the f-strings. STILL hand-written + pinned: DifferenceFormatter.format and Locale.get/translation/plural/ordinal/ordinalize (Model/DiffFormat.v, Model/LocaleBase.v), Duration.in_words / Interval.in_words, DateTime.diff_for_humans, Formatter.format's locale default" + "."


# ---- model = code theorems for in_words / diff_for_humans / Locale.plural, ordinal, ordinalize (appended) ----
_MIC2 = ("model_is_code_in_words_duration / _in_words_interval / in_words_interval_is_in_words_duration / model_is_code_diff_for_humans / _diff_for_humans_date / "
         "diff_for_humans_model_is_DiffHumans / model_is_code_locale_plural / _locale_ordinal / _locale_ordinalize: Duration.in_words, Interval.in_words, "
         "DateTime.diff_for_humans, Date.diff_for_humans, Locale.plural, Locale.ordinal and Locale.ordinalize are now translated from /repo on every run "
         "(Gen/HumanizeGlue.v; state and Locale._cache threaded) and proved equal to the SWords step of Model/LocaleSession.v (DiffFormat.in_words on the loaded "
         "locale), to the wiring other/is_now/absolute/locale -> diff_comps -> the SFmt step (with an explicit other and a loading locale that is "
         "Model/DiffHumans.v diff_for_humans), and to LocaleBase.lplural / lordinal / DiffFormat.ordinalize. Interval.in_words loads "
         "`locale or get_locale()`, Duration.in_words tests `locale is None`: the two are proved the same function except for locale='' (where the Interval uses the "
         "configured locale; '' is outside the session streams, see ASSUMPTIONS). Recognised shapes: the `intervals` literal -> a generated list; the for loop -> "
         "the left fold (hand template) of its TRANSLATED body; parts.append on the fresh local list -> functional append; self.now()/self.today() -> an explicit "
         "clock input; `count: int | str = 0` -> str(0) (format uses its argument through str only). By hand (coq/Model/HumanizeObj.v): the receiver of in_words "
         "is its seven component values and .microseconds; a dotted key f'units.{u}.{c}' / f'custom.ordinal.{c}' is its components and Locale.get / "
         "Locale.translation's split-and-walk is LocaleBase.lookup (NOT translated, nor Locale._key_cache); str.format on a template (LocaleBase.node_format); "
         "f'{abs(us) / 1e6:.2f}' (DiffFormat.fmt2); self.diff(other) = DiffHumans.diff_comps. STILL hand-written + pinned in C18: DifferenceFormatter.format's "
         "key construction (Model/DiffFormat.v format; its unit chain is Gen.Locales.gen_pick), Locale.get / translation, Formatter.format's locale default and tokens")
TRUSTED = [t for t in TRUSTED] + [_MIC2]
LEVEL_NOTE = LEVEL_NOTE + " " + _MIC2 + "."


# ---- model = code theorems for Locale.get / Locale.translation (appended) ----
_MIC3 = ("model_is_code_locale_get / _locale_translation / locale_key_cache_transparent / locale_key_cache_starts_ok / in_words_translation_is_code / "
         "ordinalize_get_is_code (this supersedes the 'NOT translated' remarks about Locale.get / translation above): Locale.get and Locale.translation are "
         "now translated from /repo on every run (Gen/HumanizeGlue.v): key.split('.'), the walk self._data[parts[0]][part]..., `except KeyError: result = default` "
         "(a match on the exception kind of the result monad; TypeError from subscripting a str / int / function propagates), and the per-object memo "
         "self._key_cache threaded as explicit state. Proved: for the key 'p1.p2...pn' of a non-empty path of dot-free components, get = LocaleBase.lookup on "
         "[p1; ...; pn] and translation = lookup on 'translations' :: path, for every memo satisfying kc_ok (every entry is what a fresh call returns; holds of the "
         "empty memo, preserved); for ANY key the value returned does not depend on the memo (transparency is a theorem, not an assumption). The hand primitives "
         "loc_translation / loc_get_custom_ordinal that the in_words and ordinalize theorems are stated over are proved to BE these translations on every key "
         "those functions build on a shipped locale (all unit names and all plural / ordinal classes of all 27 locales are dot-free: computed in Coq). "
         "Scope: get's default argument is None (no caller in pendulum passes another one; with a non-None default the memo would remember the default of the "
         "FIRST call — not modelled). By hand: str.split on one character (psplit), d[k] on the generated node tree (node_getitem; int keys never equal a str), "
         "the association-list memo, the left-fold template of the for loop over its translated body")
TRUSTED = [t for t in TRUSTED] + [_MIC3]
LEVEL_NOTE = LEVEL_NOTE + " " + _MIC3 + "."


# ---- operands handed in as native values (appended) ----
_NATIVE = ("Stream instants-native / Model/DiffHumansNative.v (hand model, compared output by output with both backends): Interval on operands given as stdlib values — "
           "__new__ on the values as given, __init__ on pendulum.instance of them (datetime-subclass instances handed to precise_diff as they are; the C06 models of "
           "precise_diff treat a subclass instance as a datetime in get_tz_name / get_offset / field extraction). Props/C18.v: native_operand_transparent, "
           "native_aware_operand_transparent (the result does not depend on how the operand was handed in when both views order the pair alike), "
           "native_reference_three_hours (both backends), native_operand_transparent_refuted (repeated hour: finding same-tzinfo-wall-order), native_total_refuted / "
           "native_total_partial / native_raises_only_for_mixed_kinds (finding native-naive-operand), format_diff_native_total, native_direction_is_init_order. "
           "Oracle only: the pure-Python backend inside the region of finding py-native-endpoint-shift (pendulum's timeline arithmetic inside the helper's UTC normalisation "
           "is not modelled; the harness computes the region with zoneinfo); the tzinfo objects of native values are built by the harness, one per zone")
TRUSTED = [t for t in TRUSTED] + [_NATIVE]
LEVEL_NOTE = LEVEL_NOTE + " " + _NATIVE + "."
