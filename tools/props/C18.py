"""C18 — human-readable differences are total, localized and correctly directed."""
from __future__ import annotations

import ast
import itertools
import os
import random
import re

ID = "C18"
PROPS = "Props/C18.v"
VM_SUBSET = 120
RULE = ("fmt-grid: every shipped locale x 7 units x counts (0..130 + plural-class boundaries in quick, 0..1000 in thorough) x {now, other} x {past, future} x "
        "{absolute, relative}, the count placed in the unit's component of a duck-typed difference object passed to pendulum.format_diff; "
        "fmt-boundary: component records at every rounding threshold (+-1) x all flags x all locales (seed-rotated subset of the product in quick); "
        "words: Duration.in_words / Interval.in_words on component records of either sign, microsecond-only and zero durations, all locales; "
        "tokens: every locale x 12 months x 7 weekdays x AM/PM x all locale-dependent tokens; plural/ordinal: lambdas on 0..1200 and large values; "
        "instants: random and boundary pairs of instants (several zones) through diff_for_humans(other)/Date/Time and real Duration/Interval objects. "
        "A case is non-trivial when it is a distinct (function, argument) tuple; model (extracted Coq) and implementation are compared string for string, "
        "and the stdlib oracle re-derives the admissible phrases from the locale files parsed with ast.")
EXHAUSTIVE = {"quick": False, "thorough": True}
TRUSTED = ["string.Formatter().parse (CPython's own str.format field parser) is used by the generator to split templates into literal text and replacement fields",
           "Coq.Floats.SpecFloat.SFdiv (binary64) models abs(us)/1e6 and '%.2f' is modelled as exact round-half-even of that double (validated by the words-us stream)",
           "the key-construction part of DifferenceFormatter.format and in_words are hand models (coq/Model/DiffFormat.v): the generator pins the source text of that part, "
           "the correspondence run compares every output string"]
ASSUMPTIONS = ["difference objects carry integer components (years, months, weeks, remaining_days, hours, minutes, remaining_seconds) as produced by Duration/Interval",
               "locale names are given in normalized form (Locale.normalize_locale / the en_xx -> en fallback are exercised by the oracle only)"]

REPO = os.environ.get("VERIF_REPO", "/repo")
UNITS = ["year", "month", "week", "day", "hour", "minute", "second"]
TOKENS = ["MMM", "MMMM", "dd", "ddd", "dddd", "e", "Do", "do", "Mo", "eo", "A"]       # model token ids 0..10
DATE_FORMATS = ["LTS", "LT", "L", "LL", "LLL", "LLLL"]
EXN = {1: "ValueError", 2: "TypeError", 3: "OverflowError", 4: "IndexError", 6: "AttributeError", 7: "KeyError", 15: "Unmodelled"}
FLAGS = [(inv, now, ab) for inv in (0, 1) for now in (0, 1) for ab in (0, 1)]
ZONES = ["UTC", "Europe/Paris", "America/New_York", "Pacific/Kiritimati", "Asia/Kolkata"]


# ----------------------------------------------------------------------------- locale files, read with ast (never imported)
_LOC = {}


def locale_names():
    root = os.path.join(REPO, "src", "pendulum", "locales")
    return sorted(d for d in os.listdir(root) if os.path.isfile(os.path.join(root, d, "locale.py")))


def _lit(node, imports, depth=0):
    if isinstance(node, ast.Dict):
        return {_lit(k, imports): _lit(v, imports) for k, v in zip(node.keys, node.values)}
    if isinstance(node, ast.Constant):
        return node.value
    if isinstance(node, ast.Lambda):
        return None
    if isinstance(node, ast.Name) and node.id in imports and depth == 0:
        mod, name = imports[node.id]
        p = os.path.join(REPO, "src", *mod.split(".")) + ".py"
        return _module_value(p, name, depth + 1)
    raise ValueError("locale data: " + ast.dump(node)[:80])


def _module_value(path, name, depth=0):
    tree = ast.parse(open(path, encoding="utf-8").read())
    imports, val = {}, None
    for st in tree.body:
        if isinstance(st, ast.ImportFrom):
            for al in st.names:
                imports[al.asname or al.name] = (st.module, al.name)
        elif isinstance(st, ast.Assign) and st.targets[0].id == name:
            val = st.value
    return _lit(val, imports, depth)


def locale_data(loc):
    if loc not in _LOC:
        _LOC[loc] = _module_value(os.path.join(REPO, "src", "pendulum", "locales", loc, "locale.py"), "locale")
    return _LOC[loc]


def _get(d, *path):
    for p in path:
        if not isinstance(d, dict) or p not in d:
            return None
        d = d[p]
    return d


# ----------------------------------------------------------------------------- cases
def _grid_counts(tier, rnd):
    if tier == "thorough":
        return [(0, 1001)]
    return [(0, 131), (198, 206), (998, 1001)]


def _boundary_records(rnd, tier):
    ys, mos = [0, 1, 2, 5], [0, 1, 6, 7, 10, 11, 12]
    ws, ds = [0, 1, 2, 3, 4], [0, 1, 3, 4, 5, 6]
    hs, mis, ss = [0, 1, 21, 22, 23], [0, 1, 59], [0, 1, 10, 11, 59, 60]
    full = list(itertools.product(ys, mos, ws, ds, hs, mis, ss))
    if tier != "thorough":
        # the thresholds interact only between adjacent components: keep records where at most 3 components are non-zero, plus a random sample
        keep = [r for r in full if sum(1 for x in r if x) <= 2]
        keep += rnd.sample(full, 1500)
        full = sorted(set(keep))
    # days thresholds 15/16 and 26/27 are reached through weeks*7 + remaining_days
    extra = [(0, mo, w, d, h, 0, 0) for mo in (0, 1, 11) for w in (2, 3) for d in (0, 1, 2, 5, 6) for h in (0, 22)]
    extra += [(y, mo, 0, 0, 0, 0, 0) for y in (0, 1, 3) for mo in range(0, 13)]
    extra += [(0, 0, 0, 0, 0, 0, s) for s in range(-2, 62)]
    extra += [(-1, 0, 0, 0, 0, 0, 0), (0, -2, 0, 0, 0, 0, 0), (0, 0, 0, -3, 0, 0, 0), (0, 0, 0, 0, 0, 0, -30), (0, 0, -1, -2, -3, -4, -5)]
    return sorted(set(full + extra))


def cases(tier, seed):
    rnd = random.Random(seed)
    locs = locale_names()
    out = [{"stream": "locales", "fn": "locales", "args": []}]
    # 1. grid
    for li, loc in enumerate(locs):
        for ui in range(7):
            for lo, hi in _grid_counts(tier, rnd):
                out.append({"stream": "fmt-grid", "fn": "fmt_grid", "args": [li, loc, ui, lo, hi]})
    # 2. boundary records
    recs = _boundary_records(rnd, tier)
    for li, loc in enumerate(locs):
        if tier == "thorough" or loc in ("en", "zh", "pl", "ru", "de", "fr", "he", "lt") :
            mine = recs
        else:
            mine = rnd.sample(recs, 400)
        for k in range(0, len(mine), 250):
            chunk = mine[k:k + 250]
            out.append({"stream": "fmt-boundary", "fn": "fmt_batch", "args": [li, loc, [list(r) for r in chunk]]})
    # 3. in_words on component records
    wrecs = []
    for _ in range(300 if tier == "quick" else 3000):
        sign = rnd.choice([1, 1, -1])
        r = [sign * rnd.choice([0, 0, 1, 2, 5, 11, 21, 22, 100, 101, 111, 1000]) if rnd.random() < 0.5 else 0 for _ in range(7)]
        wrecs.append(r + [0])
    wrecs += [[0] * 7 + [us] for us in (0, 1, -1, 4999, 5000, 5001, 15000, 25000, 125000, 375000, 994999, 995000, 999999, -125000, 500000)]
    wrecs += [[0] * 7 + [rnd.randrange(1, 1000000)] for _ in range(100 if tier == "quick" else 2000)]
    wrecs += [[0] * 7 + [5000 + 10000 * k] for k in range(100)]
    for li, loc in enumerate(locs):
        mine = wrecs if (tier == "thorough" or loc in ("en", "pl", "ru")) else wrecs[:120] + rnd.sample(wrecs, 80)
        for k in range(0, len(mine), 300):
            out.append({"stream": "words", "fn": "words_batch", "args": [li, loc, mine[k:k + 300], rnd.choice([" ", ", ", "", " - "])]})
    # 4. plural / ordinal lambdas
    ns = list(range(0, 1201)) + [10 ** 6, 10 ** 6 + 1, 10 ** 6 + 11, 2 * 10 ** 6, 10 ** 9 + 12, 10 ** 18 + 3, -1, -2, -11, -21]
    for li, loc in enumerate(locs):
        out.append({"stream": "plural-ordinal", "fn": "classes", "args": [li, loc, ns]})
    # 5. tokens
    for li, loc in enumerate(locs):
        out.append({"stream": "tokens", "fn": "tokens", "args": [li, loc, 2000 + (seed + li) % 25]})
    # 6. instants
    n_inst = 60 if tier == "quick" else 600
    base_pairs = []
    import datetime as _dt
    spans = [0, 1, 9, 10, 11, 59, 60, 61, 3599, 3600, 86399, 86400, 21 * 3600, 22 * 3600 + 86400, 3 * 86400, 4 * 86400, 7 * 86400, 11 * 86400, 26 * 86400,
             27 * 86400, 31 * 86400, 45 * 86400, 200 * 86400, 340 * 86400, 350 * 86400, 365 * 86400, 366 * 86400, 560 * 86400, 1000 * 86400, 4000 * 86400]
    for s in spans:
        for start in ((2020, 1, 31, 12, 0, 0), (2021, 3, 28, 0, 30, 0), (2019, 12, 31, 23, 59, 59), (2024, 2, 29, 6, 0, 0)):
            base_pairs.append((start, s))
    for _ in range(n_inst * 5):
        st = (rnd.randrange(1950, 2080), rnd.randrange(1, 13), rnd.randrange(1, 29), rnd.randrange(24), rnd.randrange(60), rnd.randrange(60))
        mag = rnd.choice([60, 3600, 86400, 30 * 86400, 400 * 86400, 5000 * 86400])
        base_pairs.append((st, rnd.randrange(0, mag)))
    for li, loc in enumerate(locs):
        mine = base_pairs if loc == "en" else rnd.sample(base_pairs, min(len(base_pairs), n_inst))
        items = []
        for st, s in mine:
            items.append([list(st), s, rnd.choice(ZONES), rnd.choice([0, 1]), rnd.choice([0, 0, 1])])
        for k in range(0, len(items), 150):
            out.append({"stream": "instants", "fn": "instants", "args": [li, loc, items[k:k + 150]]})
    # 7. real Duration objects (integer arguments) + glue (default locale, aliases, now)
    durs = []
    for _ in range(200 if tier == "quick" else 2000):
        durs.append([rnd.choice([0, 0, 1, 3]), rnd.choice([0, 0, 1, 7, 11]), rnd.choice([0, 0, 1, 2]), rnd.randrange(0, 10), rnd.randrange(0, 30),
                     rnd.randrange(0, 70), rnd.randrange(0, 70), rnd.choice([1, 1, -1])])
    for li, loc in enumerate(locs):
        mine = durs if loc in ("en", "fr") or tier == "thorough" else rnd.sample(durs, 40)
        out.append({"stream": "durations", "fn": "durations", "args": [li, loc, mine]})
    out.append({"stream": "glue", "fn": "glue", "args": []})
    return out


def search_cases(seed):
    return [c for c in cases("thorough", seed) if c["fn"] in ("fmt_grid", "fmt_batch", "tokens", "words_batch", "classes")]


def nontrivial(c):
    return True


# ----------------------------------------------------------------------------- implementation side
def _grid_records(ui, lo, hi):
    for n in range(lo, hi):
        r = [0] * 7
        r[ui] = n
        yield r


def impl_run(cases):
    import datetime

    import pendulum
    from pendulum.duration import Duration
    from pendulum.interval import Interval
    from pendulum.locales.locale import Locale

    class D:
        def __init__(self, r, inv=0, us=0):
            (self.years, self.months, self.weeks, self.remaining_days, self.hours, self.minutes, self.remaining_seconds) = r[:7]
            self.invert = bool(inv)
            self.microseconds = us

    def guard(f):
        try:
            r = f()
            return r if isinstance(r, str) else "!nonstr:" + type(r).__name__
        except Exception as e:  # noqa
            return "!" + type(e).__name__

    def comps(d):
        return [d.years, d.months, d.weeks, d.remaining_days, d.hours, d.minutes, d.remaining_seconds]

    out = []
    for c in cases:
        fn, a = c["fn"], c["args"]
        try:
            if fn == "locales":
                root = os.path.dirname(pendulum.locales.locale.__file__)
                names = sorted(d for d in os.listdir(root) if os.path.isfile(os.path.join(root, d, "locale.py")))
                out.append([0] + names)
            elif fn == "fmt_grid":
                li, loc, ui, lo, hi = a
                res = [0]
                for r in _grid_records(ui, lo, hi):
                    for inv, now, ab in FLAGS:
                        res.append(guard(lambda: pendulum.format_diff(D(r, inv), bool(now), bool(ab), loc)))
                out.append(res)
            elif fn == "fmt_batch":
                li, loc, recs = a
                res = [0]
                for r in recs:
                    for inv, now, ab in FLAGS:
                        res.append(guard(lambda: pendulum.format_diff(D(r, inv), bool(now), bool(ab), loc)))
                out.append(res)
            elif fn == "words_batch":
                li, loc, recs, sep = a
                res = [0]
                for r in recs:
                    res.append(guard(lambda: Duration.in_words(D(r[:7], 0, r[7]), loc, sep)))
                    res.append(guard(lambda: Interval.in_words(D(r[:7], 0, r[7]), loc, sep)))
                out.append(res)
            elif fn == "classes":
                li, loc, ns = a
                L = Locale.load(loc)
                res = [0]
                for n in ns:
                    res += [guard(lambda: L.plural(n)), guard(lambda: L.ordinal(n)), guard(lambda: L.ordinalize(n))]
                out.append(res)
            elif fn == "tokens":
                li, loc, year = a
                res = [0]
                for m, k, hour in _token_points():
                    dt = pendulum.datetime(year, m, 1 + k, hour, 7, 9)
                    for tok in TOKENS + DATE_FORMATS:
                        res.append(guard(lambda: dt.format(tok, locale=loc)))
                L = Locale.load(loc)
                for tok in DATE_FORMATS:
                    v = L.get("custom.date_formats." + tok)
                    res.append("!None" if v is None else v)
                out.append(res)
            elif fn == "instants":
                li, loc, items = a
                res = [0]
                for st, s, zone, swap, ab in items:
                    x = pendulum.datetime(*st, tz="UTC").in_timezone(zone)
                    y = x.add(seconds=s)
                    if swap:
                        x, y = y, x
                    d = x.diff(y)
                    cs = comps(d)
                    res.append([guard(lambda: x.diff_for_humans(y, absolute=bool(ab), locale=loc)),
                                guard(lambda: pendulum.format_diff(D(cs, d.invert), False, bool(ab), loc)),
                                cs, int(d.invert),
                                guard(lambda: x.date().diff_for_humans(y.date(), absolute=bool(ab), locale=loc)), comps(x.date().diff(y.date())),
                                guard(lambda: x.time().diff_for_humans(y.time(), absolute=bool(ab), locale=loc)),
                                [x.year, x.month, x.day, x.hour, x.minute, x.second, int(x.utcoffset().total_seconds())],
                                [y.year, y.month, y.day, y.hour, y.minute, y.second, int(y.utcoffset().total_seconds())],
                                guard(lambda: d.in_words(locale=loc)), guard(lambda: Interval.in_words(D(cs, 0, d.microseconds), loc))])
                out.append(res)
            elif fn == "durations":
                li, loc, durs = a
                res = [0]
                for y, mo, w, dd, h, mi, s, sign in durs:
                    d = pendulum.duration(years=sign * y, months=sign * mo, weeks=sign * w, days=sign * dd, hours=sign * h, minutes=sign * mi, seconds=sign * s)
                    cs = comps(d)
                    res.append([cs, int(d.invert), guard(lambda: d.in_words(locale=loc)), guard(lambda: Duration.in_words(D(cs, 0, d.microseconds), loc)),
                                guard(lambda: pendulum.format_diff(d, True, False, loc)), guard(lambda: pendulum.format_diff(D(cs, d.invert), True, False, loc)),
                                guard(lambda: pendulum.format_diff(d, False, True, loc)), guard(lambda: pendulum.format_diff(D(cs, d.invert), False, True, loc))])
                out.append(res)
            elif fn == "glue":
                res = [0]
                r = [0, 0, 0, 2, 0, 0, 0]
                for alias, canon in (("EN", "en"), ("en-US", "en_us"), ("pt-BR", "pt_br"), ("EN_gb", "en_gb"), ("Zh", "zh")):
                    res.append([alias, guard(lambda: pendulum.format_diff(D(r, 1), True, False, alias)), guard(lambda: pendulum.format_diff(D(r, 1), True, False, canon))])
                res.append(["nolocale", guard(lambda: pendulum.format_diff(D(r, 1), True, False, "xx")), "!ValueError"])
                old = pendulum.get_locale()
                try:
                    pendulum.set_locale("fr")
                    res.append(["default", guard(lambda: pendulum.format_diff(D(r, 0))), guard(lambda: pendulum.format_diff(D(r, 0), True, False, "fr"))])
                    res.append(["default-words", guard(lambda: pendulum.duration(days=2).in_words()), guard(lambda: pendulum.duration(days=2).in_words(locale="fr"))])
                finally:
                    pendulum.set_locale(old)
                # relative to the real clock (no time travel): margins of many hours make the phrase independent of the run time
                now = pendulum.now("UTC")
                res.append(["now-past", guard(lambda: now.subtract(days=2, hours=5).diff_for_humans(locale="en")), "2 days ago"])
                res.append(["now-future", guard(lambda: now.add(days=2, hours=5).diff_for_humans(locale="en")), "in 2 days"])
                res.append(["now-date-past", guard(lambda: pendulum.today().date().subtract(years=3, months=2).diff_for_humans(locale="en")), "3 years ago"])
                res.append(["now-abs", guard(lambda: now.add(days=400).diff_for_humans(absolute=True, locale="en")), "1 year"])
                out.append(res)
            else:
                out.append([9])
        except Exception as e:  # noqa
            out.append([1, type(e).__name__, str(e)[:200]])
    return out


def _token_points():
    pts = []
    for m in range(1, 13):
        for k in range(7):
            pts.append((m, k, 9 if (m + k) % 2 else 15))
    return pts


# ----------------------------------------------------------------------------- model side
def _dec(o):
    if o[0] == 0:
        return "".join(map(chr, o[1:]))
    if o[0] == 1:
        return "!" + EXN.get(o[1], f"exn{o[1]}")
    if o[0] == 2:
        return "!None"
    return "!badcall"


def _weekday(y, m, d):
    import datetime
    return datetime.date(y, m, d).weekday()


def model_calls(c, backend):
    fn, a = c["fn"], c["args"]
    if fn == "locales":
        return [("locale_name", [i]) for i in range(len(locale_names()))]
    if fn == "fmt_grid":
        li, loc, ui, lo, hi = a
        return [("format_diff", [li] + r + [inv, now, ab]) for r in _grid_records(ui, lo, hi) for inv, now, ab in FLAGS]
    if fn == "fmt_batch":
        li, loc, recs = a
        return [("format_diff", [li] + list(r) + [inv, now, ab]) for r in recs for inv, now, ab in FLAGS]
    if fn == "words_batch":
        li, loc, recs, sep = a
        return [("in_words", [li] + list(r) + [ord(ch) for ch in sep]) for r in recs]
    if fn == "classes":
        li, loc, ns = a
        calls = []
        for n in ns:
            calls += [("plural", [li, n]), ("ordinal", [li, n]), ("ordinalize", [li, n])]
        return calls
    if fn == "tokens":
        li, loc, year = a
        calls = []
        for m, k, hour in _token_points():
            dow = _weekday(year, m, 1 + k)
            calls += [("token", [li, t, m, dow, 1 + k, hour]) for t in range(len(TOKENS))]
        calls += [("date_format", [li, i]) for i in range(len(DATE_FORMATS))]
        return calls
    return None


def model_result(c, backend, outs):
    fn = c["fn"]
    if fn == "words_batch":
        r = [0]
        for o in outs:
            s = _dec(o)
            r += [s, s]          # Duration.in_words and Interval.in_words are the same function of the components
        return r
    if fn == "tokens":
        n = len(TOKENS)
        pts = _token_points()
        r = [0]
        for i in range(len(pts)):
            r += [_dec(o) for o in outs[i * n:(i + 1) * n]] + [None] * len(DATE_FORMATS)
        r += [_dec(o) for o in outs[len(pts) * n:]]
        return r
    return [0] + [_dec(o) for o in outs]


def same(c, m, r):
    if c["fn"] == "tokens":
        return len(m) == len(r) and all(x is None or x == y for x, y in zip(m, r))
    return m == r


# ----------------------------------------------------------------------------- the property itself (stdlib only)
def _expected(r):
    """Documented rounding: the largest non-zero component, rounded up when the next smaller components reach the threshold."""
    y, mo, w, d, h, mi, s = r
    days = w * 7 + d
    if y > 0:
        return "year", y + (1 if mo > 6 else 0)
    if mo == 11 and days > 15:
        return "year", 1
    if mo > 0:
        return "month", mo + (1 if days >= 27 else 0)
    if w > 0:
        return "week", w + (1 if d > 3 else 0)
    if d > 0:
        return "day", d + (1 if h >= 22 else 0)
    if h > 0:
        return "hour", h
    if mi > 0:
        return "minute", mi
    if 10 < s <= 59:
        return "second", s
    return "few", s


def _fmt1(tpl, arg):
    return tpl.format(arg)


def _phrases(loc, unit, count, inv, now, ab):
    """All phrases the locale's own data admits for (unit, count, direction): over every plural class present. May raise."""
    data = locale_data(loc)
    tr, cu = data["translations"], data["custom"]
    if unit == "few":
        few = _get(cu, "units", "few_second")
        if few is not None:
            if ab:
                return {few}
            key = ("from_now" if inv else "ago") if now else ("after" if inv else "before")
            return {_fmt1(cu[key], few)}
        unit, count = "second", (count if count != 0 else 1)
    if ab:
        return {_fmt1(t, count) for t in tr["units"][unit].values()}
    if now:
        return {_fmt1(t, count) for t in tr["relative"][unit]["future" if inv else "past"].values()}
    special = _get(cu, "units_relative", unit, "future" if inv else "past")
    times = {_fmt1(t, count) for t in (special or tr["units"][unit]).values()}
    return {_fmt1(cu["after" if inv else "before"], t) for t in times}


def _check_phrase(loc, r, inv, now, ab, s):
    """None or a reason; s is what the implementation returned for component record r."""
    if s.startswith("!"):
        return f"raised {s[1:]}"
    if s == "":
        return "empty string"
    if "{" in s or "}" in s:
        return f"unsubstituted placeholder in {s!r}"
    unit, count = _expected(r)
    if unit != "few" and count < 1:
        return f"count {count} < 1"
    try:
        good = _phrases(loc, unit, count, inv, now, ab)
    except Exception as e:  # noqa
        return f"locale data cannot produce a phrase: {type(e).__name__}: {e}"
    if s not in good:
        return f"{s!r} is not a phrase of unit={unit} count={count} direction={'future' if inv else 'past'} now={now} absolute={ab}: expected one of {sorted(good)[:4]}"
    if not ab:
        try:
            wrong = _phrases(loc, unit, count, 1 - inv, now, ab)
        except Exception:  # noqa
            wrong = set()
        if s in wrong:
            return f"{s!r} does not tell past from future"
    return None


def _failures(c, r):
    """list of (class id or None, text)"""
    fn, a = c["fn"], c["args"]
    f = []
    if r and r[0] == 1:
        return [(None, f"harness raised {r[1:]}")]
    if fn == "locales":
        if r[1:] != locale_names():
            f.append((None, f"shipped locales {r[1:]} differ from the source tree's {locale_names()}"))
    elif fn in ("fmt_grid", "fmt_batch"):
        li, loc = a[0], a[1]
        recs = list(_grid_records(a[2], a[3], a[4])) if fn == "fmt_grid" else a[2]
        k = 1
        for rec in recs:
            neg = any(x < 0 for x in rec)
            for inv, now, ab in FLAGS:
                s = r[k]
                k += 1
                if neg:
                    # outside the domain of differences (diff() is absolute): only totality is required
                    why = f"raised {s[1:]}" if s.startswith("!") else ("empty" if not s else None)
                else:
                    why = _check_phrase(loc, rec, inv, now, ab, s)
                if why:
                    cls = "zh-time-placeholder" if (loc == "zh" and not now and not ab and s == "!KeyError") else None
                    f.append((cls, f"format_diff(components={rec}, invert={bool(inv)}, is_now={bool(now)}, absolute={bool(ab)}, locale={loc!r}): {why}"))
    elif fn == "words_batch":
        li, loc, recs, sep = a
        k = 1
        for rec in recs:
            for which in ("Duration", "Interval"):
                s = r[k]
                k += 1
                why = _check_words(loc, rec, sep, s)
                if why:
                    f.append((None, f"{which}.in_words(components={rec[:7]}, microseconds={rec[7]}, locale={loc!r}): {why}"))
    elif fn == "classes":
        li, loc, ns = a
        data = locale_data(loc)
        for i, n in enumerate(ns):
            pl, od, oz = r[1 + 3 * i: 4 + 3 * i]
            if pl.startswith("!") or od.startswith("!") or oz.startswith("!"):
                f.append((None, f"{loc}: plural/ordinal/ordinalize({n}) raised: {pl} {od} {oz}"))
                continue
            # every class the lambda can return must exist wherever the formatter will look it up
            for u in UNITS:
                if pl not in data["translations"]["units"][u]:
                    f.append((None, f"{loc}: plural({n}) = {pl!r} has no translations.units.{u} entry"))
            if not oz.startswith(str(n)):
                f.append((None, f"{loc}: ordinalize({n}) = {oz!r}"))
    elif fn == "tokens":
        li, loc, year = a
        data = locale_data(loc)
        toks = TOKENS + DATE_FORMATS
        k = 1
        for m, kk, hour in _token_points():
            dow = _weekday(year, m, 1 + kk)
            for tok in toks:
                s = r[k]
                k += 1
                why = None
                if s.startswith("!"):
                    why = f"raised {s[1:]}"
                elif s == "":
                    why = "empty"
                else:
                    tr = data["translations"]
                    exp = {"MMM": lambda: tr["months"]["abbreviated"][m], "MMMM": lambda: tr["months"]["wide"][m], "dd": lambda: tr["days"]["short"][dow],
                           "ddd": lambda: tr["days"]["abbreviated"][dow], "dddd": lambda: tr["days"]["wide"][dow],
                           "A": lambda: tr["day_periods"]["pm" if hour >= 12 else "am"]}.get(tok)
                    if exp is not None and s != exp():
                        why = f"{s!r} is not the locale's entry {exp()!r}"
                    if tok in ("Do", "Mo", "do", "eo", "e") and not s[0].isdigit():
                        why = f"{s!r} does not start with the number"
                    if tok == "Do" and not s.startswith(str(1 + kk)):
                        why = f"{s!r} is not day {1 + kk}"
                    if tok in ("e", "eo"):
                        fd = _get(tr, "week_data", "first_day")
                        if isinstance(fd, int):
                            e = (dow % 7 - fd) % 7
                            if (tok == "e" and s != str(e)) or (tok == "eo" and not s.startswith(str(e + 1))):
                                why = f"{s!r} is not the day of the localized week ({e})"
                    if tok in DATE_FORMATS and tok not in ("LT", "LTS") and str(year) not in s and str(year % 100) not in s:
                        why = f"{s!r} lacks the year"
                if why:
                    cls = "nl-week-data" if (loc == "nl" and tok in ("e", "eo") and s == "!TypeError") else None
                    f.append((cls, f"format({tok!r}, locale={loc!r}) on {year}-{m}-{1 + kk}: {why}"))
    elif fn == "instants":
        li, loc, items = a
        for it, res in zip(items, r[1:]):
            for why in _check_instants(loc, it, res):
                cls = "zh-time-placeholder" if (loc == "zh" and not it[4] and "raised KeyError" in why) else None
                f.append((cls, f"{loc} {it}: {why}"))
    elif fn == "durations":
        li, loc, durs = a
        for du, res in zip(durs, r[1:]):
            for why in _check_duration(loc, du, res):
                f.append((None, f"{loc} duration{tuple(du)}: {why}"))
    elif fn == "glue":
        for name, got, want in r[1:]:
            if got != want or got.startswith("!") and name != "nolocale":
                f.append((None, f"{name}: {got!r} vs {want!r}"))
    return f


def _check_words(loc, rec, sep, s):
    if s.startswith("!"):
        return f"raised {s[1:]}"
    if s == "" or "{" in s or "}" in s:
        return f"bad string {s!r}"
    data = locale_data(loc)
    units = data["translations"]["units"]
    parts = []
    for u, cnt in zip(UNITS, rec[:7]):
        if abs(cnt) > 0:
            parts.append({t.format(cnt) for t in units[u].values()})
    if not parts:
        us = rec[7]
        if abs(us) > 0:
            import decimal
            import fractions
            # exact value of the double abs(us)/1e6, rounded half-even to 2 places
            dv = decimal.Decimal(abs(us) / 1e6).quantize(decimal.Decimal("0.01"), rounding=decimal.ROUND_HALF_EVEN)
            parts.append({t.format(f"{dv:.2f}") for t in units["second"].values()})
            if abs(fractions.Fraction(abs(us), 10 ** 6) - fractions.Fraction(str(dv))) > fractions.Fraction(1, 100):
                return f"{s!r} is not within 0.01 s of {us} us"
        else:
            parts.append({t.format(0) for t in units["microsecond"].values()})
    # the string must be a separator-join of one admissible phrase per non-zero unit, in order
    cands = {""}
    for i, p in enumerate(parts):
        cands = {c + (sep if i else "") + x for c in cands for x in p}
        if len(cands) > 4096:
            return None
    return None if s in cands else f"{s!r} is not the unit-by-unit wording, e.g. {sorted(cands)[:2]}"


def _add_months(dt, n):
    import calendar
    y, m = divmod(dt.year * 12 + dt.month - 1 + n, 12)
    m += 1
    if not 1 <= y <= 9999:
        return None
    return dt.replace(year=y, month=m, day=min(dt.day, calendar.monthrange(y, m)[1]))


def _check_instants(loc, it, res):
    import datetime
    st, span, zone, swap, ab = it
    s_dt, s_fd, cs, inv, s_date, cs_date, s_time, xw, yw, s_words, s_words_duck = res
    out = []
    # direction: the instance is x, the reference y; x later than y <=> future marker
    x_later = bool(swap) and span > 0
    if bool(inv) != x_later:
        out.append(f"invert={inv} but instance {'later' if x_later else 'not later'} than reference")
    if s_dt != s_fd:
        out.append(f"diff_for_humans(other) {s_dt!r} differs from format_diff on its own difference {s_fd!r}")
    why = _check_phrase(loc, cs, int(x_later), 0, ab, s_dt)
    if why:
        out.append("diff_for_humans(other): " + why)
    # magnitude: within one unit of the true elapsed time (UTC instants; wall clock for calendar units)
    unit, count = _expected(cs)
    length = {"second": 1, "minute": 60, "hour": 3600, "day": 86400, "week": 7 * 86400}
    if unit == "few":
        if not span <= 10:
            out.append(f"'a few seconds' for {span} s")
    elif unit in length:
        if not abs(count * length[unit] - span) < length[unit] + (3600 if unit in ("day", "week") and zone != "UTC" else 0):
            out.append(f"{count} {unit}(s) is not within one {unit} of {span} s")
    else:
        a = datetime.datetime(*xw[:6])
        b = datetime.datetime(*yw[:6])
        lo, hi = min(a, b), max(a, b)
        k = 12 if unit == "year" else 1
        lo_b, hi_b = _add_months(lo, (count - 1) * k), _add_months(lo, (count + 1) * k)
        if lo_b is not None and hi_b is not None and not (lo_b - datetime.timedelta(hours=2) <= hi <= hi_b + datetime.timedelta(hours=2)):
            out.append(f"{count} {unit}(s) is not within one {unit} of {lo} .. {hi}")
    # Date and Time flavours: total, directed
    da, db = datetime.date(*xw[:3]), datetime.date(*yw[:3])
    why = _check_phrase(loc, cs_date, int(da > db), 0, ab, s_date)
    if why:
        out.append("Date.diff_for_humans(other): " + why)
    ta, tb = xw[3] * 3600 + xw[4] * 60 + xw[5], yw[3] * 3600 + yw[4] * 60 + yw[5]
    d = abs(ta - tb)
    rec = [0, 0, 0, 0, d // 3600, d // 60 % 60, d % 60]
    why = _check_phrase(loc, rec, int(ta > tb), 0, ab, s_time)
    if why:
        out.append("Time.diff_for_humans(other): " + why)
    if s_words != s_words_duck:
        out.append(f"Interval.in_words {s_words!r} differs from in_words on its own components {s_words_duck!r}")
    why = _check_words(loc, cs + [0], " ", s_words) if any(cs) else (None if s_words and not s_words.startswith("!") and "{" not in s_words else f"bad {s_words!r}")
    if why:
        out.append("Interval.in_words: " + why)
    return out


def _check_duration(loc, du, res):
    import datetime
    y, mo, w, dd, h, mi, s, sign = du
    cs, inv, words, words_duck, f1, f1d, f2, f2d = res
    out = []
    total = sign * (((w * 7 + dd) * 24 + h) * 3600 + mi * 60 + s)
    # components: years/months kept, the rest normalised from the total number of seconds, all with the duration's sign
    t = abs(total)
    sg = -1 if total < 0 else 1
    exp = [sign * y, sign * mo, sg * (t // 86400 // 7), sg * (t // 86400 % 7), sg * (t // 3600 % 24), sg * (t // 60 % 60), sg * (t % 60)]
    if cs != exp:
        out.append(f"components {cs} are not the normal form {exp}")
    if words != words_duck:
        out.append(f"in_words {words!r} differs from in_words on its own components {words_duck!r}")
    if f1 != f1d or f2 != f2d:
        out.append(f"format_diff on the Duration ({f1!r}, {f2!r}) differs from format_diff on its own components ({f1d!r}, {f2d!r})")
    why = _check_words(loc, cs + [0], " ", words)
    if why:
        out.append("in_words: " + why)
    if sign > 0:
        full_days = sign * (y * 365 + mo * 30) * 86400 + total
        if bool(inv) != (full_days < 0):
            out.append(f"invert={inv}")
        for s_, now, ab in ((f1, 1, 0), (f2, 0, 1)):
            why = _check_phrase(loc, cs, inv, now, ab, s_)
            if why:
                out.append("format_diff: " + why)
    else:
        for s_ in (f1, f2):
            if s_.startswith("!") or not s_ or "{" in s_:
                out.append(f"format_diff on a negative duration: {s_!r}")
    return out


def oracle(c, backend, r):
    f = _failures(c, r)
    if not f:
        return None
    unk = [t for k, t in f if k is None]
    return (unk or [t for k, t in f])[0] + (f"  (+{len(f) - 1} more in this batch)" if len(f) > 1 else "")


def known(c, backend, r):
    f = _failures(c, r)
    kinds = {k for k, _ in f}
    if len(kinds) == 1 and None not in kinds:
        return kinds.pop()
    return None


LEVEL_TEXT = ("Machine-checked Coq theorems over the generated tables of ALL shipped locales and the translated unit-selection chain: for every count (unbounded), "
              "every flag combination and every locale the formatter finds its key and every replacement field of the template is substituted (non-empty, brace-free "
              "output), proved via plural_range (a plural lambda only returns its leaves) + finite reflection over locales x units x classes x flags; the same for "
              "in_words and the locale-dependent tokens; unit/count rounding and direction specs; the two data defects found here (zh {time} templates, nl week_data) were repaired by fix: commits "
              "in /repo, the statements are now proved at full strength and the defects are reported as violations if they return. Exhaustive correspondence model = implementation, string for string.")
DESIGN_REF = "DESIGN.md section 4 C18"
LEVEL_NOTE = ("Trusted: Coq kernel+VM, the generator g30_locales (ast -> Gallina tables; str.format field parsing by string.Formatter), the hand model of the key construction "
              "(its source text is pinned by the generator and every output string is compared), extraction+driver. Components of real Interval objects are inputs "
              "(C05/C06); the instants stream checks them against stdlib elapsed time.")
TECHNIQUE = "Coq proof (structural induction on plural ASTs + finite reflection over generated locale tables) over translated data/code; differential correspondence; stdlib oracle"
