"""C15 — calendar primitives agree with the proleptic Gregorian calendar in both backends."""
from __future__ import annotations

import random

ID = "C15"
PROPS = "Props/C15.v"
RULE = ("enumerated: every year 1..9999 for the year functions; week_day and the Date getters on whole years "
        "(all years in thorough, a seed-rotated set of years covering all 14 year shapes plus century/400 boundaries in quick); "
        "local_time at month boundaries (quick) / day boundaries (thorough) +-1s and random seconds x offsets -86399..86399. "
        "A case is non-trivial when it is a distinct (function, argument) tuple; every case is compared three ways: "
        "implementation vs model (both backends) and implementation vs stdlib oracle.")
EXHAUSTIVE = {"quick": False, "thorough": True}
TRUSTED = ["rustc/pyo3: rust/src/helpers.rs is modelled by hand in coq/Model/RustHelpers.v (truncating / and %, tables generated from constants.rs)",
           "CPython datetime/calendar are the specification side, modelled in coq/Spec/Cal.v and validated by the cal_* streams"]
ASSUMPTIONS = ["math.ceil(a / b) on the small integers of quarter/week_of_month is exact ceiling division (validated over the full finite domain each run)",
               "local_time is called with integral unix_time (the Rust twin floors an f64 which is exact below 2^53)"]


def cases(tier, seed):
    rnd = random.Random(seed)
    out = []
    years = range(1, 10000)
    for y in years:
        out.append({"stream": "year-functions", "fn": "year_fns", "args": [y]})
    if tier == "thorough":
        ys = list(years)
    else:
        base = [1, 2, 3, 4, 100, 400, 1582, 1583, 1600, 1700, 1900, 1970, 1999, 2000, 2001, 2024, 2100, 2400, 9996, 9999]
        ys = sorted(set(base + [rnd.randrange(1, 10000) for _ in range(60)] + [2000 + ((seed * 37 + k) % 400) for k in range(40)]))
    for y in ys:
        out.append({"stream": "dates-of-year", "fn": "date_fns_year", "args": [y]})
    # reference calendar vs stdlib
    for y in ys:
        out.append({"stream": "cal-spec", "fn": "cal_year", "args": [y]})
    # local_time
    import datetime as _dt
    epoch = _dt.date(1970, 1, 1).toordinal()
    pts = []
    if tier == "thorough":
        for n in range(1 + 2, 3652059 - 2):
            t = (n + 1 - epoch) * 86400
            pts += [(t - 1, 0), (t, 0)]
    else:
        for y in range(1, 10000):
            for m in (1, 3) if y % 7 else range(1, 13):
                t = (_dt.date(y, m, 1).toordinal() - epoch) * 86400
                if y == 1 and m == 1:
                    continue
                pts += [(t - 1, 0), (t, 0), (t + 1, 0)]
    # structural boundaries of the chunked algorithm combined with offsets of both signs:
    # the sign switch at t = 0, every 400/100/4-year boundary, every year boundary; t and t + offset on either side
    offs = [0, 1, -1, 59, -59, 3600, -3600, 19800, -34200, 86399, -86399, 43200, -43200]
    for y in range(1, 10000):
        century = (y % 100 == 0)
        if not (century or y % 4 == 0 or y in (1970, 1969, 1971, 1601, 2001) or (tier == "thorough") or y % 97 == seed % 97):
            continue
        if y == 1:
            continue
        t0 = (_dt.date(y, 1, 1).toordinal() - epoch) * 86400
        for o in (offs if (y % 400 == 0 or y in (1970, 1600, 2000)) else offs[:7] if century else offs[1:5]):
            for dt_ in (-1, 0, 1):
                for t in (t0 + dt_, t0 - o + dt_):
                    if (2 - epoch + 2) * 86400 < t + o < (3652059 - epoch - 2) * 86400 and (2 - epoch + 2) * 86400 < t:
                        pts.append((t, o))
    for o in offs:
        for t in (-1, 0, 1, -o, -o - 1, -o + 1):
            pts.append((t, o))
    lo, hi = (2 - epoch + 1) * 86400, (3652059 - epoch - 1) * 86400
    for _ in range(20000 if tier == "quick" else 200000):
        pts.append((rnd.randrange(lo, hi), rnd.randrange(-86399, 86400)))
    for t, o in pts:
        out.append({"stream": "local_time", "fn": "local_time", "args": [t, o, rnd.randrange(0, 1000000)]})
    return out


def search_cases(seed):
    return [c for c in cases("thorough", seed) if c["fn"] != "local_time" or (c["args"][0] % 7 == seed % 7)]


def nontrivial(c):
    return True


# ----------------------------------------------------------------------------- implementation side
def _dates_of_year(y):
    import calendar
    for m in range(1, 13):
        for d in range(1, calendar.monthrange(y, m)[1] + 1):
            yield m, d


def impl_run(cases):
    import pendulum
    from pendulum import helpers as H
    out = []
    for c in cases:
        fn, a = c["fn"], c["args"]
        try:
            if fn == "year_fns":
                y = a[0]
                d = pendulum.Date(y, 6, 15)
                out.append([0, int(H.is_leap(y)), int(H.is_long_year(y)), int(H.days_in_year(y)),
                            int(d.is_leap_year()), int(d.is_long_year()), int(pendulum.datetime(y, 6, 15).is_long_year())])
            elif fn == "date_fns_year":
                y = a[0]
                r = [0]
                for m, d in _dates_of_year(y):
                    pd = pendulum.Date(y, m, d)
                    r += [int(H.week_day(y, m, d)), int(pd.day_of_week), pd.day_of_year, pd.week_of_year, pd.week_of_month,
                          pd.days_in_month, pd.quarter]
                out.append(r)
            elif fn == "cal_year":
                out.append([0])
            elif fn == "local_time":
                out.append([0] + [int(x) for x in H.local_time(*a)])
            else:
                out.append([9])
        except Exception as e:  # noqa
            out.append([1, type(e).__name__])
    return out


# ----------------------------------------------------------------------------- model side
def model_calls(c, backend):
    fn, a = c["fn"], c["args"]
    p = backend
    if fn == "year_fns":
        y = a[0]
        return [(f"{p}_is_leap", [y]), (f"{p}_is_long_year", [y]), (f"{p}_days_in_year", [y]),
                ("cal_is_leap", [y]), ("cal_iso_weeks_in_year", [y])]
    if fn == "date_fns_year":
        y = a[0]
        calls = []
        for m, d in _dates_of_year(y):
            calls += [(f"{p}_week_day", [y, m, d]), ("cal_ymd2ord", [y, m, d]), ("py_day_of_year", [y, m, d]), ("cal_isocalendar", [y, m, d]),
                      ("py_week_of_month", [y, m, d]), ("cal_dim", [y, m]), ("py_quarter", [y, m, d])]
        return calls
    if fn == "cal_year":
        y = a[0]
        calls = []
        for m, d in _dates_of_year(y):
            calls += [("cal_ymd2ord", [y, m, d]), ("cal_isocalendar", [y, m, d])]
        import datetime
        n0 = datetime.date(y, 1, 1).toordinal()
        calls += [("cal_ord2ymd", [n0 + k]) for k in (0, 58, 59, 60, 364, 365)]
        return calls
    if fn == "local_time":
        return [(f"{p}_local_time", a)]


def model_result(c, backend, outs):
    fn = c["fn"]
    if fn == "year_fns":
        leap, long_, diy, cleap, cweeks = (o[1] for o in outs)
        return [0, leap, long_, diy, cleap, int(cweeks == 53), int(cweeks == 53)]
    if fn == "date_fns_year":
        r = [0]
        for i in range(0, len(outs), 7):
            wd, ordn, doy, iso, wom, dim, q = outs[i:i + 7]
            r += [wd[1], (ordn[1] + 6) % 7, doy[1], iso[2], wom[1], dim[1], q[1]]
        return r
    if fn == "cal_year":
        # the model of the stdlib is compared with the stdlib itself here (impl side is not involved)
        import datetime
        y = c["args"][0]
        k = 0
        for m, d in _dates_of_year(y):
            dt = datetime.date(y, m, d)
            if outs[k][1] != dt.toordinal() or tuple(outs[k + 1][1:]) != tuple(dt.isocalendar()):
                return [7, y, m, d]
            k += 2
        n0 = datetime.date(y, 1, 1).toordinal()
        for j, kk in enumerate((0, 58, 59, 60, 364, 365)):
            dt = datetime.date.fromordinal(n0 + kk) if n0 + kk <= 3652059 else None
            if dt and tuple(outs[k + j][1:]) != (dt.year, dt.month, dt.day):
                return [7, y, -1, kk]
        return [0]
    return outs[0]


def same(c, m, r):
    return m == r


# ----------------------------------------------------------------------------- the property itself
def oracle(c, backend, r):
    import calendar
    import datetime
    import math
    fn, a = c["fn"], c["args"]
    if r and r[0] == 1:
        return f"raised {r[1]}"
    if fn == "year_fns":
        y = a[0]
        leap = int(calendar.isleap(y))
        long_ = int(datetime.date(y, 12, 28).isocalendar()[1] == 53)
        exp = [0, leap, long_, 366 if leap else 365, leap, long_, long_]
        return None if r == exp else f"year {y}: got {r}, stdlib says {exp}"
    if fn == "date_fns_year":
        y = a[0]
        k = 1
        for m, d in _dates_of_year(y):
            dt = datetime.date(y, m, d)
            first = datetime.date(y, m, 1)
            exp = [dt.isoweekday(), dt.weekday(), dt.timetuple().tm_yday, dt.isocalendar()[1],
                   (d + first.weekday() - 1) // 7 + 1, calendar.monthrange(y, m)[1], (m - 1) // 3 + 1]
            # finite-domain validation of the translator's ceil rule
            assert math.ceil(m / 3) == -((-m) // 3) and math.ceil((d + first.isoweekday() - 1) / 7) == -((-(d + first.isoweekday() - 1)) // 7)
            if r[k:k + 7] != exp:
                return f"{y}-{m}-{d}: (week_day, day_of_week, day_of_year, week_of_year, week_of_month, days_in_month, quarter) = {r[k:k+7]}, stdlib says {exp}"
            k += 7
        return None
    if fn == "cal_year":
        return None
    if fn == "local_time":
        t, o, us = a
        dt = datetime.datetime(1970, 1, 1) + datetime.timedelta(seconds=t + o)
        exp = [0, dt.year, dt.month, dt.day, dt.hour, dt.minute, dt.second, us]
        return None if r == exp else f"local_time{tuple(a)} = {r[1:]}, stdlib says {exp[1:]}"
    return None


def known(c, backend, r):
    return None

LEVEL_TEXT = ("Machine-checked Coq theorems, for every year with no bound, that the Python calendar helpers (translated from /repo on every run) "
              "and the Rust twins (hand model) equal the proleptic Gregorian calendar of Spec/Cal.v: leap years, days in year, ISO weekday, ISO long years, "
              "day of year, quarter, week of month, the broken-down time of every integer Unix timestamp at every offset (local_time, both backends), and that the reference calendar is a bijection ordinal <-> valid date; plus an exhaustive-in-years "
              "three-way correspondence (implementation both backends / model / CPython stdlib).")
DESIGN_REF = "DESIGN.md section 4 C15, section 3.1"
LEVEL_NOTE = ("Trusted: Coq kernel+VM, the Python->Gallina translator, the hand model of rust/src/helpers.rs and Spec/Cal.v as a model of CPython's datetime "
              "(both validated by correspondence every run), extraction+driver (cross-checked with vm_compute).")
TECHNIQUE = "Coq proof (lia + finite reflection lifted by 400-year periodicity) over translated code; differential correspondence for hand models"


# ---- specification side tied to CPython's own source (appended; supersedes the Spec/Cal.v sentences above) ----
# coq/Gen/StdlibCal.v is the machine translation of CPython's pure-Python reference implementation `_pydatetime.py`
# (tools/vlib/gens/g11_stdlib_cal.py, regenerated on every run from the file the staged interpreter imports), and
# Props/C15.v spec_is_stdlib_* prove Spec/Cal.v equal to it, universally (no bound on year / ordinal).
_SPEC_OLD = "CPython datetime/calendar are the specification side, modelled in coq/Spec/Cal.v and validated by the cal_* streams"
_SPEC_NEW = ("Spec/Cal.v (the specification side) is PROVED equal to the translation of CPython's pure-Python reference implementation "
             "_pydatetime.py (Gen/StdlibCal.v, regenerated from the staged interpreter's stdlib on every run; theorems spec_is_stdlib_*: "
             "_is_leap, _days_before_year, _days_in_month, _days_before_month, _ymd2ord, _ord2ymd, _isoweek1monday, _isoweek_to_gregorian, "
             "_check_date_fields, date.toordinal/weekday/isoweekday/isocalendar). What remains trusted on the spec side: the C accelerator "
             "_datetime (the module `datetime` actually imports) agrees with _pydatetime - still covered by the exhaustive cal-spec "
             "correspondence stream against the running interpreter; by hand in the translation: a date object is the record of its slots "
             "_year/_month/_day, _IsoCalendarDate(y, w, d) is the triple, operator.index is the identity on ints, AssertionError is "
             "represented by E_Exception, the module-level loop filling _DAYS_BEFORE_MONTH is a recognised-shape template "
             "(its result is pinned, inside Coq, to the interpreter's run-time table)")
TRUSTED = [_SPEC_NEW if t == _SPEC_OLD else t for t in TRUSTED] + ([] if _SPEC_OLD in TRUSTED else [_SPEC_NEW])
LEVEL_NOTE = (LEVEL_NOTE.replace("and Spec/Cal.v as a model of CPython's datetime (both validated by correspondence every run)",
                                 "(validated by correspondence every run)")
              + " Spec/Cal.v is no longer trusted as a hand model of CPython: it is proved equal (spec_is_stdlib_*) to the translation of "
                "CPython's _pydatetime.py, regenerated from the staged interpreter's standard library on every run; what remains trusted on the "
                "spec side is that the C accelerator _datetime agrees with _pydatetime (covered by the exhaustive cal-spec correspondence).")
LEVEL_TEXT = (LEVEL_TEXT + " The specification Spec/Cal.v itself is proved equal, for every year and every ordinal, to the translation of "
              "CPython's own pure-Python calendar source (_pydatetime.py).")


# rust/src/helpers.rs is translated from /repo on every run and the hand model Model/RustHelpers.v is PROVED equal to the translation
TRUSTED = list(TRUSTED) + [
    "tools/vlib/rust2gallina.py + tools/vlib/gens/g58_rust_helpers.py (a fail-closed Rust-subset translator: tokenizer, recursive-descent parser, typed emission with integer-type "
    "inference; Rust semantics as read by it: overflow-checks = false so + - * wrap in the operand type (coq/Model/RustInt.v; isize / usize 64-bit), / and % truncate and need a statically "
    "positive divisor, `as` wraps unless the source type fits, T::from / into / try_into().unwrap() are checked value-preserving conversions, A[i] = tidx (a panic on an out-of-range index is "
    "the marker OOB), `while` = a fuel-based Fixpoint with the fuel stated by the generator, an f64 parameter only as <p>.floor() as i64): it replaces the former trust in the hand transcription "
    "coq/Model/RustHelpers.v, now PROVED equal to the translation (model_is_code_rs_is_leap / _days_in_year for every integer; _is_long_year / _week_day / _day_number / _local_time on stated "
    "ranges inside which nothing wraps; closed under the global context). Still trusted: rustc's semantics of this subset as read above, pyo3's argument conversion",
]
LEVEL_NOTE = LEVEL_NOTE + (" Compiled backend = model: coq/Gen/RustHelpersGen.v is translated from rust/src/helpers.rs on every run and Proofs/RustHelpersGenFacts.v proves it equal to Model/RustHelpers.v, "
                           "so a semantic edit of is_leap, is_long_year, days_in_year, week_day, day_number or local_time breaks a proof or fails closed (self-tested by mutation) instead of only a "
                           "source pin; rs_wraps_outside_the_range shows that the stated ranges matter (the compiled code wraps, the hand model does not).")
