"""C12 — start_of/end_of delimit exactly the calendar unit that contains the value."""
from __future__ import annotations

import calendar
import datetime as _dt
import functools
import random

from vlib import tzcases as T
from vlib import zones

ID = "C12"
PROPS = "Props/C12.v"
RULE = ("dst-boundary: for each chosen zone (quick: ODD_ZONES + every zone that has a gap/overlap over a local midnight, seed-rotated up to ~70; thorough: all "
        "zones), its gaps and overlaps (explicit table + POSIX-rule years; always those that contain a local midnight / first of month / first of year, "
        "the whole-day ones and a seed-rotated sample of the others) x wall values before / inside / after the region and 1-8 days away x units whose "
        "first or last microsecond (or, for weeks, a walked midnight) falls in the region (plus random other units) x the week configurations x "
        "provenance {constructed with fold 1, constructed with fold 0, converted from UTC, parsed, instance() of a stdlib value}; each case also "
        "computes the result for the same instant obtained by conversion from UTC. fixed/utc/naive: random and boundary-aligned wall values over "
        "years 1..9999 (unit edges +-1us, year 1 and 9999 edges) x 9 units x week configurations. date: every month shape, year/decade/century edges, "
        "the first and last days of the range x 6 units x 7 week configurations. week-config-odd: inconsistent (ws, we) pairs, correspondence only. "
        "week-inner: seed-rotated zones that have a gap over a local midnight (quick 8, thorough 150), one such gap and one overlap touching a "
        "midnight each x values on ORDINARY days 1-6 days before and after the affected day (noon, 00:00, 23:59:59.999999, random) x unit week x ALL 7 "
        "week configurations (the affected day before the week / its first or last day / strictly inside the backward or forward day-by-day walk "
        "/ beyond the value) x provenance; in the strictly-inside configurations both week boundaries are ordinary wall times and the oracle "
        "demands the whole property (Coq: start_week_dst_partial / end_week_dst_partial). week-walk: previous(ws) / next(we) of the same values on "
        "their own, compared with the model's dt_previous / dt_next (correspondence only; the intermediate value the week units build on). "
        "A failing case is filed under a listed finding only if it lies in the finding's region AND the observed results (op, op twice, op on the "
        "converted value) are exactly what the documented mechanism yields there (stdlib mirror `documented`, independent of the Coq build). "
        "non-trivial = distinct (zone, wall, fold, provenance, unit, week configuration).")
EXHAUSTIVE = {"quick": False, "thorough": False}
TRUSTED = ["zoneinfo.ZoneInfo and datetime.date are the specification side of the oracle; Spec/Zone.v is validated against zoneinfo by C02's zone-spec stream and "
           "here through the utcoffset every result carries",
           "zone tables are fed to the model as windows around the value, the unit's first and last day and the walked week (bridged at the cuts); "
           "the theorems assume wf_zone of the table",
           "the hand-modelled bodies (set/at/second..day/week/next/previous) are pinned textually by tools/vlib/gens/g80_start_end.py"]
ASSUMPTIONS = ["a call of start_of/end_of that runs longer than 1.5 s is classified as non-terminating (the model runs out of fuel exactly there)",
               "pendulum.week_starts_at/week_ends_at are process-global: the runner sets them per case (as the WeekDay member or as the plain int it equals, by case parity) and restores the defaults"]
VM_SUBSET = 60

UNITS = ["second", "minute", "hour", "day", "week", "month", "year", "decade", "century"]
MEG, US_DAY, MAX_WALL, EPOCH_S = T.MEG, T.US_DAY, T.MAX_WALL, T.EPOCH_S
MAXORD = 3652059
NAIVE = "@naive"
HANG = [1, 13, 0, 0]
PROVS = ["ctor", "conv", "parse", "inst"]


# ----------------------------------------------------------------------------- stdlib description of units (oracle side)
def ymd(W):
    d = _dt.date.fromordinal(W // US_DAY + 1)
    return d.year, d.month, d.day


def uid(u, ws, W):
    """Identifier of the unit of kind u containing wall microsecond W (0 <= W <= MAX_WALL)."""
    if u == 0:
        return W // MEG
    if u == 1:
        return W // (60 * MEG)
    if u == 2:
        return W // (3600 * MEG)
    k = W // US_DAY
    if u == 3:
        return k
    if u == 4:
        return (k - ws) // 7
    y, m, _ = ymd(W)
    if u == 5:
        return (y, m)
    if u == 6:
        return y
    if u == 7:
        return y // 10
    return (y - 1) // 100


def _ord(y, m, d):
    """Proleptic ordinal also for years outside 1..9999 (400-year periodicity)."""
    q = (y - 1) // 400
    yy = y - 400 * q
    return _dt.date(yy, m, d).toordinal() + 146097 * q


def bounds(u, ws, W):
    """(lo, hi): first and last wall microsecond of the unit containing W (may lie outside 0..MAX_WALL)."""
    if u <= 2:
        q = (MEG, 60 * MEG, 3600 * MEG)[u]
        lo = W - W % q
        return lo, lo + q - 1
    k = W // US_DAY
    if u == 3:
        return k * US_DAY, k * US_DAY + US_DAY - 1
    if u == 4:
        k0 = k - (k - ws) % 7
        return k0 * US_DAY, (k0 + 7) * US_DAY - 1
    y, m, _ = ymd(W)
    if u == 5:
        a, b = _ord(y, m, 1), _ord(y, m, calendar.monthrange(y, m)[1])
    elif u == 6:
        a, b = _ord(y, 1, 1), _ord(y, 12, 31)
    elif u == 7:
        a, b = _ord(y - y % 10, 1, 1), _ord(y - y % 10 + 9, 12, 31)
    else:
        c = (y - 1) - (y - 1) % 100 + 1
        a, b = _ord(c, 1, 1), _ord(c + 99, 12, 31)
    return (a - 1) * US_DAY, b * US_DAY - 1


def ref_tz(spec):
    return None if spec == NAIVE else T.ref_zone(spec)


def inst_of(tz, W, f):
    """Instant (microseconds since 0001-01-01 UTC) of the wall value (W, fold) in tz, by the stdlib; naive: the wall value itself."""
    if tz is None:
        return W
    d = T.native(W, f, tz)
    o = T.off_s(d)
    return W - o * MEG


def wall_at(tz, U):
    if tz is None:
        return U
    if not (0 <= U <= MAX_WALL):
        return None
    return T.ref_render(tz, U)[0]


def kind_of(tz, w_s):
    """'unique' | 'repeated' | 'skipped' for the wall second w_s."""
    if tz is None or isinstance(tz, _dt.timezone):
        return "unique"
    n = len(T.solutions(tz, w_s))
    return ("skipped", "unique", "repeated")[min(n, 2)]


# ----------------------------------------------------------------------------- case generation
def _named(spec):
    return isinstance(spec, str) and spec != NAIVE


@functools.lru_cache(maxsize=None)
def _midnight_zones():
    """zones having a gap or overlap that contains a local midnight (explicit table + a few rule years)"""
    out = []
    for name in zones.names():
        for (t, p, o) in zones.tab(name).gaps_and_overlaps(rule_years=(2040,)):
            a, b = t + EPOCH_S + min(p, o), t + EPOCH_S + max(p, o)
            if (b - 1) // 86400 != (a - 1) // 86400 or a % 86400 == 0:
                out.append(name)
                break
    return tuple(out)


def _region(tr):
    t, p, o = tr
    return (t + EPOCH_S + min(p, o)), (t + EPOCH_S + max(p, o))      # wall seconds [a, b)


def _touches(u, ws, W, a, b):
    """does the unit of W have its first/last microsecond (or a day boundary, for weeks) in the wall region [a, b) seconds?"""
    lo, hi = bounds(u, ws, W)
    A, B = a * MEG, b * MEG
    if A <= lo < B or A <= hi < B:
        return True
    if u == 4:
        d = lo
        while d <= hi + 1:
            if A <= d < B or A <= d - 1 < B:
                return True
            d += US_DAY
    return False


def _dt_cases_for_transition(name, tr, rnd, out, heavy, n_ws=7, hang_budget=None):
    tz = T.ref_zone(name)
    a, b = _region(tr)
    gap = tr[2] > tr[1]
    g = b - a
    whole_day = gap and g >= 86400       # a calendar day (almost) entirely skipped: the week walk may never terminate there
    wss = sorted(rnd.sample(range(7), n_ws))
    pts = [a * MEG - 1, a * MEG - 1800 * MEG - 1, b * MEG, b * MEG + 1, b * MEG + 2222 * MEG + 7, b * MEG + 5 * 3600 * MEG,
           a * MEG - 7 * 3600 * MEG, b * MEG + US_DAY + 3 * 3600 * MEG, a * MEG - US_DAY - 5 * 3600 * MEG]
    if heavy:
        pts += [b * MEG + k * US_DAY + rnd.randrange(US_DAY) for k in (2, 3, 5, 6)] + [a * MEG - k * US_DAY - rnd.randrange(US_DAY) for k in (2, 4, 6)]
    if not gap:
        pts += [a * MEG, a * MEG + (g // 2) * MEG + 13, b * MEG - 1]
    for W in pts:
        if not (10 * US_DAY < W < MAX_WALL - 10 * US_DAY):
            continue
        k = kind_of(tz, W // MEG)
        if k == "skipped":
            continue
        folds = (0, 1)
        for f in folds:
            # the natural fold of the instant (what a conversion from UTC yields)
            U = inst_of(tz, W, f)
            fnat = T.ref_render(tz, U)[1]
            if T.ref_render(tz, U)[0] != W:
                continue
            touching = [(u, ws) for u in range(9) for ws in (wss if u == 4 else (0,)) if _touches(u, ws, W, a, b)]
            picked = list(touching)
            picked.append((rnd.randrange(9), rnd.randrange(7)))
            if whole_day:
                wk = [p for p in picked if p[0] == 4]
                picked = [p for p in picked if p[0] != 4]
                while wk and hang_budget and hang_budget[0] > 0:
                    picked.append(wk.pop(rnd.randrange(len(wk))))
                    hang_budget[0] -= 1
                    if rnd.randrange(2):
                        break
            if len(picked) > (3 if n_ws < 7 else 40):
                picked = rnd.sample(picked, 3 if n_ws < 7 else 40)
            for (u, ws) in picked:
                is_touch = (u, ws) in touching
                if u != 4:
                    ws = rnd.randrange(7)
                if f == fnat:
                    prov = "conv" if rnd.randrange(3) else "inst"
                elif k == "repeated":
                    continue
                else:
                    prov = PROVS[(0, 2, 3, 0)[rnd.randrange(4)]] if f == 1 else ("ctor" if rnd.randrange(2) else "inst")
                out.append({"stream": "dst-boundary" if is_touch else "dst-other", "fn": "dt", "args": [name, W, f, fnat, prov, u, ws, (ws + 6) % 7]})


def _midnight_days(tr):
    """day indexes whose local midnight, or whose last second, lies in the wall region of the transition"""
    a, b = _region(tr)
    days = set()
    for k in range(a // 86400 - 1, b // 86400 + 2):
        if a <= k * 86400 < b or a <= k * 86400 + 86399 < b:
            days.add(k)
    return sorted(days)


def _week_inner_cases(name, tr, rnd, out, all_days):
    """week-inner: the value is on an ORDINARY day 1..6 days before / after a day G whose midnight (or last second) is skipped or
    repeated, unit week, EVERY week configuration: the 7 configurations put G before the week, on its first / last day, strictly
    inside the backward (start_of) or forward (end_of) day-by-day walk, and on the far side of the value.  Only the walk's
    INTERMEDIATE values meet the transition in the 'strictly inside' configurations, so the unit's boundaries are ordinary wall
    times there and the whole property is demanded without any listed exception."""
    tz = T.ref_zone(name)
    a, b = _region(tr)
    if b - a >= 86400:
        return                      # whole calendar days skipped: the never-terminating walk, covered (with a budget) by dst-boundary
    tods = [12 * 3600 * MEG, 0, US_DAY - 1, None, 3600 * MEG - 1, None]
    for G in _midnight_days(tr):
        ds = [d for d in range(-6, 7) if d != 0]
        if not all_days:
            ds = sorted(rnd.sample([d for d in ds if d < 0], 3) + rnd.sample([d for d in ds if d > 0], 4))
        for i, d in enumerate(ds):
            tod = tods[(i + G) % len(tods)]
            W = (G + d) * US_DAY + (rnd.randrange(US_DAY) if tod is None else tod)
            if not (10 * US_DAY < W < MAX_WALL - 10 * US_DAY) or kind_of(tz, W // MEG) != "unique":
                continue
            U = inst_of(tz, W, 0)
            if T.ref_render(tz, U)[0] != W:
                continue
            fnat = T.ref_render(tz, U)[1]
            for ws in range(7):
                # provenance: a converted value (natural fold, 0 for a unique wall time) or a constructed / parsed one (fold 1)
                if (ws + i) % 2:
                    f, prov = fnat, ("conv" if rnd.randrange(3) else "inst")
                else:
                    f, prov = 1, ("ctor" if rnd.randrange(3) else "parse")
                out.append({"stream": "week-inner", "fn": "dt", "args": [name, W, f, fnat, prov, 4, ws, (ws + 6) % 7]})
                if ws in ((G + 1) % 7, (G + 4 + i) % 7):
                    # the two walks on their own (previous(ws), next(we)): the intermediate value start_of/end_of('week') build on
                    out.append({"stream": "week-walk", "fn": "walk", "args": [name, W, f, prov, ws, (ws + 6) % 7]})


def _select_transitions(name, rnd, n_other):
    tab = zones.tab(name)
    trs = [t for t in tab.gaps_and_overlaps(rule_years=(2040, 9990)) if zones.MIN_T + 12 * 86400 < t[0] < zones.MAX_T - 12 * 86400]
    mid, other = [], []
    for t in trs:
        a, b = _region(t)
        if (b - 1) // 86400 != (a - 1) // 86400 or a % 86400 == 0 or b % 86400 == 0:
            mid.append(t)
        else:
            other.append(t)
    if len(other) > n_other:
        other = rnd.sample(other, n_other)
    return mid, other


def _aligned_walls(rnd, n):
    """wall values at and around unit edges over the whole range"""
    out = [0, 1, MEG - 1, US_DAY - 1, US_DAY, MAX_WALL, MAX_WALL - 1, MAX_WALL - MEG + 1, MAX_WALL - US_DAY, MAX_WALL - US_DAY + 1]
    for y in (1, 2, 9, 10, 11, 99, 100, 101, 1899, 1900, 1901, 1999, 2000, 2001, 2009, 2010, 9899, 9900, 9901, 9989, 9990, 9991, 9998, 9999):
        for (m, d) in ((1, 1), (12, 31), (2, 28), (3, 1), (6, 30)):
            base = (_dt.date(y, m, d).toordinal() - 1) * US_DAY
            out += [base, base + 1, base + US_DAY - 1, base + rnd.randrange(US_DAY)]
    for _ in range(n):
        y = rnd.randrange(1, 10000)
        m = rnd.randrange(1, 13)
        d = rnd.choice([1, calendar.monthrange(y, m)[1], rnd.randrange(1, 29)])
        base = (_dt.date(y, m, d).toordinal() - 1) * US_DAY
        s = rnd.choice([0, 1, 59, 60, 3599, 3600, 86399, rnd.randrange(86400)])
        us = rnd.choice([0, 1, 999999, rnd.randrange(MEG)])
        out.append(base + s * MEG + us)
    return [w for w in out if 0 <= w <= MAX_WALL]


def cases(tier, seed):
    rnd = random.Random(seed)
    out = []
    thorough = tier == "thorough"
    # ---- tz-database zones
    if thorough:
        zs = list(zones.names())
    else:
        odd = [z for z in zones.ODD_ZONES if z in zones.names()]
        mids = [z for z in _midnight_zones() if z not in odd]
        rnd.shuffle(mids)
        zs = odd + mids[:30]
    hang_budget = [40 if thorough else 6]
    for name in zs:
        mid, other = _select_transitions(name, rnd, 6 if thorough else 1)
        if not thorough and len(mid) > 3:
            big = sorted(mid, key=lambda t: -abs(t[2] - t[1]))[:1]
            mid = big + rnd.sample([t for t in mid if t not in big], 2)
        for t in mid:
            _dt_cases_for_transition(name, t, rnd, out, heavy=True, n_ws=7 if thorough else 2, hang_budget=hang_budget)
        for t in other:
            _dt_cases_for_transition(name, t, rnd, out, heavy=False, n_ws=7 if thorough else 1, hang_budget=hang_budget)
    # ---- week-inner: ordinary days around a day with a skipped / repeated midnight x all 7 week configurations
    # (own generator state: the other streams of a given seed do not depend on this one)
    rnd2 = random.Random(seed * 7919 + 12)
    mz = list(_midnight_zones())
    rnd2.shuffle(mz)
    n_inner = 0
    for name in mz:
        mid, _o = _select_transitions(name, rnd2, 0)
        has_midnight = lambda t: any(_region(t)[0] <= k * 86400 < _region(t)[1] for k in _midnight_days(t))
        gaps = [t for t in mid if t[2] > t[1] and _region(t)[1] - _region(t)[0] < 86400 and has_midnight(t)]
        ovl = [t for t in mid if t[2] < t[1] and _midnight_days(t)]
        if not gaps:
            continue
        picks = rnd2.sample(gaps, min(len(gaps), 2 if thorough else 1))
        if ovl:
            picks += rnd2.sample(ovl, 1)
        for t in picks:
            _week_inner_cases(name, t, rnd2, out, all_days=thorough)
        n_inner += 1
        if n_inner >= (150 if thorough else 8):
            break
    # ---- fixed offsets, UTC, naive: whole range incl. edges
    specs = [NAIVE, "UTC", 0, 3600, -3600, 19800, -12600, 86340, -86340, 20700]
    walls = _aligned_walls(rnd, 700 if thorough else 160)
    for W in walls:
        spec = specs[rnd.randrange(len(specs))]
        if spec != NAIVE and not (2 * US_DAY < W < MAX_WALL - 2 * US_DAY):
            spec = NAIVE
        for u in (range(9) if thorough else rnd.sample(range(9), 4)):
            ws = rnd.randrange(7)
            f = rnd.randrange(2)
            prov = "ctor" if spec == NAIVE else PROVS[(0, 2, 3)[rnd.randrange(3)]]
            if prov == "parse":
                f = 1
            if isinstance(spec, int):
                f = 0           # a FixedTimezone forces fold 0
            out.append({"stream": "naive" if spec == NAIVE else ("utc" if spec == "UTC" else "fixed-offset"), "fn": "dt",
                        "args": [spec, W, f, f, prov, u, ws, (ws + 6) % 7]})
        out.append({"stream": "unit-spec", "fn": "uid", "args": [rnd.randrange(9), rnd.randrange(7), W]})
    # ---- Date
    ords = set([1, 2, 3, 6, 7, 8, MAXORD, MAXORD - 1, MAXORD - 6, MAXORD - 7])
    for y in (1, 9, 10, 11, 100, 101, 1900, 2000, 2001, 2024, 9900, 9901, 9990, 9999):
        for m in range(1, 13):
            dim = calendar.monthrange(y, m)[1]
            for d in (1, dim, rnd.randrange(1, dim + 1)):
                ords.add(_dt.date(y, m, d).toordinal())
    shapes = {}
    y0 = 1 + (seed * 131) % 9500
    for y in range(y0, y0 + 400):
        for m in range(1, 13):
            fw, dim = calendar.monthrange(y, m)
            shapes.setdefault((dim, fw), (y, m))
    for (dim, fw), (y, m) in sorted(shapes.items()):
        for d in (1, dim, rnd.randrange(1, dim + 1)):
            ords.add(_dt.date(y, m, d).toordinal())
    for _ in range(600 if thorough else 60):
        ords.add(rnd.randrange(1, MAXORD + 1))
    for n in sorted(ords):
        for u in range(3, 9):
            for ws in (range(7) if thorough else ((0, rnd.randrange(1, 7)) if u == 4 else (rnd.randrange(7),))):
                out.append({"stream": "date", "fn": "date", "args": [n, u, ws, (ws + 6) % 7]})
    # ---- inconsistent week configurations: correspondence only
    for _ in range(200 if thorough else 40):
        ws, we = rnd.randrange(7), rnd.randrange(7)
        out.append({"stream": "week-config-odd", "fn": "date", "args": [rnd.randrange(8, MAXORD - 8), 4, ws, we]})
        W = rnd.randrange(10 * US_DAY, MAX_WALL - 10 * US_DAY)
        out.append({"stream": "week-config-odd", "fn": "dt", "args": [rnd.choice([NAIVE, "UTC", 3600]), W, 0, 0, "ctor", 4, ws, we]})
    # dedupe
    seen, res = set(), []
    for c in out:
        k = repr((c["fn"], c["args"]))
        if k not in seen:
            seen.add(k)
            res.append(c)
    return res


def search_cases(seed):
    return [c for c in cases("thorough", seed + 1) if c["fn"] != "uid"][::4]


def nontrivial(c):
    return c["fn"] != "uid"


# ----------------------------------------------------------------------------- implementation
class _Hang(Exception):
    pass


def _grp(pendulum, r, tzname, tzobj):
    if not isinstance(r, pendulum.DateTime):
        return [7, 1, 0, 0]
    if tzname is None:
        if r.tzinfo is not None:
            return [7, 2, 0, 0]
        return [0, T.wall_of(r), r.fold, 0]
    if r.tzinfo is None or r.timezone_name != tzname:
        return [7, 2, 0, 0]
    return [0, T.wall_of(r), r.fold, T.off_s(r)]


def _guard(fn):
    import signal
    signal.setitimer(signal.ITIMER_REAL, 1.5)
    try:
        return fn()
    finally:
        signal.setitimer(signal.ITIMER_REAL, 0)


def _pair(pendulum, x, unit, tzname, tzobj):
    """[start group, end group, start-of-start group, end-of-end group]"""
    gs = []
    firsts = []
    for meth in ("start_of", "end_of"):
        try:
            r = _guard(lambda: getattr(x, meth)(unit))
            firsts.append(r)
            gs.append(_grp(pendulum, r, tzname, tzobj))
        except _Hang:
            firsts.append(None)
            gs.append(list(HANG))
        except Exception as e:  # noqa
            firsts.append(None)
            gs.append(T.exn_result(e) + [0, 0])
    for meth, r, g in zip(("start_of", "end_of"), firsts, list(gs)):
        if r is None or g[0] != 0:
            gs.append(list(g))
            continue
        try:
            r2 = _guard(lambda: getattr(r, meth)(unit))
            gs.append(_grp(pendulum, r2, tzname, tzobj))
        except _Hang:
            gs.append(list(HANG))
        except Exception as e:  # noqa
            gs.append(T.exn_result(e) + [0, 0])
    return gs


def _build(pendulum, spec, W, f, prov):
    y, mo, d, h, mi, s, us = T.fields_of(W)
    if spec == NAIVE:
        return pendulum.naive(y, mo, d, h, mi, s, us, fold=f), None, None
    tz = T.pzone(spec)
    if prov == "ctor":
        x = pendulum.datetime(y, mo, d, h, mi, s, us, tz=tz, fold=f)
    elif prov == "parse":
        x = pendulum.parse(f"{y:04d}-{mo:02d}-{d:02d}T{h:02d}:{mi:02d}:{s:02d}.{us:06d}", tz=tz)
    elif prov == "inst":
        x = pendulum.instance(_dt.datetime(y, mo, d, h, mi, s, us, tzinfo=(tz if isinstance(spec, int) else T.ref_zone(spec)), fold=f))
    elif prov == "conv":
        nat = _dt.datetime(y, mo, d, h, mi, s, us, tzinfo=T.ref_zone(spec), fold=f).astimezone(_dt.timezone.utc)
        x = pendulum.datetime(nat.year, nat.month, nat.day, nat.hour, nat.minute, nat.second, nat.microsecond, tz="UTC").in_timezone(tz)
    else:
        raise ValueError(prov)
    return x, x.timezone_name, (tz if not isinstance(spec, int) else None)


def impl_run(cases):
    import signal
    import pendulum

    def _alarm(*a):
        raise _Hang()
    signal.signal(signal.SIGALRM, _alarm)
    out = []
    for c in cases:
        fn, a = c["fn"], c["args"]
        try:
            if fn == "uid":
                out.append([0])
                continue
            if fn == "date":
                n, u, ws, we = a
                # the configuration value is handed over as the enum member or as the plain int it equals (both are accepted), by case parity
                _wk = pendulum.WeekDay if (n + ws) % 2 == 0 else int
                pendulum.week_starts_at(_wk(ws))
                pendulum.week_ends_at(_wk(we))
                d0 = _dt.date.fromordinal(n)
                x = pendulum.Date(d0.year, d0.month, d0.day)
                res = [0]
                firsts = []
                for meth in ("start_of", "end_of"):
                    try:
                        r = _guard(lambda: getattr(x, meth)(UNITS[u]))
                        firsts.append(r)
                        res += [0, r.toordinal()] if type(r) is pendulum.Date else [7, 1]
                    except _Hang:
                        firsts.append(None)
                        res += [1, 13]
                    except Exception as e:  # noqa
                        firsts.append(None)
                        res += T.exn_result(e)
                for i, meth in enumerate(("start_of", "end_of")):
                    r = firsts[i]
                    if r is None:
                        res += res[1 + 2 * i: 3 + 2 * i]
                        continue
                    try:
                        r2 = getattr(r, meth)(UNITS[u])
                        res += [0, r2.toordinal()] if type(r2) is pendulum.Date else [7, 1]
                    except Exception as e:  # noqa
                        res += T.exn_result(e)
                out.append(res)
                continue
            if fn == "walk":
                spec, W, f, prov, ws, we = a
                x, tzname, tzobj = _build(pendulum, spec, W, f, prov)
                if T.wall_of(x) != W or x.fold != f:
                    out.append([7, 5, T.wall_of(x), x.fold])
                    continue
                res = [0]
                for meth, wd in (("previous", ws), ("next", we)):
                    try:
                        r = _guard(lambda: getattr(x, meth)(pendulum.WeekDay(wd)))
                        res += _grp(pendulum, r, tzname, tzobj)
                    except _Hang:
                        res += list(HANG)
                    except Exception as e:  # noqa
                        res += T.exn_result(e) + [0, 0]
                out.append(res)
                continue
            spec, W, f, fnat, prov, u, ws, we = a
            _wk = pendulum.WeekDay if (W // 1000000 + ws) % 2 == 0 else int
            pendulum.week_starts_at(_wk(ws))
            pendulum.week_ends_at(_wk(we))
            x, tzname, tzobj = _build(pendulum, spec, W, f, prov)
            if T.wall_of(x) != W or x.fold != f:
                out.append([7, 5, T.wall_of(x), x.fold])      # the provenance did not produce the intended instance
                continue
            res = [0]
            for g in _pair(pendulum, x, UNITS[u], tzname, tzobj):
                res += g
            # the same instant obtained by conversion from UTC (fixed/naive: constructed with the other fold flag)
            if _named(spec) and spec != "UTC":
                xr, _, _ = _build(pendulum, spec, W, fnat, "conv")
            elif spec == NAIVE or spec == "UTC":
                xr, _, _ = _build(pendulum, spec, W, 1 - f, "ctor")
            else:
                xr, _, _ = _build(pendulum, spec, W, 0, "inst")
            if T.wall_of(xr) != W or (xr.utcoffset() != x.utcoffset()):
                out.append([7, 6, T.wall_of(xr), xr.fold])
                continue
            for g in _pair(pendulum, xr, UNITS[u], tzname, tzobj)[:2]:
                res += g
            out.append(res)
        except Exception as e:  # noqa
            out.append([8] + T.exn_result(e))
        finally:
            pendulum.week_starts_at(pendulum.MONDAY)
            pendulum.week_ends_at(pendulum.SUNDAY)
    return out


# ----------------------------------------------------------------------------- model
def _zone_enc_multi(spec, points_unix):
    """zone table for the model: windows of +-3 days around each point (merged), later windows bridged by a pseudo-transition at their cut
    that carries the offset in force there."""
    if spec == NAIVE:
        return [0, 0]
    if isinstance(spec, int):
        return [spec, 0]
    tab = zones.tab(spec)
    margin = 3 * 86400
    ivs = sorted((max(zones.MIN_T, lo - margin), min(zones.MAX_T, hi + margin)) for lo, hi in points_unix)
    merged = []
    for lo, hi in ivs:
        if merged and lo <= merged[-1][1] + 86400:
            merged[-1][1] = max(merged[-1][1], hi)
        else:
            merged.append([lo, hi])
    init = None
    trs = []
    for i, (lo, hi) in enumerate(merged):
        tr = tab.transitions_between(lo, hi)
        cut = tab.offset_before(tr[0][0]) if tr else tab.offset_before(lo)
        if i == 0:
            init = cut
        else:
            trs.append((lo - 1, cut))
        trs += tr
    outl = [init, len(trs)]
    for t, o in trs:
        outl += [t + EPOCH_S, o]
    return outl


def _kind(spec):
    return 0 if spec == NAIVE else (1 if isinstance(spec, int) else 2)


def model_calls(c, backend):
    fn, a = c["fn"], c["args"]
    if fn == "uid":
        return [("unit_id", [0, 0] + list(a))]
    if fn == "date":
        return [("date_start_end", [0, 0] + list(a))]
    if fn == "walk":
        spec, W, f, prov, ws, we = a
        ux = T.unix_of_wall(W)
        return [("dt_week_walk", _zone_enc_multi(spec, [(ux - 17 * 86400, ux + 17 * 86400)]) + [_kind(spec), W, f, ws, we])]
    spec, W, f, fnat, prov, u, ws, we = a
    ux = T.unix_of_wall(W)
    lo, hi = bounds(u, ws, W)
    pts = [(ux - 9 * 86400, ux + 9 * 86400)]
    lo2 = bounds(u, ws, lo - 1)[0] if lo > 0 else lo
    hi2 = bounds(u, ws, hi + 1)[1] if hi < MAX_WALL else hi
    for b in (lo, hi, lo2, hi2):
        ub = T.unix_of_wall(min(max(b, 0), MAX_WALL))
        pts.append((ub - 9 * 86400 if u == 4 else ub - 86400, ub + 9 * 86400 if u == 4 else ub + 86400))
    z = _zone_enc_multi(spec, pts)
    f2 = fnat if (_named(spec) and spec != "UTC") else ((1 - f) if spec in (NAIVE, "UTC") else 0)
    return [("dt_start_end", z + [_kind(spec), W, f, u, ws, we]), ("dt_start_end", z + [_kind(spec), W, f2, u, ws, we])]


def model_result(c, backend, outs):
    if c["fn"] in ("uid", "date", "walk"):
        return outs[0]
    a, b = outs
    if a[0] != 0 or b[0] != 0:
        return [9]
    return a + b[1:9]


def same(c, m, r):
    if c["fn"] == "uid":
        return m == [0, _uid_int(*c["args"])]
    return m == r


def _uid_int(u, ws, W):
    v = uid(u, ws, W)
    return v[0] * 12 + v[1] - 1 if isinstance(v, tuple) else v


# ----------------------------------------------------------------------------- the property (stdlib only)
def _consistent(ws, we):
    return we == (ws + 6) % 7


def _check_side(side, tz, spec, u, ws, W, f, Ux, g, g2, gref, lo, hi):
    """one of start/end.  g: result group, g2: op applied twice, gref: the reference provenance"""
    what = f"{side}_of('{UNITS[u]}')"
    bound = lo if side == "start" else hi
    representable = 0 <= bound <= MAX_WALL
    if g[0] == 7:
        return f"{what}: result is not a DateTime in the same timezone (marker {g[1]})"
    if g == HANG:
        return f"{what} does not terminate (no result after 1.5 s)"
    if g[0] == 1:
        if representable:
            return f"{what} raised (code {g[1]}) although the unit's {'first' if side == 'start' else 'last'} microsecond {T.fields_of(bound)} is representable"
        return None
    if not representable:
        # the boundary is outside years 1..9999: any in-unit answer is impossible
        return f"{what} returned {T.fields_of(g[1])} although the unit's boundary is outside the representable range"
    Wr, fr, off = g[1], g[2], g[3]
    if uid(u, ws, Wr) != uid(u, ws, W):
        return f"{what} = {T.fields_of(Wr)} is not in the same {UNITS[u]} as {T.fields_of(W)} (week starts on {ws})"
    if tz is not None:
        o_ref = T.off_s(T.native(Wr, fr, tz))
        if o_ref != off:
            return f"{what}: utcoffset {off} differs from the tz database's {o_ref} for {T.fields_of(Wr)} fold {fr}"
        back = T.ref_render(tz, Wr - off * MEG) if 0 <= Wr - off * MEG <= MAX_WALL else None
        if back is not None and back[0] != Wr:
            return f"{what} = {T.fields_of(Wr)} is not a valid local time"
    Ur = Wr - off * MEG
    if side == "start" and not Ur <= Ux:
        return f"{what} = {T.fields_of(Wr)} (offset {off}) is later than the value as an instant"
    if side == "end" and not Ux <= Ur:
        return f"{what} = {T.fields_of(Wr)} (offset {off}) is earlier than the value as an instant"
    Un = Ur - 1 if side == "start" else Ur + 1
    Wn = wall_at(tz, Un) if tz is not None else (Un if 0 <= Un <= MAX_WALL else None)
    if Wn is not None and 0 <= Wn <= MAX_WALL and uid(u, ws, Wn) == uid(u, ws, W):
        return (f"the microsecond {'before' if side == 'start' else 'after'} {what} = {T.fields_of(Wr)} (offset {off}) is {T.fields_of(Wn)}, "
                f"still in the same {UNITS[u]}")
    if g2 != g:
        return f"{what} is not idempotent: applying it again gives {g2} instead of {g}"
    if gref[0] != 0 or gref[1] != Wr or gref[3] != off:
        return (f"{what} depends on how the value was obtained: {T.fields_of(Wr)} offset {off} here, but "
                f"{(T.fields_of(gref[1]), gref[3]) if gref[0] == 0 else gref} for the same instant obtained by conversion from UTC")
    return None


def oracle(c, backend, r):
    fn, a = c["fn"], c["args"]
    if fn == "uid":
        return None
    if fn == "date":
        n, u, ws, we = a
        if not _consistent(ws, we):
            return None
        if len(r) != 9 or r[0] != 0:
            return f"unexpected result {r}"
        W = (n - 1) * US_DAY
        lo, hi = bounds(u, ws, W)
        for side, i, bound in (("start", 1, lo // US_DAY + 1), ("end", 3, hi // US_DAY + 1)):
            code, v = r[i], r[i + 1]
            what = f"Date.{side}_of('{UNITS[u]}') of ordinal {n} {_dt.date.fromordinal(n)}"
            ok = 1 <= bound <= MAXORD
            if code == 7:
                return f"{what}: result is not a Date"
            if code == 1:
                if ok:
                    return f"{what} raised (code {v}) although the boundary day is representable"
                continue
            if not ok:
                return f"{what} returned a value although the unit boundary is outside the range"
            if v != bound:
                Wv = (v - 1) * US_DAY
                if uid(u, ws, Wv) != uid(u, ws, W):
                    return f"{what} = {_dt.date.fromordinal(v)} is not in the same unit (week starts on {ws})"
                return f"{what} = {_dt.date.fromordinal(v)}: the neighbouring day is still in the same unit (expected {_dt.date.fromordinal(bound)})"
            if (side == "start" and v > n) or (side == "end" and v < n):
                return f"{what} is on the wrong side of the value"
            if r[i + 4: i + 6] != [code, v]:
                return f"{what} is not idempotent"
        return None
    if fn == "walk":
        return None        # previous()/next() themselves are C16's subject; here they are compared with the model only
    spec, W, f, fnat, prov, u, ws, we = a
    if not _consistent(ws, we):
        return None
    if r[0] == 7:
        return f"harness: the provenance {prov} did not yield the intended instance: {r}"
    if r[0] != 0 or len(r) != 25:
        return f"unexpected result {r}"
    tz = ref_tz(spec)
    Ux = inst_of(tz, W, f)
    lo, hi = bounds(u, ws, W)
    g = [r[1 + 4 * i: 5 + 4 * i] for i in range(6)]
    for side, i in (("start", 0), ("end", 1)):
        why = _check_side(side, tz, spec, u, ws, W, f, Ux, g[i], g[i + 2], g[i + 4], lo, hi)
        if why:
            return f"{spec} {T.fields_of(W)} fold={f} ({prov}): " + why
    return None


# ----------------------------------------------------------------------------- what the listed defects predict (stdlib mirror of the faithful model)
# A failing case is filed under a listed finding only when the OBSERVED groups are exactly what the documented mechanism of that finding
# produces for this input (region AND result).  The mechanism is Model/StartEnd.v + Model/TzConvert.v convert_naive, restated here over
# zoneinfo so that the classification does not depend on the Coq model being buildable (a changed source breaks the translation):
#   create(wall, fold): a skipped wall time is moved by the length of the gap, forwards for fold 1 and backwards for fold 0, result fold 0;
#                       any other wall time is kept with the given fold;
#   set()/at()/start_of('day')... pass the INSTANCE's fold, add(days=+-1) passes the default fold 1;
#   week: previous()/next() = start_of('day'), one step, then `while day_of_week != wd: step`, and finally start_of/end_of('day').
class _MRaise(Exception):
    def __init__(self, code):
        self.code = code


def _m_create(tz, W, f):
    ob, oa = T.off_s(T.native(W, 0, tz)), T.off_s(T.native(W, 1, tz))
    if oa > ob:
        W2 = W + MEG * (oa - ob) if f else W - MEG * (oa - ob)
        if not (0 <= W2 <= MAX_WALL):
            raise _MRaise(3)
        return W2, 0
    return W, f


def _m_set(tz, Wb, f):
    if not (0 <= Wb <= MAX_WALL):
        raise _MRaise(1)
    return _m_create(tz, Wb, f)


def _m_step(tz, W, k):
    W2 = W + k * US_DAY
    if not (0 <= W2 <= MAX_WALL):
        raise _MRaise(3)
    return _m_create(tz, W2, 1)


def _m_walk(tz, W, f, k, wd):
    W, f = _m_set(tz, W - W % US_DAY, f)
    W, f = _m_step(tz, W, k)
    n = 0
    while (W // US_DAY) % 7 != wd:
        n += 1
        if n >= 24:
            raise _MRaise(13)
        W, f = _m_step(tz, W, k)
    return W, f


def _m_op(side, tz, u, ws, W, f):
    if u == 4:
        wd = ws if side == "start" else (ws + 6) % 7
        if (W // US_DAY) % 7 != wd:
            W, f = _m_walk(tz, W, f, -1 if side == "start" else 1, wd)
        return _m_set(tz, (W - W % US_DAY) if side == "start" else (W - W % US_DAY + US_DAY - 1), f)
    lo, hi = bounds(u, ws, W)
    return _m_set(tz, lo if side == "start" else hi, f)


def _m_group(side, tz, u, ws, W, f, times=1):
    """the group [0, wall, fold, utcoffset] / [1, code, 0, 0] that the documented mechanism yields for side_of(unit) applied `times` times"""
    try:
        for _ in range(times):
            W, f = _m_op(side, tz, u, ws, W, f)
    except _MRaise as e:
        return [1, e.code, 0, 0]
    return [0, W, f, T.off_s(T.native(W, f, tz))]


def documented(side, tz, u, ws, W, f, fnat):
    """(result, applied twice, result for the converted value) as the documented mechanism predicts them"""
    return (_m_group(side, tz, u, ws, W, f), _m_group(side, tz, u, ws, W, f, 2), _m_group(side, tz, u, ws, W, fnat))


# ----------------------------------------------------------------------------- known findings (tight predicates on the input)
def _day_kinds(tz, k0, k1, last_second_of=None):
    """kinds of the local midnights of day indexes k0..k1 (and of the last second of day `last_second_of`)"""
    ks = [kind_of(tz, k * 86400) for k in range(k0, k1 + 1)]
    if last_second_of is not None:
        ks.append(kind_of(tz, last_second_of * 86400 + 86399))
    return ks


def _whole_day_skipped(tz, k0, k1):
    return any(kind_of(tz, k * 86400) == "skipped" and kind_of(tz, k * 86400 + 43200) == "skipped" and kind_of(tz, k * 86400 + 86399) == "skipped"
               for k in range(k0, k1 + 1))


def _classify_side(side, tz, u, ws, W, f, fnat, g, lo, hi):
    """finding id for a failure of this side, or None when the input is outside every listed region"""
    kx = W // US_DAY
    if u == 4:
        # the week walk: previous()/next() start with start_of('day') of the value's own day, then construct the local midnight of
        # every walked day, then start_of('day') / end_of('day') of the target day
        k0, k1 = (lo // US_DAY, kx) if side == "start" else (kx, hi // US_DAY)
        if g == HANG:
            return "week-walk-never-terminates" if _whole_day_skipped(tz, k0 - 1, k1 + 1) else None
        kinds = _day_kinds(tz, k0, k1, None if side == "start" else k1)
        return "week-walk-dst-midnight" if any(k != "unique" for k in kinds) else None
    b = lo if side == "start" else hi
    if not (0 <= b <= MAX_WALL):
        return None
    k = kind_of(tz, b // MEG)
    # a skipped boundary is moved by the LENGTH of the gap in the direction given by the instance's fold: backwards (fold 0) out of the
    # unit for start_of, forwards (fold 1) out of the unit for end_of, and with the other fold onto the gap's edge only when the gap
    # begins (ends) exactly at the boundary; a repeated boundary is read with the instance's fold
    if side == "start":
        if k == "skipped":
            return "start-boundary-skipped"
        if k == "repeated" and (f == 1 or fnat == 1):
            return "start-boundary-repeated-fold1"
    else:
        if k == "skipped":
            return "end-boundary-skipped"
        if k == "repeated" and (f == 0 or fnat == 0):
            return "end-boundary-repeated-fold0"
    return None


def known(c, backend, r):
    fn, a = c["fn"], c["args"]
    if fn != "dt":
        return None
    spec, W, f, fnat, prov, u, ws, we = a
    if not _named(spec) or spec == "UTC" or not _consistent(ws, we) or r[0] != 0 or len(r) != 25:
        return None
    tz = ref_tz(spec)
    Ux = inst_of(tz, W, f)
    g = [r[1 + 4 * i: 5 + 4 * i] for i in range(6)]
    lo, hi = bounds(u, ws, W)
    ids = []
    for side, i in (("start", 0), ("end", 1)):
        if _check_side(side, tz, spec, u, ws, W, f, Ux, g[i], g[i + 2], g[i + 4], lo, hi):
            try:
                want = documented(side, tz, u, ws, W, f, fnat)
            except Exception:  # noqa
                return None
            if (g[i], g[i + 2], g[i + 4]) != want:
                return None          # inside a listed region perhaps, but not the result the listed mechanism produces: a violation
            k = _classify_side(side, tz, u, ws, W, f, fnat, g[i], lo, hi)
            if k is None:
                return None          # a failing side outside every listed region: a violation
            ids.append(k)
    return ids[0] if ids else None


LEVEL_TEXT = ("Machine-checked Coq theorems about an executable model of DateTime/Date start_of and end_of (month/year/decade/century bodies translated from "
              "/repo on every run, the rest hand-modelled and pinned textually): for Date, naive, UTC and every fixed offset, every representable value, 9 units "
              "and the 7 consistent week configurations the results are the first/last microsecond (day) of the unit on the wall clock, hence in the same unit, "
              "start <= x <= end as instants, the neighbouring microseconds are in other units, idempotent, zone kept, independent of fold; for every "
              "well-formed tz table the same for the non-week units under the hypothesis that the boundary is not a skipped wall time (plus: unique or the "
              "right fold for the neighbour statement); refutations (vm_compute witnesses on the Sao_Paulo / Havana / Apia tables) when the boundary is "
              "skipped or repeated; for the WEEK unit in every tz table: start_of/end_of('week') are the week's first/last microsecond and idempotent when the "
              "midnight of the value's day and the week's boundary exist and skipped wall times on the walked days are moved within their day, whatever "
              "happens to the midnights strictly inside the walk (start_week_dst_partial, end_week_dst_partial, Tehran 2018 witness that previous() alone "
              "carries the shifted hour).  Tied to /repo by translation + correspondence in both backends and a stdlib oracle of the property itself.")
DESIGN_REF = "DESIGN.md section 4 C12"
LEVEL_NOTE = ("Trusted: Coq kernel+VM; Spec/Cal.v, Spec/Zone.v as models of datetime/zoneinfo (validated by C15/C02 streams); hand models Model/StartEnd*.v and "
              "Model/TzConvert.v (validated by correspondence every run, the week walks dt_previous/dt_next also on their own: stream week-walk); "
              "wf2_zone of every shipped table is proved by kernel computation (Props/C02.v shipped_zones_wellformed over Gen/ZoneTables.v).  All streams are inside the Coq model (no oracle-only stream); the classification of "
              "listed findings uses a stdlib restatement of the model (tools/props/C12.py `documented`) so that it stays tight when the model cannot be built.")
TECHNIQUE = "Coq proof (calendar bijection + lia, induction over transition tables and loop fuel) + translation + differential correspondence + stdlib oracle"
