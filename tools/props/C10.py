"""C10 — Duration arithmetic agrees with timedelta arithmetic."""
from __future__ import annotations

import math
import random

ID = "C10"
PROPS = "Props/C10.v"
RULE = ("every operator (+ - * // / % divmod, == != < <= > >=, unary - abs + hash bool) x left kind x right kind over {Duration, plain timedelta, int, float, Interval} "
        "systematically (type table); seeded random pairs with either sign and magnitudes 1 us .. 2^31 s; floor/modulo sign combinations; round-half-even ties "
        "(usec = (2k+1)*b/2 for / int, x.5 products for * float and / float); zero divisors (both sides must raise the same); Durations with years/months for "
        "neg / abs / int scaling / comparisons; Intervals on the left; operands in the float band 2^31..2^33 s and beyond (known finding float-total-resolution); "
        "results at the timedelta range limits (OverflowError); // / % divmod of a Duration / Interval by a PLAIN timedelta (the repaired finding div-by-plain-timedelta: "
        "its former witness 3 days // 5 hours for all four operators, both signs, divisors 1 us .. 2^31 s, exact multiples, zero); prim-* streams compare the translated _divide_and_round / _to_microseconds and the hand-written "
        "float helpers (as_integer_ratio, int/int, divmod(int, float), Duration(seconds=float)) with the implementation directly. "
        "HISTORIES (fn seq: one case = several operator calls executed in order in ONE process; an operand may be the very object an earlier call returned; with "
        "share=1 equal literals are one object): history-twin-divisor (the divisor of // / % divmod drawn from the objects that compare == and hash alike but are distinguishable: "
        "plain timedelta, Duration, Duration in mixed units, Duration whose years/months make up part of the length, AbsoluteDuration; fixed alias pairs "
        "Duration(years=1, days=1) == timedelta(days=366) in both orders + random lengths), history-twin-operands (both operands from such pools, int k vs float k as factor, any operator incl. "
        "comparisons / hash / neg), history-chain (results fed back as operands: remainder // x, quotient used as factor, -result, timedelta results on the left), "
        "history-after-raise (a call that raised ZeroDivisionError / TypeError / OverflowError first), history-same-objects (the operation repeated on the same objects with every "
        "public accessor read in between: op touch). Every step is judged on its own operands by the stdlib oracle and the whole history is run in the Gallina model "
        "(run_history); steps with an AbsoluteDuration operand are executed but neither judged (outside the statement) nor modelled. "
        "prim-timedelta_to_microseconds-history: the divisor conversion on 2-4 twins in a row against divisor_us. "
        "REFLECTED OPERATORS (reflected-table: all 7 operators x 10 lefts x 13 rights; reflected-<op>: 1500 random): a plain timedelta / int / float on the LEFT and on the right "
        "every kind of pendulum object of a given length: Duration (plain, mixed units), Interval signed (end > start), inverted (end < start), ABSOLUTE given start-first and "
        "end-first (value [ivl, delta, 1] = Interval(base, base + delta, absolute=True)), lengths 0 / 1 us, AbsoluteDuration (oracle only: judged when consistent, N >= 0, and for "
        "N < 0 under the reflected - // / % divmod inherited from timedelta) -- __radd__ / __rmul__ are pendulum's, __rsub__ __rfloordiv__ __rtruediv__ __rmod__ __rdivmod__ must remain "
        "timedelta's own arithmetic on the native lengths; absolute-left-*: the absolute Intervals / AbsoluteDurations on the LEFT of every operator; interval-unary: -i abs(i) +i bool(i) "
        "of every kind of Interval (model entry ivl_unop; -i of a non-zero absolute Interval is the known finding neg-absolute-interval). "
        "SUBCLASS INSTANCES OVERRIDING THE PUBLIC ACCESSORS on EITHER side of every operator (subclass-right-table / subclass-left-table: 7 operators x 9 other operands x 41 "
        "subclass operands, both orders; subclass-right-<op> / subclass-left-<op>: 1800 random; subclass-unary, subclass-ym-mul-int, subclass-compare): Intervals signed, inverted, "
        "absolute start-first and end-first whose span is a whole number of calendar months (calendar residual 0 days), months + hours / microseconds, months + days, > 31 days "
        "(years, months, weeks, remaining_days of such an Interval are the CALENDAR residual, not the parts of its length), and a USER SUBCLASS of Duration (value [sdur, <constructor "
        "arguments>]) every public property of which (years months weeks days remaining_days hours minutes seconds remaining_seconds microseconds invert) answers something else than "
        "the private field; the other operand a Duration / timedelta / Interval / such a subclass instance / int / float, near multiples of the subclass operand and short lengths for "
        "// / % divmod. An Interval or subclass instance on the RIGHT of a Duration-like operand is part of every older stream too (the former exclusion is gone). "
        "prim-timedelta_to_microseconds-subclass: the divisor conversion on subclass instances, JUDGED against the native length (as is prim-timedelta_to_microseconds-history for "
        "year-free operands); history-subclass-divisor: one process dividing by the twins of ONE month-spanning length (Interval of each kind, user subclass, timedelta, Duration), either side. "
        "A case is non-trivial when an operand is non-zero.")
EXHAUSTIVE = {"quick": False, "thorough": False}
VM_SUBSET = 60
TRUSTED = [
    "a process history is modelled as a straight-line program over immutable values (Model/DurationOps.run_history): that CPython evaluates the calls of a history in order and that "
    "an object returned by one call and passed to the next is the same object is trusted; everything else about histories is checked by the history streams on every run",
    "Spec/TdFloat.v (SpecFloat binary64 + CPython's float/timedelta primitives) as validated by C09's tdfloat-* streams; Model/Duration.v (Duration.__new__) as validated by C09",
    "Python's binary operator protocol for a heap subclass of timedelta (subclass-first reflected call, NotImplemented -> TypeError, inherited reflected slots are timedelta's own "
    "arithmetic on the native values) is hand-modelled in Model/DurationOps.arith_op and validated by the type-table stream on every run",
    "float premises addsub_float_exact / mul_float_exact of Proofs/C10Facts.v (the float reconstruction Duration(seconds=<float sum/product>) is exact below 2^31 s): PROVED "
    "(Proofs/FloatRoundTripC10.v, through Flocq: addsub_float_exact_proved, mul_float_exact_proved), as is C09's float_split_exact_on_D9 (Proofs/FloatRoundTripC09.v); the *_partial theorems keep them as "
    "explicit premises and add_exact / sub_exact / mul_int_exact state the same without premise; additionally exercised on every run by the pairs-add / pairs-sub / pairs-mul streams (inside the domain) "
    "and band-* streams (outside: known finding)",
]
ASSUMPTIONS = [
    "operands are Python ints (not bool), floats, pendulum Durations built from integer arguments, plain datetime.timedelta, Intervals of naive datetimes",
    "exactness of + - and int * is claimed (and proved, unconditionally: add_exact / sub_exact / mul_int_exact) only while operands and result stay below 2^31 s; beyond, see finding float-total-resolution",
    "CPython (non-PyPy) branch of duration.py",
]

US = 10 ** 6
DAY_US = 86400 * US
B31 = 2 ** 31 * US
B33 = 2 ** 33 * US
TD_MAX = 999999999
EXN = {1: "ValueError", 2: "TypeError", 3: "OverflowError", 6: "AttributeError", 8: "ZeroDivisionError", 14: "Exception"}
BINOPS = {"add": 1, "sub": 2, "mul": 4, "floordiv": 5, "truediv": 6, "mod": 7, "divmod": 8, "eq": 10, "ne": 11, "lt": 12, "le": 13, "gt": 14, "ge": 15}
UNOPS = {"neg": 3, "abs": 9, "pos": 16, "hash": 17, "bool": 18}
HIST_UNOPS = dict(UNOPS, touch=19)       # touch (only inside a history): read every public accessor of the object, then hand the SAME object on
ARITH = ("add", "sub", "mul", "floordiv", "truediv", "mod", "divmod")
DIVOPS = ("floordiv", "truediv", "mod", "divmod")
CMP = ("eq", "ne", "lt", "le", "gt", "ge")
KIND = {"int": 1, "float": 2, "dur": 3, "td": 4, "ivl": 5, "ref": 6, "adur": 7, "sdur": 3}       # sdur: in the model a Duration (the class of an operand is not an input of any operator)


# ----------------------------------------------------------------------------- float <-> integers (same wire format as C09)
def fcode(x):
    x = float(x)
    if x != x:
        return [6, 0, 0]
    if x == math.inf:
        return [4, 0, 0]
    if x == -math.inf:
        return [5, 0, 0]
    if x == 0:
        return [1, 0, 0] if math.copysign(1.0, x) < 0 else [0, 0, 0]
    m, e = math.frexp(abs(x))
    m = int(m * 2 ** 53)
    e -= 53
    if e < -1074:
        m >>= (-1074 - e)
        e = -1074
    return [3 if x < 0 else 2, m, e]


def fdecode(c):
    t, m, e = c
    if t == 0:
        return 0.0
    if t == 1:
        return -0.0
    if t in (2, 3):
        v = math.ldexp(m, e)
        return -v if t == 3 else v
    if t == 4:
        return math.inf
    if t == 5:
        return -math.inf
    return math.nan


# ----------------------------------------------------------------------------- values
# ["int", k] | ["float", tag, m, e] | ["dur", days, seconds, us, ms, minutes, hours, weeks, years, months] | ["td", N] | ["ivl", delta]
# only inside a history (fn "seq"): ["ref", i] the result object of step i of the same history | ["adur", N] an AbsoluteDuration(microseconds=N)
def v_int(k):
    return ["int", int(k)]


def v_float(x):
    return ["float"] + fcode(x)


def v_dur(n=0, years=0, months=0, rnd=None):
    """A Duration whose non-year/month part is n microseconds, written with mixed-sign integer arguments when rnd is given."""
    a = [0] * 9            # days seconds us ms minutes hours weeks years months
    rem = n
    if rnd is not None and rnd.random() < 0.6:
        units = [(0, DAY_US), (4, 60 * US), (5, 3600 * US), (6, 7 * DAY_US), (3, 1000)]
        rnd.shuffle(units)
        for i, u in units[:rnd.randrange(0, 4)]:
            lim = max(1, min(10 ** 6, abs(rem) // u + 2))
            x = rnd.randint(-lim, lim)
            a[i] = x
            rem -= x * u
        if rnd.random() < 0.5:
            s = rem // US + rnd.choice([0, 0, 1, -1])
            a[1] = s
            rem -= s * US
    a[2] = rem
    a[7], a[8] = years, months
    return ["dur"] + a


def v_td(n):
    return ["td", int(n)]


def v_ivl(n, absolute=0):
    """Interval(base, base + n us) -- with absolute=1 Interval(base, base + n us, absolute=True): n < 0 is `absolute, given end first`"""
    return ["ivl", int(n), 1] if absolute else ["ivl", int(n)]


def ivl_abs(v):
    return v[0] == "ivl" and len(v) > 2 and bool(v[2])


def ivl_eff(v):
    """end - start of the Interval as stored: an absolute Interval swaps its end points when start > end"""
    return abs(v[1]) if ivl_abs(v) else v[1]


def dur_native(a):
    d, s, us, ms, mi, h, w, y, mo = a
    return ((((w * 7 + d + 365 * y + 30 * mo) * 24 + h) * 60 + mi) * 60 + s) * US + ms * 1000 + us


def has_ym(v):
    return v[0] in ("dur", "sdur") and (v[8] != 0 or v[9] != 0)


def enc(v):
    k = KIND[v[0]]
    body = list(v[1:])
    return [k] + body + [0] * (9 - len(body))


def tdlike(v):
    return v[0] in ("dur", "td", "ivl", "adur", "sdur")


def v_sdur(n=0, years=0, months=0, rnd=None):
    """the same constructor arguments as v_dur, for an instance of a USER SUBCLASS of Duration that overrides every public accessor
    (years months weeks days remaining_days hours minutes seconds remaining_seconds microseconds invert) with values that differ from the
    private fields -- as Interval does with the calendar residual.  Its native timedelta and its private fields are those of the Duration."""
    return ["sdur"] + v_dur(n, years, months, rnd)[1:]


# ----------------------------------------------------------------------------- case streams
def rand_mag(rnd, hi=B31):
    return min(_rand_mag(rnd, hi), max(0, hi - 1))


def _rand_mag(rnd, hi):
    r = rnd.random()
    if r < 0.15:
        return rnd.choice([0, 1, 2, 3, 499999, 500000, 500001, 999999, US, US + 1, 60 * US, 3600 * US, DAY_US - 1, DAY_US, DAY_US + 1, 7 * DAY_US])
    if r < 0.5:
        return rnd.randrange(0, 10 ** rnd.randrange(1, 13))
    return rnd.randrange(0, min(hi, 2 ** rnd.randrange(1, 52)))


def rand_n(rnd, hi=B31):
    return rnd.choice([1, -1]) * rand_mag(rnd, hi)


def rand_float_operand(rnd):
    r = rnd.random()
    if r < 0.25:
        return rnd.choice([0.5, 1.5, 2.5, -0.5, -1.5, -2.5, 0.25, 0.75, 1.0, -1.0, 2.0, 3.0, 0.1, -0.1, 1e-3, 1e-6, 1e-7, 1e6, 0.3, 1 / 3, 7.0, -7.0, 1e-300, 5e-324,
                           1e300, 2.0 ** 52, 2.0 ** 53 + 2, 0.9999999999999999, 1.0000000000000002])
    if r < 0.5:
        return rnd.choice([1, -1]) * rnd.randrange(1, 2 ** rnd.randrange(1, 12)) / 2 ** rnd.randrange(0, 12)
    if r < 0.8:
        return rnd.choice([1, -1]) * rnd.random() * 10 ** rnd.randrange(-8, 8)
    return rnd.choice([1, -1]) * math.ldexp(rnd.randrange(2 ** 52, 2 ** 53), rnd.randrange(-80, 20))


def rand_tdlike(rnd, n=None, kinds=("dur", "dur", "td", "ivl")):
    n = rand_n(rnd) if n is None else n
    k = rnd.choice(kinds)
    if k == "dur":
        return v_dur(n, rnd=rnd)
    if k == "td":
        return v_td(n)
    return v_ivl(n)


PEND = ("dur", "dur", "ivl")


def cases(tier, seed):
    rnd = random.Random(seed * 6151 + 10)
    scale = 1 if tier == "quick" else 8
    out = []

    def binop(stream, op, l, r):
        if not ({l[0], r[0]} & {"dur", "ivl", "adur", "sdur"}):
            return          # no pendulum object involved
        if op in CMP and "ivl" in (l[0], r[0]):
            return          # Interval overrides __eq__/__hash__ (start, end, absolute): outside the statement
        out.append({"stream": stream, "fn": "binop", "args": [op, l, r]})

    def unop(stream, op, v):
        out.append({"stream": stream, "fn": "unop", "args": [op, v]})

    # 1. the type table: every operator x kind x kind on a few fixed values
    fixed = {
        "int": [v_int(3), v_int(-2), v_int(0), v_int(1)],
        "float": [v_float(2.5), v_float(-0.5), v_float(0.0), v_float(math.inf), v_float(math.nan)],
        "dur": [v_dur(3 * DAY_US + 5 * US + 7), v_dur(-(5 * 3600 * US + 3)), v_dur(0), v_dur(12345678, years=2, months=-3)],
        "td": [v_td(5 * 3600 * US + 3), v_td(-(2 * DAY_US + 999999)), v_td(0)],
        "ivl": [v_ivl(3 * DAY_US + 5 * US + 7), v_ivl(-(7 * 3600 * US + 1)), v_ivl(0)],
    }
    for op in BINOPS:
        for lk in fixed:
            for rk in fixed:
                if not (lk in ("dur", "ivl") or rk in ("dur", "ivl")):
                    continue      # no pendulum object involved
                for l in fixed[lk]:
                    for r in fixed[rk]:
                        binop("table", op, l, r)
    for op in UNOPS:
        for v in fixed["dur"]:
            unop("table", op, v)

    # 2. random pairs: Duration-like x (Duration | timedelta | int | float), both orders
    for _ in range(2500 * scale):
        op = rnd.choice(ARITH)
        l = rand_tdlike(rnd, kinds=PEND)
        rk = rnd.choice(["dur", "td", "int", "float"])
        if rk in ("dur", "td"):
            n = rand_n(rnd)
            if op in DIVOPS and rnd.random() < 0.5:
                n = rnd.choice([1, -1]) * rnd.randrange(1, 10 ** rnd.randrange(1, 10))      # small divisors: large quotients
            r = v_dur(n, rnd=rnd) if rk == "dur" else v_td(n)
        elif rk == "int":
            r = v_int(rnd.choice([1, -1]) * rnd.randrange(0, 10 ** rnd.randrange(1, 8)))
        else:
            r = v_float(rand_float_operand(rnd))
        if op == "mul" and r[0] == "int":          # keep |k * N| inside the exact domain for this stream
            n = rand_n(rnd, hi=max(2, B31 // max(1, abs(r[1]))))
            l = rand_tdlike(rnd, n, kinds=PEND)
        if op in ("add", "sub") and r[0] in ("dur", "td"):
            l = rand_tdlike(rnd, rand_n(rnd, hi=B31 // 2), kinds=PEND)
            r = (v_dur if r[0] == "dur" else lambda n, rnd=None: v_td(n))(rand_n(rnd, hi=B31 // 2), rnd=rnd)
        binop("pairs-" + op, op, l, r)
        if rnd.random() < 0.5:
            binop("pairs-reflected-" + op, op, r, l)
    # 3. floor / modulo sign combinations on small values
    small = [1, 2, 3, 5, 7, 10, 999999, US, US + 1, 86399 * US + 999999, DAY_US]
    for _ in range(500 * scale):
        a, b = rnd.choice([1, -1]) * rnd.choice(small + [rnd.randrange(1, 10 ** 9)]), rnd.choice([1, -1]) * rnd.choice(small)
        op = rnd.choice(DIVOPS)
        l = rand_tdlike(rnd, a, kinds=PEND)
        binop("signs-" + op, op, l, rnd.choice([v_dur(b, rnd=rnd), v_td(b), v_int(b) if op in ("floordiv", "truediv") else v_dur(b)]))
        binop("signs-reflected-" + op, op, v_td(a), rand_tdlike(rnd, b, kinds=("dur", "ivl")))
    # 4. ties of round-half-even
    for _ in range(500 * scale):
        b = rnd.choice([1, -1]) * 2 * rnd.randrange(1, 10 ** rnd.randrange(1, 6))
        k = rnd.randint(-10 ** 6, 10 ** 6)
        usec = (2 * k + 1) * (b // 2) + rnd.choice([0, 0, 0, 1, -1])
        binop("ties-truediv-int", "truediv", rand_tdlike(rnd, usec, kinds=PEND), v_int(b))
        # * float with an exact x.5 product:  usec odd, factor j + 0.5  /  factor 2^-p
        u = 2 * rnd.randint(-10 ** 9, 10 ** 9) + 1
        f = rnd.choice([0.5, 1.5, 2.5, -0.5, -1.5, 3.5, 0.25, 0.125, rnd.randrange(1, 1000) + 0.5])
        binop("ties-mul-float", "mul", rand_tdlike(rnd, u, kinds=PEND), v_float(f))
        binop("ties-mul-float", "mul", v_float(f), rand_tdlike(rnd, u, kinds=("dur", "ivl")))
        binop("ties-truediv-float", "truediv", rand_tdlike(rnd, u * rnd.choice([1, 3, 5]), kinds=PEND), v_float(rnd.choice([2.0, -2.0, 4.0, 8.0, 0.4, 6.0, 10.0])))
    # 5. zero divisors: the native operation raises ZeroDivisionError, so must the Duration
    for op in DIVOPS:
        for l in (v_dur(5 * US), v_ivl(5 * US), v_dur(0)):
            for r in (v_dur(0), v_td(0), v_int(0), v_float(0.0), v_float(-0.0)):
                binop("zero-divisor", op, l, r)
        binop("zero-divisor", op, v_td(5), v_dur(0))
    # 6. years / months: component-wise negation and integer scaling, comparisons, what is inherited
    for _ in range(500 * scale):
        y, mo = rnd.randint(-40, 40), rnd.randint(-40, 40)
        n = rand_n(rnd, hi=10 ** 14)
        d = v_dur(n, years=y, months=mo, rnd=rnd)
        unop("ym-neg", "neg", d)
        unop("ym-abs", "abs", d)
        k = rnd.randint(-50, 50)
        binop("ym-mul-int", "mul", d, v_int(k))
        binop("ym-mul-int", "mul", v_int(k), d)
        if rnd.random() < 0.3:
            binop("ym-other", rnd.choice(["floordiv", "truediv"]), d, rnd.choice([v_int(rnd.randint(1, 9)), v_float(rnd.choice([2.0, 0.5, -1.5]))]))
            binop("ym-other", rnd.choice(ARITH), d, rand_tdlike(rnd, kinds=("dur", "td")))
        other = rnd.choice([v_td(dur_native(d[1:])), v_td(dur_native(d[1:]) + rnd.choice([1, -1])), rand_tdlike(rnd, kinds=("dur", "td"))])
        op = rnd.choice(CMP)
        binop("ym-compare", op, d, other)
        binop("ym-compare", op, other, d)
        unop("ym-hash", "hash", d)
    # 7. comparisons / hash / unary without years
    for _ in range(600 * scale):
        n = rand_n(rnd)
        d = v_dur(n, rnd=rnd)
        o = rnd.choice([v_td(n), v_td(n + 1), v_td(n - 1), v_dur(n, rnd=rnd), v_dur(-n), rand_tdlike(rnd, kinds=("dur", "td")), v_int(n), v_float(float(n))])
        op = rnd.choice(CMP)
        binop("compare", op, d, o)
        binop("compare", op, o, d)
        unop("unary", rnd.choice(list(UNOPS)), d)
        unop("unary-neg", "neg", d)
    # 8. the float band: operands / results between 2^31 s and 2^33 s (+ - and int * lose a microsecond here), and beyond 2^33 s
    for _ in range(400 * scale):
        a = rnd.choice([1, -1]) * rnd.randrange(B31, B33)
        b = rnd.choice([1, -1]) * rnd.randrange(0, B33)
        op = rnd.choice(["add", "sub"])
        binop("band-addsub", op, rand_tdlike(rnd, a, kinds=PEND), rand_tdlike(rnd, b, kinds=("dur", "td")))
        binop("band-addsub", op, v_td(b), rand_tdlike(rnd, a, kinds=("dur",)))
        k = rnd.choice([1, -1]) * rnd.randrange(1, rnd.choice([3, 10, 1000, 10 ** 6]))
        binop("band-mul-int", "mul", rand_tdlike(rnd, rnd.choice([1, -1]) * rnd.randrange(B31, B33) // abs(k), kinds=PEND), v_int(k))
    for _ in range(80 * scale):
        a = rnd.choice([1, -1]) * rnd.randrange(B33, TD_MAX * DAY_US // 2)
        op = rnd.choice(ARITH)
        r = rnd.choice([v_int(rnd.randint(1, 9)), v_float(rnd.choice([0.5, 1.5, 2.0])), v_dur(rand_n(rnd), rnd=rnd), v_td(rand_n(rnd))])
        binop("far-" + op, op, v_dur(a, rnd=rnd), r)
        unop("far-neg", "neg", v_dur(a, rnd=rnd))
    binop("band-addsub", "add", v_dur(-2240990336911072), v_dur(-564728395307133))
    binop("band-mul-int", "mul", v_dur(-4433329909397), v_int(617))
    # 8b. // / % divmod by a PLAIN timedelta (finding div-by-plain-timedelta, repaired): the former witness and its neighbourhood are ordinary
    #     cases that must pass the oracle (the native quotient / remainder) and the correspondence
    for op in DIVOPS:
        for l in (v_dur(3 * DAY_US), v_ivl(3 * DAY_US), v_dur(-3 * DAY_US), v_dur(3 * DAY_US + 1, rnd=rnd)):
            for r in (v_td(5 * 3600 * US), v_td(-5 * 3600 * US), v_td(1), v_td(3 * DAY_US), v_td(TD_MAX * DAY_US)):
                binop("div-by-plain-timedelta", op, l, r)
    for _ in range(300 * scale):
        op = rnd.choice(DIVOPS)
        b = rand_n(rnd) or 1
        if rnd.random() < 0.4:
            b = rnd.choice([1, -1]) * rnd.randrange(1, 10 ** rnd.randrange(1, 10))
        a = b * rnd.randint(-10 ** 4, 10 ** 4) + rnd.choice([0, 0, 1, -1, b // 2]) if rnd.random() < 0.4 else rand_n(rnd)
        if abs(a) >= B31:
            a = rand_n(rnd)
        binop("div-by-plain-timedelta", op, rand_tdlike(rnd, a, kinds=PEND), v_td(b))
    # 9. the timedelta range: results that overflow
    for _ in range(60 * scale):
        a = rnd.choice([1, -1]) * (TD_MAX * DAY_US - rnd.randrange(0, 3 * DAY_US))
        binop("range", rnd.choice(["add", "sub"]), v_dur(a), rnd.choice([v_td(rnd.choice([1, -1]) * rnd.randrange(0, 4 * DAY_US)), v_dur(a), v_dur(-a)]))
        binop("range", "mul", v_dur(rnd.randrange(1, 10 ** 12)), v_int(rnd.choice([10 ** 9, 10 ** 12, -10 ** 15, 10 ** 30, 10 ** 400])))
        binop("range", "mul", v_dur(rnd.randrange(1, 10 ** 12)), v_float(rnd.choice([1e300, -1e12, 1e18])))
        binop("range", "truediv", v_dur(rnd.randrange(1, 10 ** 14)), v_float(rnd.choice([1e-300, 5e-324, -1e-12])))
        binop("range", "sub", v_td(a), v_dur(-a))
    # 9b. a plain timedelta / int / float on the LEFT of every operator, every kind of pendulum object on the RIGHT (own random stream)
    reflected_cases(random.Random(seed * 104729 + 1010), scale, binop, unop)
    # 9c. SUBCLASS instances that override the public accessors (Interval of every kind spanning months, a user subclass) on EITHER side (own random stream)
    subclass_cases(random.Random(seed * 15485863 + 1010), scale, binop, unop, out)
    # 10. primitives
    for _ in range(1500 * scale):
        a = rnd.choice([1, -1]) * rnd.randrange(0, 10 ** rnd.randrange(1, 24))
        b = rnd.choice([1, -1]) * rnd.randrange(1, 10 ** rnd.randrange(1, 12))
        out.append({"stream": "prim-divide_and_round", "fn": "dar", "args": [a, b], "backends": ["py"]})
        b2 = 2 * b
        out.append({"stream": "prim-divide_and_round-ties", "fn": "dar", "args": [(2 * rnd.randint(-10 ** 9, 10 ** 9) + 1) * b, b2], "backends": ["py"]})
        out.append({"stream": "prim-int_truediv", "fn": "itd", "args": [a, b], "backends": ["py"]})
    for a in range(-12, 13):
        for b in (-6, -5, -4, -3, -2, -1, 0, 1, 2, 3, 4, 5, 6):
            out.append({"stream": "prim-divide_and_round-small", "fn": "dar", "args": [a, b], "backends": ["py"]})
            out.append({"stream": "prim-int_truediv", "fn": "itd", "args": [a, b], "backends": ["py"]})
    for _ in range(1200 * scale):
        x = rand_float_operand(rnd) if rnd.random() < 0.8 else rnd.choice([0.0, -0.0, math.inf, -math.inf, math.nan, 5e-324, 1.7976931348623157e308])
        out.append({"stream": "prim-as_integer_ratio", "fn": "ratio", "args": fcode(x), "backends": ["py"]})
        out.append({"stream": "prim-divide_and_round_float", "fn": "darf", "args": [rnd.randint(-500, 500)] + fcode(x), "backends": ["py"]})
        n = rand_n(rnd, hi=B33)
        s = n / US if rnd.random() < 0.7 else rand_float_operand(rnd) * rnd.choice([1, 1000, 10 ** 6])
        out.append({"stream": "prim-duration_of_float_seconds", "fn": "fsec", "args": fcode(s) + [rnd.choice([0, 0, 1, -3]), rnd.choice([0, 0, 5, -7])], "backends": ["py"]})
        out.append({"stream": "prim-to_microseconds", "fn": "tous", "args": v_dur(n, years=rnd.choice([0, 0, 2, -1]), months=rnd.choice([0, 0, 3]), rnd=rnd)[1:], "backends": ["py"]})
    # 11. histories: several operator calls in one process (own random stream: the streams above stay as they were)
    history_cases(random.Random(seed * 7919 + 1010), scale, out)
    return out


# ----------------------------------------------------------------------------- reflected operators
def right_kinds(rnd, n):
    """every kind of pendulum object of native length n (|n| for the absolute ones) that can stand on the right of a plain timedelta / number:
    Duration (plain / mixed units), Interval signed or inverted (the sign of n), absolute Interval given start-first and end-first,
    AbsoluteDuration (native length n, total_seconds() |n|)"""
    return [v_dur(n), v_dur(n, rnd=rnd), v_ivl(n), v_ivl(abs(n), 1), v_ivl(-abs(n), 1), v_adur(n)]


def reflected_cases(rnd, scale, binop, unop):
    """`x <op> P` for x a plain timedelta / int / float and P a Duration, AbsoluteDuration or Interval (signed, inverted, absolute given in
    either order): Python asks P's reflected method first (P's class is a subclass of timedelta); __radd__ / __rmul__ are pendulum's own,
    __rsub__ __rfloordiv__ __rtruediv__ __rmod__ __rdivmod__ are INHERITED from timedelta and must stay exactly the native arithmetic on
    the native lengths -- a reflected method added to Duration is inherited by Interval and AbsoluteDuration, whose -x / abs / total_seconds
    differ from Duration's.  Also: the same objects on the LEFT, and -x abs(x) +x bool(x) of every kind of Interval."""
    X = 3 * DAY_US + 6 * 3600 * US + 30 * 60 * US + 250
    lefts = [v_td(10 * DAY_US), v_td(-(7 * 3600 * US) + 3), v_td(0), v_td(1), v_td(X), v_td(-X), v_int(3), v_int(-2), v_float(2.5), v_float(-0.5)]
    rights = [v_dur(X), v_dur(-(5 * 3600 * US + 1)), v_dur(0), v_ivl(X), v_ivl(-X), v_ivl(X, 1), v_ivl(-X, 1), v_ivl(0, 1), v_ivl(1, 1), v_ivl(-1, 1),
              v_adur(X), v_adur(-X), v_adur(0)]
    for op in ARITH:
        for l in lefts:
            for r in rights:
                binop("reflected-table", op, l, r)
    for op in ARITH:
        for l in (v_ivl(X, 1), v_ivl(-X, 1), v_ivl(0, 1), v_adur(X), v_adur(0)):
            for r in (v_td(5 * 3600 * US), v_td(-X), v_td(0), v_dur(7 * 3600 * US + 1), v_dur(-X), v_int(3), v_int(-2), v_int(0), v_float(2.5), v_float(-0.5)):
                binop("absolute-left-table", op, l, r)
    for op in ("neg", "abs", "pos", "bool"):
        for v in (v_ivl(X), v_ivl(-X), v_ivl(X, 1), v_ivl(-X, 1), v_ivl(0), v_ivl(0, 1), v_ivl(1, 1), v_ivl(-1, 1), v_ivl(-1), v_ivl(DAY_US, 1)):
            unop("interval-unary", op, v)
    H = B31 // 2
    for _ in range(1500 * scale):
        op = rnd.choice(ARITH)
        n = rand_n(rnd, hi=H)
        if op in DIVOPS and rnd.random() < 0.5:
            n = rnd.choice([1, -1]) * rnd.randrange(1, 10 ** rnd.randrange(1, 10))          # small divisors: large quotients
        r = rnd.choice(right_kinds(rnd, n))
        k = rnd.random()
        if op == "mul" or k < 0.12:
            l = v_int(rnd.choice([1, -1]) * rnd.randrange(0, 10 ** rnd.randrange(1, 4))) if rnd.random() < 0.5 else v_float(rand_float_operand(rnd))
            if l[0] == "int" and r[0] != "dur":
                r = rnd.choice(right_kinds(rnd, rand_n(rnd, hi=max(2, H // max(1, abs(l[1]))))))     # |k * N| inside the exact domain
            elif l[0] == "int":
                r = v_dur(rand_n(rnd, hi=max(2, H // max(1, abs(l[1])))), rnd=rnd)
        elif k < 0.2:
            l = v_td(rnd.choice([0, 1, -1, n, -n, abs(n), -abs(n), 2 * n, n + 1, n - 1]))
        else:
            l = v_td(rand_n(rnd, hi=H))
        binop("reflected-" + op, op, l, r)
    for _ in range(300 * scale):
        op = rnd.choice(ARITH)
        n = rand_n(rnd, hi=H)
        l = rnd.choice([v_ivl(abs(n), 1), v_ivl(-abs(n), 1), v_adur(abs(n))])
        rk = rnd.choice(["dur", "td", "int", "float"])
        m = rnd.choice([1, -1]) * rnd.randrange(1, 10 ** rnd.randrange(1, 10)) if op in DIVOPS and rnd.random() < 0.5 else rand_n(rnd, hi=H)
        r = v_dur(m, rnd=rnd) if rk == "dur" else v_td(m) if rk == "td" else v_float(rand_float_operand(rnd)) if rk == "float" else \
            v_int(rnd.choice([1, -1]) * rnd.randrange(0, max(2, min(10 ** 4, H // max(1, abs(n))))))
        binop("absolute-left-" + op, op, l, r)
    for _ in range(300 * scale):
        n = rand_n(rnd, hi=H)
        unop("interval-unary", rnd.choice(["neg", "abs", "pos", "bool"]), rnd.choice([v_ivl(n), v_ivl(abs(n), 1), v_ivl(-abs(n), 1)]))


# ----------------------------------------------------------------------------- subclass instances overriding the public accessors
# Interval overrides years / months / weeks / remaining_days / hours / minutes with the CALENDAR residual of its end points (45 days from
# 4000-01-01 = 1 month 14 days: weeks 2, remaining_days 0, months 1), a user subclass may override any public accessor.  The operators of the
# statement must go on computing with the native length (the private fields) of such an operand, on whichever side it stands.
BASE_YMD = (4000, 1, 1)


def months_us(k):
    """microseconds from the base 4000-01-01 to the first of the month k calendar months later (k may be negative): an Interval of exactly
    k months, calendar residual 0 days"""
    from datetime import datetime
    y, m = divmod(BASE_YMD[1] - 1 + k, 12)
    return _us(datetime(BASE_YMD[0] + y, m + 1, 1) - datetime(*BASE_YMD))


def month_span(rnd, hi):
    """a length of at least one calendar month counted from the base: whole months, whole months + a few hours / microseconds (residual 0 days),
    months + days, or any length beyond 31 days"""
    r = rnd.random()
    kmax = max(1, min(800, hi // (31 * DAY_US) - 1))
    if r < 0.25:
        n = months_us(rnd.randint(1, kmax))
    elif r < 0.45:
        n = months_us(rnd.randint(1, kmax)) + rnd.choice([1, 999999, US, 2 * 3600 * US, 5 * 3600 * US + 7 * US + 11, DAY_US - 1])
    elif r < 0.7:
        n = months_us(rnd.randint(1, kmax)) + rnd.randint(1, 27) * DAY_US + rnd.randrange(0, DAY_US)
    else:
        n = rnd.randrange(31 * DAY_US, max(32 * DAY_US, hi))
    return min(n, hi - 1)


def sub_kinds(rnd, n):
    """every kind of accessor-overriding subclass instance of native length n (|n| for the absolute Intervals)"""
    return [v_ivl(n), v_ivl(-n), v_ivl(abs(n), 1), v_ivl(-abs(n), 1), v_sdur(n), v_sdur(n, rnd=rnd)]


def subclass_cases(rnd, scale, binop, unop, out):
    H = B31 // 2
    M1, M2, Y1 = months_us(1), months_us(2), months_us(12)
    X = 100 * DAY_US + 7 * 3600 * US + 11
    spans = [M1, M2, Y1, M1 + 2 * 3600 * US, 45 * DAY_US + 5 * 3600 * US + 7 * US, 400 * DAY_US + 3, 38 * DAY_US, M2 - 1, 14 * DAY_US]
    subs = []
    for n in spans:
        subs += [v_ivl(n), v_ivl(-n), v_ivl(n, 1), v_ivl(-n, 1)]
    subs += [v_sdur(X), v_sdur(-(45 * DAY_US + 1)), v_sdur(M1, rnd=rnd), v_sdur(0), v_ivl(0)]
    others = [v_dur(X), v_dur(1000 * DAY_US + US), v_td(X), v_td(-1000 * DAY_US - 1), v_ivl(1000 * DAY_US + US), v_sdur(X), v_int(3), v_float(2.5), v_dur(0)]
    for op in ARITH:
        for o in others:
            for sb in subs:
                binop("subclass-right-table", op, o, sb)
                binop("subclass-left-table", op, sb, o)
    for op in UNOPS:
        for v in (v_sdur(X), v_sdur(-X), v_sdur(0), v_sdur(12345678, years=2, months=-3), v_sdur(-M1, years=-1, months=5, rnd=rnd)):
            unop("subclass-unary", op, v)
    for op in ("neg", "abs", "pos", "bool"):
        for n in spans[:8]:
            for v in (v_ivl(n), v_ivl(-n), v_ivl(n, 1), v_ivl(-n, 1)):
                unop("subclass-unary", op, v)
    for _ in range(1800 * scale):
        op = rnd.choice(ARITH)
        n = month_span(rnd, H) if rnd.random() < 0.7 else (rand_mag(rnd, hi=H) or 1)
        n *= rnd.choice([1, 1, -1])
        sb = rnd.choice(sub_kinds(rnd, n))
        right = rnd.random() < 0.6
        if op == "mul" or (not right and op in ("floordiv", "truediv") and rnd.random() < 0.3):
            if rnd.random() < 0.5:
                o = v_int(rnd.choice([1, -1]) * rnd.randrange(0, max(2, min(10 ** 4, H // max(1, abs(n))))))
            else:
                o = v_float(rand_float_operand(rnd))
        else:
            r = rnd.random()
            if op in DIVOPS and r < 0.35:
                a = n * rnd.randint(-2000, 2000) + rnd.choice([0, 0, 1, -1, n // 2, rnd.randrange(0, abs(n) + 1)])      # near multiples of the subclass operand
            elif op in DIVOPS and r < 0.5:
                a = rnd.choice([1, -1]) * rnd.randrange(1, 10 ** rnd.randrange(1, 12))                                     # short: the subclass operand is many of them
            else:
                a = rand_n(rnd, hi=H)
            if abs(a) >= H:
                a = rand_n(rnd, hi=H)
            k = rnd.choice(["dur", "durx", "td", "ivl", "ivla", "sdur", "sub"])
            o = (v_dur(a) if k == "dur" else v_dur(a, rnd=rnd) if k == "durx" else v_td(a) if k == "td" else v_ivl(a) if k == "ivl" else v_ivl(a, 1) if k == "ivla"
                 else v_sdur(a, rnd=rnd) if k == "sdur" else rnd.choice(sub_kinds(rnd, month_span(rnd, H) * rnd.choice([1, -1]))))
        if right:
            binop("subclass-right-" + op, op, o, sb)
        else:
            binop("subclass-left-" + op, op, sb, o)
    for _ in range(200 * scale):
        y, mo = rnd.randint(-9, 9), rnd.randint(-20, 20)
        d = v_sdur(rand_n(rnd, hi=10 ** 14), years=y, months=mo, rnd=rnd)
        unop("subclass-unary", rnd.choice(list(UNOPS)), d if rnd.random() < 0.6 else v_sdur(rand_n(rnd, hi=H), rnd=rnd))
        k = rnd.randint(-50, 50)
        binop("subclass-ym-mul-int", "mul", d, v_int(k))
        binop("subclass-ym-mul-int", "mul", v_int(k), d)
        op = rnd.choice(CMP)
        other = rnd.choice([v_td(dur_native(d[1:])), v_td(dur_native(d[1:]) + rnd.choice([1, -1])), v_dur(dur_native(d[1:])), v_sdur(rand_n(rnd, hi=H))])
        binop("subclass-compare", op, d, other)
        binop("subclass-compare", op, other, d)
    # the divisor conversion itself on subclass instances (judged: the native length) and histories whose divisors are twins of ONE month-spanning length
    for _ in range(300 * scale):
        n = month_span(rnd, H) * rnd.choice([1, -1])
        out.append({"stream": "prim-timedelta_to_microseconds-subclass", "fn": "tdus", "backends": ["py"],
                    "args": [rnd.choice(sub_kinds(rnd, n) + [v_td(n), v_dur(n, rnd=rnd)]) for _ in range(rnd.randint(2, 4))]})
    for _ in range(250 * scale):
        n = month_span(rnd, H) * rnd.choice([1, -1])
        x = rnd.choice([v_dur(rand_n(rnd, hi=H), rnd=rnd), v_ivl(rand_n(rnd, hi=H)), v_sdur(rand_n(rnd, hi=H)), v_td(rand_n(rnd, hi=H)), v_dur(n * rnd.randint(-50, 50) + rnd.randint(-1, 1))])
        steps = []
        for _k in range(rnd.randint(2, 4)):
            op = rnd.choice(DIVOPS) if rnd.random() < 0.8 else rnd.choice(("add", "sub"))
            y = rnd.choice(sub_kinds(rnd, n) + [v_td(n), v_dur(n, rnd=rnd)])
            st = [op, x, y] if rnd.random() < 0.75 else [op, y, x]
            if _pend(st[1]) or _pend(st[2]):
                steps.append(st)
        steps = [st for st in steps if step_ok(st)]
        if len(steps) >= 2:
            out.append({"stream": "history-subclass-divisor", "fn": "seq", "args": [int(rnd.random() < 0.4), steps]})


# ----------------------------------------------------------------------------- histories (fn "seq")
# A history is a straight-line program executed in ONE process, in order: args = [share, [step, ...]], step = [op, operand(, operand)].
# An operand is a literal value, ["adur", N], or ["ref", i] = the very object step i returned.  With share = 1 equal literals are one object.
# Every step whose operands are inside the statement must, whatever ran before it, agree with the native operator on ITS OWN operands.
def v_adur(n):
    return ["adur", int(n)]


def v_ref(i):
    return ["ref", int(i)]


YM_PAIRS = [(1, 0), (0, 1), (1, 1), (-1, 0), (0, -1), (2, -3), (0, 2), (3, 2), (-2, 5), (10, 0), (0, 12)]
ROUND_UNITS = [3600 * US, DAY_US, 7 * DAY_US, 366 * DAY_US, 61 * DAY_US + 12 * 3600 * US, 90 * 60 * US, 30 * DAY_US, 365 * DAY_US, 395 * DAY_US, US, 1]


def twin(rnd, n, kind):
    """One of the objects that compare == (and hash alike) to timedelta(microseconds=n) but are distinguishable from it:
    td plain timedelta | dur Duration(microseconds=n) | durx the same written in mixed units | ym a Duration whose years / months
    make up part of the native length (its _to_microseconds() is NOT n) | ivl an Interval | adur an AbsoluteDuration (|n| inside)."""
    if kind == "td":
        return v_td(n)
    if kind == "dur":
        return v_dur(n)
    if kind == "durx":
        return v_dur(n, rnd=rnd)
    if kind == "ym":
        y, mo = rnd.choice(YM_PAIRS) if rnd.random() < 0.7 else (rnd.randint(-3, 3), rnd.randint(-6, 6))
        if 365 * y + 30 * mo == 0:
            y += 1
        return v_dur(n - (365 * y + 30 * mo) * DAY_US, years=y, months=mo, rnd=rnd if rnd.random() < 0.3 else None)
    if kind == "ivl":
        return v_ivl(n)
    if kind == "adur":
        return v_adur(n)
    raise ValueError(kind)


def scalar_twin(rnd, k):
    """k as an int or as the equal float (k == float(k), same hash)"""
    return v_int(k) if rnd.random() < 0.5 else v_float(float(k))


def _pend(v):
    return v[0] in ("dur", "ivl", "adur", "sdur")


def step_ok(st):
    """the combinations the model covers (the same exclusions as the single-operator streams); refs are resolved only at run time"""
    op, vals = st[0], st[1:]
    if len(vals) == 2:
        l, r = vals
        if op in CMP and "ivl" in (l[0], r[0]):
            return False
    return True


def res_kind(st, kinds):
    """kind of object a step returns when it does not raise: dur | td | int | float | None (tuple, bool, hash: not usable as an operand)"""
    op, vals = st[0], st[1:]
    ks = [kinds[v[1]] if v[0] == "ref" else ("dur" if v[0] in ("dur", "ivl") else v[0]) for v in vals]
    if None in ks or "adur" in ks:
        return None
    if len(ks) == 1:
        return {"neg": "dur", "touch": "dur", "abs": "td", "pos": "td"}.get(op) if ks[0] == "dur" else None
    l, r = ks
    if op in CMP or op == "divmod":
        return None
    if l == "dur":
        if op in ("add", "sub", "mod"):
            return "dur" if r in ("dur", "td") else None
        if op == "mul":
            return "dur" if r in ("int", "float") else None
        if op == "floordiv":
            return "dur" if r == "int" else "int" if r in ("dur", "td") else None
        if op == "truediv":
            return "dur" if r in ("int", "float") else "float" if r in ("dur", "td") else None
    if l == "td" and r == "dur":
        return {"add": "dur", "sub": "td", "floordiv": "int", "truediv": "float", "mod": "td"}.get(op)
    if l in ("int", "float") and r == "dur" and op == "mul":
        return "dur"
    return None


def history_cases(rnd, scale, out):
    HB = B31 // 64           # literal operands of histories stay far below the float band (only a chain of products can climb into it)

    def seq(stream, steps, share=0):
        steps = [st for st in steps if st is not None and step_ok(st)]
        if len(steps) >= 2:
            out.append({"stream": stream, "fn": "seq", "args": [int(share), steps]})

    def length(rnd):
        r = rnd.random()
        if r < 0.35:
            return rnd.choice([1, -1]) * rnd.choice(ROUND_UNITS) * rnd.choice([1, 1, 1, 2, 3])
        if r < 0.7:
            return rnd.choice([1, -1]) * rnd.randrange(1, 10 ** rnd.randrange(1, 14))
        return rand_n(rnd, hi=HB) or 1

    # A. the divisor (right operand of // / % divmod) taken from the twins of ONE length, in random order: whatever an earlier division
    #    learnt about an equal-but-different object must not leak into a later one
    #    fixed part: the alias pairs Duration(years=1, days=1) == timedelta(days=366), Duration(months=2, days=1, hours=12) == 61.5 days,
    #    AbsoluteDuration(hours=-1) == timedelta(hours=-1): the distinguishable object first, then the plain one (and the other way round)
    x0 = v_dur(1000 * DAY_US + 5 * US + 7)
    for op in DIVOPS:
        for alias, n in ((v_dur(DAY_US, years=1), 366 * DAY_US), (v_dur(DAY_US + 12 * 3600 * US, months=2), 61 * DAY_US + 12 * 3600 * US),
                         (v_adur(-3600 * US), -3600 * US)):
            for plain in (v_td(n), v_dur(n)):
                seq("history-twin-divisor", [[op, x0, alias], [op, x0, plain]])
                seq("history-twin-divisor", [[op, x0, plain], [op, v_ivl(-731 * DAY_US), alias], [rnd.choice(DIVOPS), x0, plain]])
    for _ in range(400 * scale):
        n = length(rnd)
        ks = [rnd.choice(["td", "dur", "durx", "ym", "ym", "adur"]) for _ in range(rnd.randint(2, 4))]
        if len(set(ks)) == 1:
            ks[-1] = "td" if ks[0] != "td" else "ym"
        same_left = rand_tdlike(rnd, rand_n(rnd, hi=HB), kinds=PEND) if rnd.random() < 0.4 else None
        same_op = rnd.choice(DIVOPS) if rnd.random() < 0.5 else None
        seq("history-twin-divisor", [[same_op or rnd.choice(DIVOPS), same_left or rand_tdlike(rnd, rand_n(rnd, hi=HB), kinds=PEND),
                                      twin(rnd, n if k != "adur" else -abs(n), k)] for k in ks], share=rnd.random() < 0.3)
    # B. both operands from twin pools (left: a length, right: a length or a scalar), any operator, operators repeated
    for _ in range(400 * scale):
        n1, n2, k = length(rnd), length(rnd), rnd.choice([1, -1]) * rnd.choice([1, 2, 3, 4, 7, 10, 60, 1000])
        ops = [rnd.choice(ARITH + CMP + ("neg", "abs", "pos", "hash", "bool", "touch")) for _ in range(2)]
        steps = []
        for _ in range(rnd.randint(2, 5)):
            op = rnd.choice(ops) if rnd.random() < 0.7 else rnd.choice(ARITH)
            l = twin(rnd, n1, rnd.choice(["dur", "durx", "ym", "ivl", "td", "adur"]))
            if op in HIST_UNOPS:
                steps.append([op, l if l[0] in ("dur", "adur") else twin(rnd, n1, "ym")])
                continue
            if rnd.random() < 0.35 and op in ("mul", "floordiv", "truediv"):
                r = scalar_twin(rnd, k)
            else:
                r = twin(rnd, n2, rnd.choice(["dur", "durx", "ym", "td", "adur"]))
            if not (_pend(l) or _pend(r)):
                r = twin(rnd, n2, "dur")
            if rnd.random() < 0.25 and _pend(r):
                l, r = r, l            # the twin pool on the other side (timedelta / number on the left)
            steps.append([op, l, r])
        seq("history-twin-operands", steps, share=rnd.random() < 0.3)
    # C. chains: the object an operator returned is the operand of the next one (a result must be a full-blown Duration: its private
    #    fields, not only its native length, feed the next operator)
    for _ in range(400 * scale):
        d0 = v_dur(rand_n(rnd, hi=HB), rnd=rnd) if rnd.random() < 0.8 else v_ivl(rand_n(rnd, hi=HB))
        first = rnd.choice([
            ["add", d0, rand_tdlike(rnd, rand_n(rnd, hi=HB), kinds=("dur", "td"))], ["sub", d0, rand_tdlike(rnd, rand_n(rnd, hi=HB), kinds=("dur", "td"))],
            ["mul", d0, scalar_twin(rnd, rnd.randint(-5, 5))], ["mul", d0, v_float(rnd.choice([0.5, 1.5, -2.5, 0.1, 1 / 3]))],
            ["floordiv", d0, v_int(rnd.choice([1, -1]) * rnd.randint(1, 1000))], ["truediv", d0, scalar_twin(rnd, rnd.choice([2, 3, -7, 10, 1000]))],
            ["mod", d0, rand_tdlike(rnd, length(rnd), kinds=("dur", "td"))], ["neg", d0] if d0[0] == "dur" else ["mod", d0, v_td(length(rnd))],
            ["add", v_td(rand_n(rnd, hi=HB)), d0], ["mul", v_int(rnd.randint(-5, 5)), d0],
            ["floordiv", d0, rand_tdlike(rnd, length(rnd), kinds=("dur", "td"))], ["truediv", d0, rand_tdlike(rnd, length(rnd), kinds=("dur", "td"))],
            ["sub", v_td(rand_n(rnd, hi=HB)), d0],
        ])
        steps, kinds = [first], [res_kind(first, [])]
        for _ in range(rnd.randint(1, 4)):
            usable = [i for i, k in enumerate(kinds) if k is not None]
            if not usable:
                break
            j = usable[-1] if rnd.random() < 0.7 else rnd.choice(usable)
            k = kinds[j]
            lit = lambda: rand_tdlike(rnd, length(rnd), kinds=("dur", "dur", "td"))      # noqa: E731
            if k == "dur":
                st = rnd.choice([
                    [rnd.choice(DIVOPS), v_ref(j), lit()], [rnd.choice(DIVOPS), v_ref(j), lit()], [rnd.choice(("add", "sub")), v_ref(j), lit()],
                    ["mul", v_ref(j), scalar_twin(rnd, rnd.randint(-4, 4))], [rnd.choice(("floordiv", "truediv")), v_ref(j), v_int(rnd.choice([1, -1]) * rnd.randint(1, 99))],
                    ["truediv", v_ref(j), v_float(rnd.choice([2.0, 0.5, -1.5, 10.0, 0.3]))], [rnd.choice(("neg", "touch", "abs", "pos", "hash", "bool")), v_ref(j)],
                    [rnd.choice(DIVOPS), lit() if rnd.random() < 0.5 else d0, v_ref(j)], [rnd.choice(CMP), v_ref(j), lit()],
                    [rnd.choice(ARITH), v_td(length(rnd)), v_ref(j)], [rnd.choice(DIVOPS + ("add", "sub")), v_ref(j), v_ref(rnd.choice(usable))],
                    [rnd.choice(CMP), v_ref(j), v_ref(rnd.choice(usable))],
                ])
            elif k == "td":
                st = rnd.choice([[rnd.choice(DIVOPS + ("add", "sub")), d0, v_ref(j)], [rnd.choice(DIVOPS + ("add", "sub")), v_ref(j), v_dur(length(rnd), rnd=rnd)],
                                 [rnd.choice(CMP), v_dur(length(rnd)), v_ref(j)]])
            else:          # a number: a quotient fed back as a factor / divisor
                st = rnd.choice([["mul", d0, v_ref(j)], ["mul", v_ref(j), v_dur(length(rnd), rnd=rnd)], [rnd.choice(("floordiv", "truediv")), d0, v_ref(j)],
                                 ["mul", v_dur(rnd.randrange(1, 10 ** 9)), v_ref(j)]])
            if not step_ok(st):
                continue
            steps.append(st)
            kinds.append(res_kind(st, kinds))
        seq("history-chain", steps, share=rnd.random() < 0.5)
    # D. a call that RAISED comes first (zero divisor, wrong operand type, result / operand out of range): it leaves nothing behind
    for _ in range(150 * scale):
        n = length(rnd)
        x = rand_tdlike(rnd, rand_n(rnd, hi=HB), kinds=PEND)
        bad = rnd.choice([
            [rnd.choice(DIVOPS), x, rnd.choice([v_td(0), v_dur(0), v_dur(0, years=1, months=0, rnd=None), v_dur(-365 * DAY_US, years=1)])],
            [rnd.choice(("floordiv", "truediv")), x, rnd.choice([v_int(0), v_float(0.0)])],
            [rnd.choice(("add", "sub", "mod", "divmod")), x, scalar_twin(rnd, rnd.randint(1, 9))],
            ["mul", x, rnd.choice([v_int(10 ** 30), v_float(1e300), v_float(math.nan), twin(rnd, n, "td")])],
            [rnd.choice(ARITH), x, v_td(2 * TD_MAX * DAY_US)],
            [rnd.choice(DIVOPS), twin(rnd, n, "td"), v_dur(0)],
        ])
        steps = [bad]
        for _ in range(rnd.randint(1, 3)):
            op = bad[0] if rnd.random() < 0.6 else rnd.choice(ARITH)
            l = bad[1] if rnd.random() < 0.6 else rand_tdlike(rnd, rand_n(rnd, hi=HB), kinds=PEND)
            if op in DIVOPS or op in ("add", "sub"):
                r = twin(rnd, n, rnd.choice(["td", "dur", "durx", "ym"]))
            else:
                r = scalar_twin(rnd, rnd.randint(1, 9))
            steps.append([op, l, r])
            if rnd.random() < 0.3:
                steps.append(bad)
        seq("history-after-raise", steps, share=rnd.random() < 0.5)
    # the year-bearing region of finding float-total-resolution (mul_int_with_years_refuted): native length 0.92 s, year-free part 5e7 s
    out.append({"stream": "band-mul-int-years", "fn": "binop", "args": ["mul", v_dur(50112000924991, years=-2, months=5), v_int(-1000)]})
    out.append({"stream": "band-mul-int-years", "fn": "binop", "args": ["mul", v_int(1000), v_dur(-315360000000000 + 7, years=10)]})
    # F. the divisor conversion itself on the twins of one length, one after the other in one process (correspondence with divisor_us)
    for _ in range(300 * scale):
        n = length(rnd)
        out.append({"stream": "prim-timedelta_to_microseconds-history", "fn": "tdus", "backends": ["py"],
                    "args": [twin(rnd, n, rnd.choice(["td", "dur", "durx", "ym", "ivl"])) for _ in range(rnd.randint(2, 4))]})
    # E. the same objects again: the operation repeated, the accessors of both operands read in between (share = 1: one object per literal)
    for _ in range(150 * scale):
        x = v_dur(rand_n(rnd, hi=HB), rnd=rnd) if rnd.random() < 0.7 else twin(rnd, length(rnd), "ym")
        y = twin(rnd, length(rnd), rnd.choice(["dur", "durx", "td", "ym"])) if rnd.random() < 0.7 else scalar_twin(rnd, rnd.choice([2, 3, -4, 10]))
        op = rnd.choice(DIVOPS + ("add", "sub")) if tdlike(y) else rnd.choice(("mul", "floordiv", "truediv"))
        steps = [[op, x, y] if rnd.random() < 0.6 else ["touch", x], ["touch", x]]
        if y[0] == "dur":
            steps.append(["touch", y])
        steps.append([op, x, y])
        if rnd.random() < 0.5:
            steps.append([rnd.choice(("neg", "hash", "abs", "bool")), x])
            steps.append([op if rnd.random() < 0.5 else rnd.choice(ARITH), x, y])
        seq("history-same-objects", steps, share=1)



def search_cases(seed):
    return cases("thorough", seed + 1)


def nontrivial(c):
    def nz(x):
        return any(nz(y) for y in x) if isinstance(x, list) else (isinstance(x, int) and x != 0)
    return nz(c["args"])


# ----------------------------------------------------------------------------- implementation side
def _exn(e):
    n = type(e).__name__
    return [1, n if n in EXN.values() else "Exception:" + n]


def _triple(t):
    from datetime import timedelta
    return [timedelta.days.__get__(t), timedelta.seconds.__get__(t), timedelta.microseconds.__get__(t)]


def _obs(D):
    return _triple(D) + fcode(D._total) + [D._years, D._months, D._weeks, D._days, D._remaining_days, D._seconds, D._microseconds]


def _canon(r, Duration):
    from datetime import timedelta
    t = type(r)
    if t is Duration:
        return [0, 1] + _obs(r)
    if t is int:
        return [0, 2, r]
    if t is float:
        return [0, 3] + fcode(r)
    if t is tuple and len(r) == 2 and type(r[0]) is int and type(r[1]) is Duration:
        return [0, 4, r[0]] + _obs(r[1])
    if t is timedelta:
        return [0, 5] + _triple(r)
    if t is tuple and len(r) == 2 and type(r[0]) is int and type(r[1]) is timedelta:
        return [0, 6, r[0]] + _triple(r[1])
    if t is bool:
        return [0, 7, int(r)]
    # results of the subclasses (self.__class__(...) inside an operator of an AbsoluteDuration; -i / abs(i) of an Interval)
    if t.__name__ == "Skewed" and isinstance(r, Duration):
        return [0, 13] + _obs(r)
    if t is tuple and len(r) == 2 and type(r[0]) is int and type(r[1]).__name__ == "Skewed" and isinstance(r[1], Duration):
        return [0, 16, r[0]] + _obs(r[1])
    if t.__name__ == "AbsoluteDuration" and isinstance(r, Duration):
        return [0, 11] + _obs(r)
    if t.__name__ == "Interval" and isinstance(r, Duration):
        return [0, 12] + _obs(r) + [int(bool(r._absolute))]
    if t is tuple and len(r) == 2 and type(r[0]) is int and type(r[1]).__name__ == "AbsoluteDuration" and isinstance(r[1], Duration):
        return [0, 14, r[0]] + _obs(r[1])
    return [0, "type:" + t.__name__]


def impl_run(cases):
    import operator
    from datetime import datetime, timedelta
    from pendulum.duration import Duration, _divide_and_round
    from pendulum.interval import Interval
    ops = {"add": operator.add, "sub": operator.sub, "mul": operator.mul, "floordiv": operator.floordiv, "truediv": operator.truediv, "mod": operator.mod,
           "divmod": divmod, "eq": operator.eq, "ne": operator.ne, "lt": operator.lt, "le": operator.le, "gt": operator.gt, "ge": operator.ge,
           "neg": operator.neg, "abs": abs, "pos": operator.pos, "bool": bool}
    base = datetime(4000, 1, 1)
    from pendulum.duration import AbsoluteDuration
    ACCESSORS = ("years", "months", "weeks", "days", "remaining_days", "hours", "minutes", "seconds", "remaining_seconds", "microseconds", "invert")
    METHODS = ("total_seconds", "total_minutes", "total_hours", "total_days", "total_weeks", "in_weeks", "in_days", "in_hours", "in_minutes", "in_seconds",
               "as_timedelta", "__repr__", "__hash__", "__bool__")
    BAD = object()

    class Skewed(Duration):
        """a user subclass that overrides every PUBLIC accessor with something else than the private field (the way Interval overrides
        weeks / remaining_days / years / months / hours / minutes with the calendar residual); nothing private, no method, no operator"""
        years = property(lambda self: self._years + 1)
        months = property(lambda self: self._months - 2)
        weeks = property(lambda self: 0)
        days = property(lambda self: self._remaining_days)
        remaining_days = property(lambda self: (abs(self._days) + 3) % 7)
        hours = property(lambda self: 0)
        minutes = property(lambda self: 59)
        seconds = property(lambda self: abs(self._seconds) % 60)
        remaining_seconds = property(lambda self: self._seconds)
        microseconds = property(lambda self: 999999 - abs(self._microseconds))
        invert = property(lambda self: not (self.total_seconds() < 0))

    def run_seq(share, steps):
        """the steps of one history, in order, in this process; returns the canonical result of every step"""
        objs, outs, memo = [], [], {}

        def get(v):
            if v[0] == "ref":
                j = v[1]
                if not (isinstance(j, int) and 0 <= j < len(objs)) or objs[j] is BAD:
                    raise Exception("the step referred to did not return a Duration / timedelta / int / float")
                return objs[j]
            if v[0] == "adur":
                return AbsoluteDuration(microseconds=v[1])
            if share:
                key = repr(v)
                if key not in memo:
                    memo[key] = build(v)
                return memo[key]
            return build(v)
        for st in steps:
            try:
                op = st[0]
                xs = [get(v) for v in st[1:]]
                if not any(isinstance(x, Duration) for x in xs):
                    res, canon = BAD, [0, 15]                    # no pendulum object involved: not an operation of this library
                elif op == "touch":
                    x = xs[0]
                    for nm in ACCESSORS:
                        getattr(x, nm)
                    for nm in METHODS:
                        getattr(x, nm)()
                    res = x
                    canon = _canon(x, Duration)
                elif op == "hash":
                    t = _triple(xs[0])
                    res, canon = BAD, ([0, 8] + t if hash(xs[0]) == hash(timedelta(*t)) else [0, 8, "hash differs from timedelta's"])
                else:
                    res = ops[op](*xs)
                    canon = _canon(res, Duration)
                outs.append(canon)
                objs.append(res if type(res) in (Duration, int, float, timedelta) else BAD)
            except Exception as e:  # noqa
                outs.append(_exn(e))
                objs.append(BAD)
        return outs

    def build(v):
        k = v[0]
        if k == "int":
            return v[1]
        if k == "float":
            return fdecode(v[1:])
        if k == "dur":
            d, s, us, ms, mi, h, w, y, mo = v[1:]
            return Duration(days=d, seconds=s, microseconds=us, milliseconds=ms, minutes=mi, hours=h, weeks=w, years=y, months=mo)
        if k == "td":
            return timedelta(microseconds=v[1])
        if k == "ivl":
            if len(v) > 2 and v[2]:
                return Interval(base, base + timedelta(microseconds=v[1]), absolute=True)
            return Interval(base, base + timedelta(microseconds=v[1]))
        if k == "adur":
            return AbsoluteDuration(microseconds=v[1])
        if k == "sdur":
            d, s, us, ms, mi, h, w, y, mo = v[1:]
            return Skewed(days=d, seconds=s, microseconds=us, milliseconds=ms, minutes=mi, hours=h, weeks=w, years=y, months=mo)
        raise ValueError(k)
    out = []
    for c in cases:
        fn, a = c["fn"], c["args"]
        try:
            if fn == "binop":
                l, r = build(a[1]), build(a[2])
                out.append(_canon(ops[a[0]](l, r), Duration))
            elif fn == "seq":
                out.append([0, run_seq(a[0], a[1])])
            elif fn == "tdus":
                import sys as _sys
                _dm = _sys.modules["pendulum.duration"]          # (the package attribute `pendulum.duration` is the factory function)
                res = []
                for v in a:
                    try:
                        res.append([0, _dm._timedelta_to_microseconds(build(v))])
                    except Exception as e:  # noqa
                        res.append(_exn(e))
                out.append([0, res])
            elif fn == "unop":
                v = build(a[1])
                if a[0] == "hash":
                    t = _triple(v)
                    out.append([0, 8] + t if hash(v) == hash(timedelta(*t)) else [0, 8, "hash differs from timedelta's"])
                else:
                    out.append(_canon(ops[a[0]](v), Duration))
            elif fn == "dar":
                out.append([0, _divide_and_round(a[0], a[1])])
            elif fn == "tous":
                d, s, us, ms, mi, h, w, y, mo = a
                out.append([0, Duration(days=d, seconds=s, microseconds=us, milliseconds=ms, minutes=mi, hours=h, weeks=w, years=y, months=mo)._to_microseconds()])
            elif fn == "ratio":
                p, q = fdecode(a).as_integer_ratio()
                out.append([0, p, q])
            elif fn == "itd":
                out.append([0] + fcode(a[0] / a[1]))
            elif fn == "darf":
                out.append([0, _divide_and_round(a[0], fdecode(a[1:]))])
            elif fn == "fsec":
                out.append([0] + _obs(Duration(seconds=fdecode(a[:3]), years=a[3], months=a[4])))
            else:
                out.append([9])
        except Exception as e:  # noqa
            out.append(_exn(e))
    return out


# ----------------------------------------------------------------------------- model side
def model_calls(c, backend):
    fn, a = c["fn"], c["args"]
    if fn == "binop":
        if "adur" in (a[1][0], a[2][0]):
            return None          # AbsoluteDuration operands: judged by the oracle, not modelled
        return [("binop", [BINOPS[a[0]]] + enc(a[1]) + enc(a[2]))]
    if fn == "unop":
        if a[1][0] == "ivl":
            return [("ivl_unop", [UNOPS[a[0]], a[1][1], int(ivl_abs(a[1]))])]
        return [("unop", [UNOPS[a[0]]] + enc(a[1]))]
    if fn == "seq":
        flat = []
        for st in a[1]:
            if len(st) == 3:
                flat += [1, BINOPS[st[0]]] + enc(st[1]) + enc(st[2])
            else:
                flat += [2, HIST_UNOPS[st[0]]] + enc(st[1]) + [0] * 10
        return [("history", flat)]
    if fn == "tdus":
        return [("divisor_us", enc(v)) for v in a]
    name = {"dar": "divide_and_round", "tous": "to_microseconds", "ratio": "as_integer_ratio", "itd": "int_truediv", "darf": "divide_and_round_float",
            "fsec": "dur_fsec"}.get(fn)
    return [(name, list(a))] if name else None


def _exn_name(code):
    return EXN.get(code, "code%d" % code)


def model_result(c, backend, outs):
    if c["fn"] == "seq":
        o, items, i = outs[0], [], 0
        if o == [9]:
            return [9]
        while i < len(o):
            n = o[i]
            it = list(o[i + 1:i + 1 + n])
            items.append([1, _exn_name(it[1])] if it[0] == 1 else it)
            i += 1 + n
        return [0, items]
    if c["fn"] == "tdus":
        return [0, [[1, _exn_name(o[1])] if o[0] == 1 else list(o) for o in outs]]
    o = outs[0]
    if o[0] == 1:
        return [1, EXN.get(o[1], "code%d" % o[1])]
    return list(o)


def _desub_val(v):
    return ["dur"] + list(v[1:]) if isinstance(v, list) and v and v[0] == "sdur" else v


def _desub_res(r):
    """a result of the user subclass is a Duration (13 -> 1), a (quotient, remainder of the subclass) a (int, Duration) (16 -> 4)"""
    if isinstance(r, list) and len(r) > 1 and r[0] == 0 and r[1] in (13, 16):
        return [0, 1 if r[1] == 13 else 4] + list(r[2:])
    return r


def _desub(c, r):
    """the case and its implementation result with every instance of the user subclass read as the Duration it is: an operand's class is no input
    of any operator (the model has no such input) and the statement asks for `a Duration`, which an instance of a subclass is"""
    fn, a = c["fn"], c["args"]
    if fn in ("binop", "unop"):
        return dict(c, args=[a[0]] + [_desub_val(v) for v in a[1:]]), _desub_res(r)
    if fn == "seq":
        c2 = dict(c, args=[a[0], [[st[0]] + [_desub_val(v) for v in st[1:]] for st in a[1]]])
        if isinstance(r, list) and len(r) == 2 and r[0] == 0 and isinstance(r[1], list):
            r = [0, [_desub_res(x) for x in r[1]]]
        return c2, r
    if fn == "tdus":
        return dict(c, args=[_desub_val(v) for v in a]), r
    return c, r


def same(c, m, r):
    c, r = _desub(c, r)
    if c["fn"] == "seq" and m[0] == 0 and r[0] == 0 and len(m[1]) == len(r[1]):
        # steps with an AbsoluteDuration operand are executed (they belong to the history) but not modelled
        return all(x == y for st, x, y in zip(c["args"][1], m[1], r[1]) if not any(v[0] == "adur" for v in st[1:]))
    return m == r


# ----------------------------------------------------------------------------- the property itself (stdlib only)
def _us(t):
    return (t.days * 86400 + t.seconds) * US + t.microseconds


def _native(v):
    """The native counterpart of an operand: int / float / datetime.timedelta of the same length."""
    from datetime import timedelta
    k = v[0]
    if k == "int":
        return v[1]
    if k == "float":
        return fdecode(v[1:])
    if k == "dur":
        return timedelta(microseconds=dur_native(v[1:]))
    if k == "td":
        return timedelta(microseconds=v[1])
    if k == "adur":
        return timedelta(microseconds=v[1])          # the native length of AbsoluteDuration(microseconds=N) is N, sign included
    # an Interval's own length: Duration.__new__(seconds=delta.total_seconds()), end points swapped when absolute and start > end
    return timedelta(seconds=timedelta(microseconds=ivl_eff(v)).total_seconds())


def _expected(fn, op, vals):
    import operator
    ops = {"add": operator.add, "sub": operator.sub, "mul": operator.mul, "floordiv": operator.floordiv, "truediv": operator.truediv, "mod": operator.mod,
           "divmod": divmod, "eq": operator.eq, "ne": operator.ne, "lt": operator.lt, "le": operator.le, "gt": operator.gt, "ge": operator.ge,
           "neg": operator.neg, "abs": abs, "pos": operator.pos, "bool": bool, "hash": lambda t: t}
    try:
        return ("ok", ops[op](*vals))
    except Exception as e:  # noqa
        return ("raise", type(e).__name__)


def _value_of(r):
    """(kind, comparable value) of an implementation result"""
    k = r[1]
    if k in (1, 11, 12):
        return k, (r[2] * 86400 + r[3]) * US + r[4]
    if k == 14:
        return k, (r[2], (r[3] * 86400 + r[4]) * US + r[5])
    if k == 2:
        return k, r[2]
    if k == 3:
        return k, tuple(r[2:5])
    if k == 4:
        return k, (r[2], (r[3] * 86400 + r[4]) * US + r[5])
    if k == 5:
        return k, (r[2] * 86400 + r[3]) * US + r[4]
    if k == 6:
        return k, (r[2], (r[3] * 86400 + r[4]) * US + r[5])
    if k == 7:
        return k, bool(r[2])
    if k == 8:
        return k, (r[2] * 86400 + r[3]) * US + r[4] if isinstance(r[2], int) else r[2]
    return k, None


DUR_KINDS = (1, 11, 12)        # Duration, AbsoluteDuration, Interval: each is a Duration
INHERITED_REFLECTED = ("sub", "floordiv", "truediv", "mod", "divmod")


def _adur_judged(fn, op, vals):
    """AbsoluteDuration(microseconds=N) is inside the statement while it is consistent with itself (N >= 0: native length = total_seconds());
    for N < 0 (native length N, total_seconds() |N|: what Time.diff builds) only where no method of pendulum runs at all:
    timedelta <op> it for the reflected operators inherited from timedelta, which are plain arithmetic on the native lengths"""
    if all(v[0] != "adur" or v[1] >= 0 for v in vals):
        return True
    return fn == "binop" and vals[0][0] == "td" and op in INHERITED_REFLECTED


def _compare(c, r):
    """None when the implementation result r agrees with the same operation on the native values; else (why, deviation or None)."""
    from datetime import timedelta
    fn, a = c["fn"], c["args"]
    op, vals = a[0], a[1:]
    if not _adur_judged(fn, op, vals):
        return None
    try:
        natives = [_native(v) for v in vals]
    except OverflowError:
        return None if r[0] == 1 and r[1] == "OverflowError" else ("an operand is outside the timedelta range but no OverflowError", None)
    if r[0] == 1 and any(v[0] in ("dur", "td", "ivl") and abs(_us(n)) > TD_MAX * DAY_US + DAY_US for v, n in zip(vals, natives)):
        return None
    st, exp = _expected(fn, op, natives)
    shown = f"{op}({', '.join(map(repr, natives))})"
    ym_unclaimed = (any(has_ym(v) for v in vals) and fn == "binop" and op in ARITH and not (op == "mul" and "int" in (vals[0][0], vals[1][0])))
    if ym_unclaimed and "ZeroDivisionError" in (r[1] if r[0] == 1 else None, exp if st == "raise" else None):
        return None        # years / months: the divisor Duration sees (_to_microseconds() leaves them out) is not the native length, so neither is its zero
    if r[0] == 1:
        if st == "raise" and exp == r[1]:
            return None
        return (f"raised {r[1]} where the native {shown} " + (f"raises {exp}" if st == "raise" else f"= {exp!r}"), None)
    if st == "raise":
        return (f"returned a value where the native {shown} raises {exp}", None)
    if not isinstance(r[1], int):
        return (f"result has unexpected {r[1]}", None)
    kind, val = _value_of(r)
    # --- the value
    ym = any(has_ym(v) for v in vals)
    check_value = True
    if ym and fn == "binop" and op in ARITH and not (op == "mul" and "int" in (vals[0][0], vals[1][0])):
        check_value = kind in (5, 6)       # years/months: only neg, int scaling, comparisons, hash (and what timedelta itself computes) are claimed
    if check_value:
        if isinstance(exp, timedelta):
            if kind not in DUR_KINDS + (5, 8):
                return (f"result kind {kind} where the native result is a timedelta", None)
            if val != _us(exp):
                return (f"length {val} us, native {shown} = {_us(exp)} us (diff {val - _us(exp)})", val - _us(exp))
        elif isinstance(exp, bool):
            if kind != 7 or val != exp:
                return (f"{r[1:]} where native {shown} = {exp}", None)
        elif isinstance(exp, int):
            if kind != 2 or val != exp:
                return (f"{r[1:]} where native {shown} = {exp}", (val - exp) if kind == 2 else None)
        elif isinstance(exp, float):
            if kind != 3 or list(val) != fcode(exp):
                return (f"float {fdecode(val) if kind == 3 else r[1:]!r} where native {shown} = {exp!r}", 0 if kind == 3 else None)
        elif isinstance(exp, tuple):
            if kind not in (4, 6, 14) or val != (exp[0], _us(exp[1])):
                return (f"divmod {val} where native {shown} = ({exp[0]}, {_us(exp[1])} us)", 0 if kind in (4, 6, 14) else None)
    # --- component-wise action on years / months
    if fn == "unop" and op == "neg" and vals[0][0] == "dur":
        y, mo = vals[0][8], vals[0][9]
        if kind != 1 or r[8:10] != [-y, -mo]:
            return (f"-Duration(years={y}, months={mo}) has years/months {r[8:10]}", None)
    if fn == "binop" and op == "mul" and kind == 1:
        d = vals[0] if vals[0][0] == "dur" else vals[1] if vals[1][0] == "dur" else None
        k = vals[1] if vals[0][0] in ("dur", "ivl") else vals[0]
        if d is not None and k[0] == "int" and r[8:10] != [d[8] * k[1], d[9] * k[1]]:
            return (f"years/months {r[8:10]} after scaling (years={d[8]}, months={d[9]}) by {k[1]}", None)
    # --- the return type table
    if fn == "binop" and op in ARITH:
        want = None
        if vals[0][0] in ("dur", "ivl", "adur"):
            want = 1 if isinstance(exp, timedelta) else 2 if isinstance(exp, int) else 3 if isinstance(exp, float) else 4
        elif vals[0][0] == "td" and op == "add":
            want = 1
        elif op == "mul":
            want = 1           # int * Duration, float * Duration (__rmul__ = __mul__)
        if want is not None and kind not in ({1: DUR_KINDS, 4: (4, 14)}.get(want, (want,))):
            return (f"result kind {kind} (1 Duration 2 int 3 float 4 (int, Duration) 5 timedelta 11 AbsoluteDuration 12 Interval 14 (int, AbsoluteDuration)), "
                    f"the statement requires {want}", None)
    if fn == "unop" and op == "neg" and kind not in DUR_KINDS:
        return ("negation does not return a Duration", None)
    return None


# ----------------------------------------------------------------------------- histories: every step against the native operator on its own operands
def _pseudo(r):
    """The operand that an earlier step's RESULT r (as observed) stands for; None when it is not usable as an operand."""
    if not r or r[0] != 0 or len(r) < 2 or not isinstance(r[1], int):
        return None
    k = r[1]
    if k == 1:
        y, mo = r[8], r[9]
        return ["dur", 0, 0, (r[2] * 86400 + r[3]) * US + r[4] - (365 * y + 30 * mo) * DAY_US, 0, 0, 0, 0, y, mo]
    if k == 2:
        return ["int", r[2]]
    if k == 3:
        return ["float"] + list(r[2:5])
    if k == 5:
        return ["td", (r[2] * 86400 + r[3]) * US + r[4]]
    return None


def _seq_failures(c, r):
    """[(step index, why, deviation, the step as a single-operator case, its result)] for the steps of a history that violate the property.
    A step is judged on the operands it actually received (a ["ref", i] operand is the object step i returned, as observed), so a wrong
    step is reported where it happens and a later step only if it is wrong on its own."""
    if r[0] != 0 or not isinstance(r[1], list) or len(r[1]) != len(c["args"][1]):
        return [(None, f"the history did not run: {r}", None, None, None)]
    steps, res = c["args"][1], r[1]
    fails = []
    for i, (st, ri) in enumerate(zip(steps, res)):
        op, vals, judged = st[0], [], True
        for v in st[1:]:
            if v[0] == "ref":
                v = _pseudo(res[v[1]]) if 0 <= v[1] < i else None
            if v is None or v[0] == "adur":
                judged = False          # AbsoluteDuration operands are outside the statement; a dangling ref is the harness's own Exception
                break
            vals.append(v)
        if not judged or not step_ok([op] + vals) or not any(v[0] in ("dur", "ivl") for v in vals):
            continue
        if op == "touch":
            v = vals[0]
            want = [_us(_native(v)), v[8], v[9]]
            got = [_value_of(ri)[1], ri[8], ri[9]] if ri[0] == 0 and ri[1] == 1 else ri
            w = None if got == want else (f"reading the accessors of the object changed it: (native us, years, months) {want} -> {got}", None)
        else:
            w = _compare({"fn": "binop" if len(vals) == 2 else "unop", "args": [op] + vals}, ri)
        if w is not None:
            fails.append((i, w[0], w[1], {"fn": "binop" if len(vals) == 2 else "unop", "args": [op] + vals}, ri))
    return fails


def _seq_oracle(c, r):
    fails = _seq_failures(c, r)
    if not fails:
        return None
    i, why, _dev, sub, _ri = fails[0]
    if i is None:
        return why
    return (f"step {i} of a history of {len(c['args'][1])} calls in one process, {sub['args'][0]}{tuple(sub['args'][1:])}: {why}"
            + (f" -- after {i} earlier call(s) in the same process; the same call alone is judged by the single-operator streams" if i else "")
            + (f"; {len(fails)} steps fail" if len(fails) > 1 else ""))


def oracle(c, backend, r):
    c, r = _desub(c, r)
    if c["fn"] == "seq":
        return _seq_oracle(c, r)
    if c["fn"] not in ("binop", "unop"):
        return _prim_oracle(c, r)
    w = _compare(c, r)
    return None if w is None else w[0]


def _prim_oracle(c, r):
    """The translated / hand-written primitives against exact arithmetic (fractions)."""
    from fractions import Fraction
    fn, a = c["fn"], c["args"]
    if fn == "tdus":
        # _timedelta_to_microseconds(x), the divisor of // / % divmod, is the native length of x -- whatever the class of x and whatever its public
        # accessors answer -- for every operand without years / months (with them it is the year-free part: judged by the correspondence only)
        if r[0] != 0 or not isinstance(r[1], list) or len(r[1]) != len(a):
            return f"the conversions did not run: {r}"
        for i, (v, ri) in enumerate(zip(a, r[1])):
            if has_ym(v) or v[0] not in ("dur", "td", "ivl"):
                continue
            want = _us(_native(v))
            if ri != [0, want]:
                return (f"_timedelta_to_microseconds of operand {i} {v} (conversion {i + 1} of {len(a)} in one process) = "
                        f"{ri[1] if ri[0] == 0 else 'raised ' + str(ri[1])}, its native length is {want} us")
        return None
    if fn == "dar":
        p, q = a
        if q == 0:
            return None if r == [1, "ZeroDivisionError"] else "no ZeroDivisionError"
        if r[0] != 0:
            return f"raised {r[1]}"
        want = round(Fraction(p, q))          # Fraction.__round__ rounds half to even
        return None if r[1] == want else f"_divide_and_round({p}, {q}) = {r[1]}, round-half-even of the exact quotient is {want}"
    if fn == "itd":
        p, q = a
        if q == 0:
            return None if r == [1, "ZeroDivisionError"] else "no ZeroDivisionError"
        if r[0] != 0:
            return f"raised {r[1]}"
        want = fcode(float(Fraction(p, q))) if p else fcode(-0.0 if q < 0 else 0.0)
        return None if r[1:] == want else f"{p} / {q} = {fdecode(r[1:])!r}"
    if fn == "ratio":
        x = fdecode(a)
        if r[0] != 0:
            return None if (x != x or abs(x) == math.inf) else f"raised {r[1]}"
        return None if Fraction(r[1], r[2]) == Fraction(x) and r[2] > 0 and math.gcd(r[1], r[2]) == 1 else f"as_integer_ratio({x!r}) = {r[1:]}"
    return None


def known(c, backend, r):
    c, r = _desub(c, r)
    if c["fn"] == "seq":
        # a history is excused only when EVERY failing step, taken as a single-operator case, is the same listed finding
        ks = {known(sub, backend, ri) if sub is not None else None for _i, _w, _d, sub, ri in _seq_failures(c, r)}
        return ks.pop() if len(ks) == 1 else None
    if c["fn"] not in ("binop", "unop"):
        return None
    a = c["args"]
    op, vals = a[0], a[1:]
    # 1. // / % divmod of a Duration (or Interval) by a PLAIN timedelta: AttributeError (`other._to_microseconds()`: only Duration has it).
    #    Repaired (status "fixed" in known_findings/C10.json suppresses nothing): the predicate stays so that a regression is reported
    #    under this id, as a VIOLATION with the failing input.
    if (c["fn"] == "binop" and op in DIVOPS and vals[0][0] in ("dur", "ivl") and vals[1][0] == "td" and r == [1, "AttributeError"]):
        return "div-by-plain-timedelta"
    # 1b. -i of an ABSOLUTE Interval of non-zero length is the Interval itself (Interval.__neg__ hands the swapped end points to a constructor that
    #     swaps them back): the native negation has the opposite sign.  Exactly that: an Interval result, still absolute, of the unchanged length.
    if (c["fn"] == "unop" and op == "neg" and vals[0][0] == "ivl" and ivl_abs(vals[0]) and vals[0][1] != 0
            and r[0] == 0 and r[1] == 12 and r[-1] == 1 and _value_of(r)[1] == _us(_native(vals[0]))):
        return "neg-absolute-interval"
    # 2. float reconstruction: + - int* (and everything through Interval.as_duration / _to_microseconds beyond 2^33 s) lose microseconds once an
    #    operand or the result reaches 2^31 s
    w = _compare(c, r)
    if w is None or w[1] is None or r[0] != 0:
        return None
    try:
        mags = [abs(_us(_native(v))) for v in vals if tdlike(v)]
    except OverflowError:
        return None
    if c["fn"] == "binop" and op == "mul":
        k = [v[1] for v in vals if v[0] == "int"]
        if k:
            mags.append(mags[0] * abs(k[0]))
            for v in vals:
                if has_ym(v):      # the float that is scaled is _total, the YEAR-FREE part: it can be large while the native length is small
                    t = abs(dur_native(list(v[1:8]) + [0, 0]))
                    mags += [t, t * abs(k[0])]
    if c["fn"] == "binop" and op in ("add", "sub"):
        mags.append(abs(mags[0] + mags[1]) if len(mags) == 2 else 0)
        mags.append(abs(mags[0] - mags[1]) if len(mags) >= 2 else 0)
    big = max(mags) if mags else 0
    floaty = (c["fn"] == "binop" and (op in ("add", "sub") or (op == "mul" and any(v[0] == "int" for v in vals)))) or any(v[0] == "ivl" for v in vals)
    if floaty and big >= B31 and abs(w[1]) <= 64:
        return "float-total-resolution"
    if big >= B33 and (abs(w[1]) <= (big >> 49) or op in DIVOPS):        # a few float ulps of the largest length involved
        return "float-total-resolution"
    return None


LEVEL_TEXT = ("Machine-checked Coq theorems about an executable model of Duration's operators assembled from translated integer parts (_divide_and_round, _to_microseconds, "
              "every integer constructor argument, the isinstance return-type table) and hand-modelled SpecFloat parts, equal to the implementation on every run (both backends): "
              "_divide_and_round is round-half-even of the exact quotient for all integers; negation, floor/true division, modulo, divmod (by an int / float, by a Duration and by a "
              "plain timedelta alike: the operand kind is proved irrelevant, at every position of every process history), float scaling agree with exact timedelta arithmetic; + - and int scaling agree below 2^31 s (add_exact / sub_exact / mul_int_exact: the float premises of the *_partial forms are proved through Flocq); return-type table; comparisons and hash are timedelta's.")
DESIGN_REF = "DESIGN.md section 4 C10"
LEVEL_NOTE = ("Process histories: the model run_history is stateless by construction (the state of a process is the list of objects returned so far) and is compared with one "
              "interpreter executing the same calls in order; result_independent_of_history / earlier_call_leaves_no_trace / history_divisor_kind_irrelevant / touch_hands_on_the_object / "
              "chain_mod_then_div_partial are proved about it, and divisor_memo_by_timedelta_eq_refuted shows on a counter-model why a memo keyed by timedelta's == / hash is not transparent "
              "(so single-call streams cannot see it). Not in the model (oracle / execution only): AbsoluteDuration operands, object identity (share=1), what the accessors cache. "
              "The two float premises (exactness of Duration(seconds=<float>) for sums/products below 2^31 s) and C09's float_split premise are explicit hypotheses of the *_partial theorems, "
              "not axioms, and all three are proved (Proofs/FloatRoundTripC10.v, Proofs/FloatRoundTripC09.v; Flocq's binary64 correctness + an error budget of 2^-21 s), so add_exact / sub_exact / "
              "mul_int_exact and the other unconditional forms rest only on the real-number axioms listed under trusted. The remaining defect of the current code is proved as *_refuted witnesses: + - and int * lose a microsecond from 2^31 s. Division by a plain timedelta "
              "(formerly AttributeError, finding div-by-plain-timedelta) is repaired: div_mod_by_timedelta_spec / div_by_timedelta_agrees hold at full strength and a regression is a VIOLATION.")
TECHNIQUE = "translator (py2gallina + per-branch constructor-argument extraction) + Coq proof (lia/nia over floor division, vm_compute witnesses) + differential correspondence + stdlib timedelta/Fraction oracle"


# the float premises float_split_exact_on_D9 (Proofs/FloatRoundTripC09.v) and addsub_float_exact / mul_float_exact (Proofs/FloatRoundTripC10.v) are theorems;
# the statements that carried them are restated without premise
TRUSTED = list(TRUSTED) + [
    "Flocq (installed library) correctness theorems for binary64 operations, bridged to Coq's SpecFloat in coq/Proofs/FloatRoundTripBase.v / FloatRoundTripNear.v (Bplus, Bminus, Bmult, Bdiv, binary_round; relative_error_N_FLT)",
    "standard-library axioms reported by Print Assumptions for the unconditional float theorems only (to_microseconds_constructed, remainder_constructible, chain_mod_then_div, add_exact, sub_exact, mul_int_exact, and the Interval theorems that use the exact round trip of total_seconds() below 2^33 s: interval_native_length, timedelta_minus_absolute_interval_exact(_example), interval_negation_signed, interval_negation_native_refuted / _partial, interval_abs_native_length, interval_stores_native_length, interval_divisor_is_native_length, div_mod_by_interval_spec, interval_divisor_kind_irrelevant): ClassicalDedekindReals.sig_not_dec, "
    "ClassicalDedekindReals.sig_forall_dec, FunctionalExtensionality.functional_extensionality_dep, Classical_Prop.classic (the real-number axioms Flocq and Reals rest on); "
    "every other theorem, the *_partial forms included, is closed under the global context",
]


# the operator methods are translated WHOLE from /repo on every run and the hand model Model/DurationOps.v is PROVED equal to the translation
TRUSTED = list(TRUSTED) + [
    "tools/vlib/pyfloat2gallina.py + tools/vlib/gens/g52_duration_ops_float.py (Python ast -> Gallina, reading rules in the module docstring: one translation of every "
    "operator method per class of `other` with the isinstance tests decided from that class, `value` dispatch on the operand, self.__class__ read as Duration, "
    "CPython's int/float typing and conversion points, evaluation order, every raising operation a bind, NotImplemented = RNotImpl; fails closed outside the fragment) "
    "replace the former trust in the hand ASSEMBLY of Model/DurationOps.v (which branch, which float expression, where ZeroDivisionError / OverflowError arise): "
    "model_is_code_duration_add / sub / mul / floordiv / truediv / mod / divmod / neg, model_is_code_interval_ops, model_is_code_duration_new_fsec, "
    "model_is_code_divide_and_round hold for all operands of class exactly Duration / Interval, closed under the global context",
    "Spec/TdFloatMixed.v: timedelta(days=<int>, seconds=<float>) after CPython's delta_new / accum() (float seconds, integer days, half-even rounding of the left-over into the "
    "total) and Python's integer // % divmod with ZeroDivisionError; the integer days are PROVED to add exactly (mixed_constructor_days_exact), so the constructor is the "
    "already validated td_us_of_float_seconds shifted; validated bit for bit through Duration(seconds=x, years=, months=) by the prim-duration_of_float_seconds stream; "
    "still hand-written CPython primitives: py_as_integer_ratio, py_int_truediv (Model/DurationOps.v, validated by the prim-* streams)",
]
LEVEL_NOTE = LEVEL_NOTE + (" Reflected operators: a plain timedelta on the left of an Interval of every kind (signed, inverted, absolute in either order of the end points) is inside "
                           "the model (decode kind 5 carries the absolute flag: interval_new_abs; reflected_operators_are_native, reflected_operand_class_irrelevant, "
                           "timedelta_minus_absolute_interval_exact, absolute_interval_order_irrelevant, interval_native_length), as are -i / abs(i) of an Interval (dispatch entry ivl_unop; "
                           "interval_negation_signed, interval_negation_native_refuted / _partial = finding neg-absolute-interval, interval_abs_native_length). The end-point swap of "
                           "Interval.__new__ and Interval.__neg__ / __abs__ are HAND-modelled (not translated) and tied by the correspondence streams only. AbsoluteDuration operands of the "
                           "reflected-* / absolute-left-* streams are oracle-only (model_calls returns None).")
LEVEL_NOTE = LEVEL_NOTE + (" Model = code: coq/Gen/DurationOpsFloat.v is translated from duration.py / interval.py on every run (every operator method whole, Duration(seconds=<float>, "
                           "years=, months=), _divide_and_round on ints and on (int, float), _to_microseconds, _timedelta_to_microseconds, Interval.as_duration and the delegating "
                           "operators) and Proofs/DurationOpsFloatFacts.v proves each equal to the hand model's dur_method / unop / durlike_method entry for all operands, so a semantic "
                           "edit of an operator breaks a proof (self-tested by mutation) rather than only a source pin. Inherited from timedelta, hence nothing to translate: __abs__, "
                           "__rsub__ and the other reflected operators, comparisons, hash (g50 fails closed if Duration starts defining them).")
LEVEL_NOTE = LEVEL_NOTE + (" Subclass operands: an Interval (any kind, any span) on the RIGHT of a Duration / Interval is inside the model (dur_method treats VIvl like VDur; "
                           "Proofs/C10Subclass.v: subclass_right_operand_class_irrelevant, interval_stores_native_length, interval_divisor_is_native_length, div_mod_by_interval_spec, "
                           "interval_divisor_kind_irrelevant, month_spanning_divisor_example); the model evaluates `d + i` / `d * i` as Duration's own method although Python asks "
                           "Interval.__radd__ / __rmul__ first (same value: float + commutes and as_duration() round-trips below 2^33 s) -- tied by the subclass-right-* streams. "
                           "The calendar accessors of an Interval (precise_diff) and the overridden properties of the user subclass are NOT modelled: in the model a user-subclass "
                           "instance is the Duration with the same constructor arguments (kind 3; result kinds 13 / 16 are read as 1 / 4 by same() and the oracle, which asks for `a Duration`), "
                           "so that the operators never read a public accessor is established by correspondence + oracle on every run, not by proof.")
