"""C13 — ISO 8601 durations and intervals parse to their exact value (both parser backends)."""
from __future__ import annotations

import random
from fractions import Fraction

ID = "C13"
PROPS = "Props/C13.v"
RULE = ("seeded + enumerated strings: every subset of the six designators Y M D H M S with 1..10-digit components (boundary values 0, 2^32-1, 2^32, "
        "2^32+1, 999999999, 9999999999 mixed in), PnW, a fraction of 1..9 digits (and a few longer) with '.' or ',' on each admissible unit after every "
        "subset of larger units, malformed strings (every out-of-order pair, repeats, weeks mixed with other units, fractional Y/M, a component after a "
        "fraction), degenerate strings (correspondence only), and the three interval forms with UTC/fixed-offset/naive datetimes. Every duration string is "
        "evaluated through pendulum.parse, pendulum.parsing.iso8601.parse_iso8601 and pendulum._pendulum.parse_iso8601 and compared with the Coq models "
        "py_dur / rs_dur / rs_raw; the oracle recomputes the value with fractions.Fraction from the components the string was built from. "
        "A case is non-trivial when it has at least one component (all but the degenerate stream). "
        "Degenerate fractions (deterministic over the shapes, only the integer parts drawn): fraction digit strings of 1..9, 12, 17 and 25 digits that are all zeros, "
        "end in zeros or start with zeros, with '.' and ',', (degenerate-frac-rejected, 2652 strings) on the year and the month designator in every position those "
        "tokens can take and on every non-final component (every ordered pair of D H M S, with integer components in front, a second fraction behind, weeks followed by "
        "anything) - the oracle demands a ValueError from both backends and all three entry points are compared with the models; (degenerate-frac-final, 612 strings) the "
        "same fractions on the last component D H M S W, bare and after all larger units, checked against the exact Fraction value; and the rejected ones through the "
        "interval glue in both duration positions (interval-malformed, +180).")
EXHAUSTIVE = {"quick": False, "thorough": False}
TRUSTED = ["rustc/pyo3: rust/src/parsing.rs parse_duration is modelled by hand in coq/Model/DurParse.v (u32 wrap-around explicit, f64 over Coq SpecFloat); "
           "tied by the rs_raw stream, which compares all eight raw u32 fields of _pendulum.Duration",
           "CPython re: ISO8601_DURATION is modelled by a hand-written deterministic matcher (ASCII input); the pattern text is pinned by coq/Gen/DurRegex.v + "
           "Proofs/C13Facts.v (a change of the pattern breaks the build) and the matcher is tied by correspondence",
           "CPython timedelta.__new__ with float arguments (delta_new/accum) and int/int true division are modelled over SpecFloat in Model/DurParse.v",
           "interval endpoints: DateTime.add/subtract are not re-modelled here (C04); the model states which keyword arguments they receive, the harness checks "
           "endpoint == start.add(**parts) on the implementation and the stdlib oracle recomputes the endpoint"]
ASSUMPTIONS = ["input strings are ASCII (CPython's \\d and int() also accept other Unicode decimal digits, the Rust parser does not) and every number has fewer "
               "than 4300 digits (CPython's int max_str_digits)",
               "interval start/end datetimes are taken in a canonical ISO form (YYYY-MM-DDTHH:MM:SS[.ffffff][Z|+HH:MM]); the datetime parser itself is C07/C17"]
VM_SUBSET = 60

U32 = 1 << 32
UNITS = [("Y", None), ("M", None), ("D", 86400), ("H", 3600), ("m", 60), ("S", 1)]  # 'm' = minutes (rendered as M after T)
UNIT_SECS = {"W": 604800, "D": 86400, "H": 3600, "m": 60, "S": 1}
BOUND = ["0", "1", "9", "10", "59", "60", "999", "4294967295", "4294967296", "4294967297", "999999999", "1000000000", "9999999999", "0000000001", "00"]


# ----------------------------------------------------------------------------- case construction
def render(comp):
    """comp: dict with optional keys W Y M D H m S (digit strings) and 'frac': (unit, sep, digits).  -> text"""
    fr = comp.get("frac")

    def tok(u, letter):
        if u not in comp:
            return ""
        s = comp[u]
        if fr and fr[0] == u:
            s += fr[1] + fr[2]
        return s + letter
    date = tok("W", "W") + tok("Y", "Y") + tok("M", "M") + tok("D", "D")
    time = tok("H", "H") + tok("m", "M") + tok("S", "S")
    return "P" + date + (("T" + time) if (time or comp.get("T")) else "")


def num(rnd, maxlen=10, small=False):
    r = rnd.random()
    if r < 0.12:
        return rnd.choice(BOUND)
    n = rnd.randint(1, 3 if small else maxlen) if r < 0.8 else rnd.randint(1, maxlen)
    return "".join(rnd.choice("0123456789") for _ in range(n))


def dur_case(stream, comp, kind="valid"):
    return {"stream": stream, "fn": "dur", "args": [render(comp), {"kind": kind, "comp": comp}]}


def gen_subsets(rnd, reps):
    out = []
    for mask in range(1, 64):
        for _ in range(reps):
            comp = {}
            for i, (u, _s) in enumerate(UNITS):
                if mask >> i & 1:
                    comp[u] = num(rnd, small=rnd.random() < 0.6)
            out.append(dur_case("subsets", comp))
    # one large component at a time (the timedelta range and the u32 range)
    for u, _s in UNITS:
        for b in BOUND:
            out.append(dur_case("subsets", {u: b}))
    for b in BOUND + [num(rnd) for _ in range(reps * 4)]:
        out.append(dur_case("weeks", {"W": b}))
    return out


def gen_fractions(rnd, reps):
    out = []
    order = ["Y", "M", "D", "H", "m", "S"]
    for unit in ("D", "H", "m", "S", "W"):
        for nd in list(range(1, 10)) + [12, 17]:
            for sep in ".,":
                for _ in range(reps):
                    comp = {}
                    if unit != "W":
                        for u in order[:order.index(unit)]:
                            if rnd.random() < 0.4:
                                comp[u] = num(rnd, 4, small=True)
                    comp[unit] = num(rnd, 6, small=True)
                    r = rnd.random()
                    if r < 0.15:
                        digs = rnd.choice(["5", "25", "75", "125", "5" * nd, "9" * nd, "0" * (nd - 1) + "1", "0" * (nd - 1) + "5", "0" * nd, "1" + "0" * (nd - 1)])
                        digs = (digs + "0" * nd)[:nd] if rnd.random() < 0.5 else digs
                    else:
                        digs = "".join(rnd.choice("0123456789") for _ in range(nd))
                    comp["frac"] = [unit, sep, digs]
                    out.append(dur_case("fractions", comp))
    # all ten one-digit fractions on each unit, bare and after an integer part
    for unit in ("D", "H", "m", "S", "W"):
        for d in "0123456789":
            for ip in ("0", "1", num(rnd, 4)):
                out.append(dur_case("fractions-1digit", {unit: ip, "frac": [unit, ".", d]}))
    return out


def gen_malformed(rnd):
    out = []
    date_u = [("Y", "Y"), ("M", "M"), ("D", "D")]
    time_u = [("H", "H"), ("m", "M"), ("S", "S")]
    for grp, pre in ((date_u, "P"), (time_u, "PT")):
        for i in range(3):
            for j in range(i + 1):
                for a in ("0", "3"):
                    for b in ("0", "4"):
                        # designator grp[i] first, then grp[j] with j <= i: out of order (j<i) or repeated (j==i)
                        text = pre + a + grp[i][1] + b + grp[j][1]
                        out.append({"stream": "malformed", "fn": "dur", "args": [text, {"kind": "order" if j < i else "repeat", "comp": None}]})
    for text in ("P1W2D", "P0W2D", "P2D1W", "P1Y1W", "P1W1Y", "P1WT1H", "P1W1W", "PT1H2D", "P1H", "P1S", "PT1D", "PT1Y", "PT1W", "P1DT2HT3M"):
        out.append({"stream": "malformed", "fn": "dur", "args": [text, {"kind": "mix", "comp": None}]})
    for sep in ".,":
        for nd in (1, 2, 5):
            f = "".join(rnd.choice("0123456789") for _ in range(nd))
            for text in (f"P1{sep}{f}Y", f"P2{sep}{f}M", f"P1Y2{sep}{f}M", f"P3{sep}{f}Y2M", f"P0{sep}{f}YT1H"):
                out.append({"stream": "malformed", "fn": "dur", "args": [text, {"kind": "frac-ym", "comp": None}]})
            for text in (f"P1{sep}{f}DT1H", f"PT1{sep}{f}H3M", f"PT1{sep}{f}M3S", f"PT1{sep}{f}H3S", f"P1{sep}{f}DT1{sep}{f}S", f"P1{sep}{f}DT0S"):
                out.append({"stream": "malformed", "fn": "dur", "args": [text, {"kind": "after-frac", "comp": None}]})
    for text in ("P1", "P1X", "PX", "P-1D", "P+1D", "P 1D", "P1D ", "p1d", "P1d", "PT1h", "1D", "PD", "PTS", "P1.5", "P.5D", "P1..5D", "P1.5.5D", "P1DT1.5", "P1y", "P1m", "P1w", "PT1m", "PT1s", "P1;5D", "P1:5D"):
        out.append({"stream": "malformed", "fn": "dur", "args": [text, {"kind": "junk", "comp": None}]})
    # degenerate strings on which the two backends are only compared with their models (no claim of the property)
    for text in ("P", "PT", "P1DT", "P1WT", "P1.D", "P1,D", "PT1.S", "P1D\n", "PT1S\n", "P1D\n\n", "P\n", "P1W\n"):
        out.append({"stream": "degenerate", "fn": "dur", "args": [text, {"kind": "degenerate", "comp": None}]})
    return out


# the class "degenerate fractions": a fraction whose VALUE is zero (or whose digits start / end with zeros) is still a fraction.
# Deterministic over the digit counts 1..9 (+ three longer ones) x '.'/',' x every designator; only the integer parts are drawn.
ZERO_ND = list(range(1, 10)) + [12, 17, 25]


def _frac_shapes(rnd, nd):
    """fraction digit strings of length nd: all zeros (the degenerate value), trailing zeros, leading zeros, one random"""
    out = ["0" * nd]
    if nd > 1:
        out += [rnd.choice("123456789") + "0" * (nd - 1), "0" * (nd - 1) + rnd.choice("123456789")]
    return out


def _ip(rnd):
    return rnd.choice(["0", "1", "2", "3", "10", "007", "00", "12", str(rnd.randint(0, 9999)), "0" + str(rnd.randint(1, 99))])


def gen_degenerate_fractions(rnd):
    out = []

    def rej(text, kind):
        out.append({"stream": "degenerate-frac-rejected", "fn": "dur", "args": [text, {"kind": kind, "comp": None}]})

    for nd in ZERO_ND:
        for sep in ".,":
            for z in _frac_shapes(rnd, nd):
                f = sep + z
                # (a) a fraction on the year / month designator, alone and in every position a Y or M(month) token can take
                a, b = _ip(rnd), _ip(rnd)
                for text in (f"P{a}{f}Y", f"P{a}{f}M", f"P1{f}Y", f"P2{f}M", f"P{b}Y{a}{f}M", f"P{a}{f}Y{b}M", f"P{a}{f}Y2M3DT4H", f"P{a}{f}YT1H",
                             f"P{b}Y{a}{f}M3D", f"P1Y{a}{f}M3DT4H5M6S", f"P{a}{f}MT{b}S", f"P{a}{f}Y{b}{f}M", f"P{a}{f}M{b}D", f"P{a}{f}YT",
                             f"P{a}{f}Y{b}{sep}5D", f"P{a}{f}MT{b}{sep}5S"):
                    rej(text, "frac-ym")
                # (b) a fraction on a component that is not the last one (every ordered pair of the units D H M S, with and without larger
                #     integer components in front, a second fraction behind, and the week designator followed by anything)
                a, b, c = _ip(rnd), _ip(rnd), _ip(rnd)
                for text in (f"P{a}{f}DT{b}H", f"P{a}{f}DT{b}M", f"P{a}{f}DT{b}S", f"PT{a}{f}H{b}M", f"PT{a}{f}H{b}S", f"PT{a}{f}M{b}S",
                             f"P{a}{f}DT{b}H{c}M", f"PT{a}{f}H{b}M{c}S", f"P{c}Y{a}{f}DT{b}H", f"P{c}M{a}{f}DT{b}S", f"P{c}DT{a}{f}H{b}M",
                             f"P1Y2M3DT{a}{f}H{b}M{c}S", f"P1Y2M3DT4H{a}{f}M{c}S", f"PT{a}{f}H{b}{sep}5M", f"PT{a}{sep}5H{b}{f}M",
                             f"PT{a}{f}H{b}{f}M", f"P{a}{f}DT{b}{f}S", f"PT{a}{f}M{b}{f}S", f"P{a}{f}DT0S", f"PT{a}{f}H0M",
                             f"P{a}{f}W{b}D", f"P{a}{f}WT{b}H", f"P0{f}W{b}D"):
                    rej(text, "after-frac")
    # (c) the same fractions on the LAST component are valid and worth exactly what their digits say (a zero fraction: the integer value)
    order = ["Y", "M", "D", "H", "m", "S"]
    for nd in ZERO_ND:
        for sep in ".,":
            for z in _frac_shapes(rnd, nd):
                for unit in ("D", "H", "m", "S", "W"):
                    for full in (False, True):
                        comp = {}
                        if full and unit != "W":
                            for u in order[:order.index(unit)]:
                                comp[u] = str(rnd.randint(0, 40))
                        elif full:
                            continue
                        comp[unit] = _ip(rnd)
                        comp["frac"] = [unit, sep, z]
                        out.append(dur_case("degenerate-frac-final", comp))
    return out


def gen_degenerate_intervals(rnd):
    """the rejected degenerate fractions through the interval glue (start/duration and duration/end)"""
    out = []
    for nd in (1, 2, 3, 6, 9):
        for sep in ".,":
            f = sep + "0" * nd
            for d in (f"P1{f}Y", f"P2{f}M", f"P1Y2{f}M3D", f"P3{f}Y2M", f"PT1{f}H30M", f"P1{f}DT12H", f"PT1{f}M30S", f"PT1{f}H1{sep}5M", f"P0{f}W2D"):
                a = iso_dt(rnd, "dt")
                for text in (a + "/" + d, d + "/" + a):
                    out.append({"stream": "interval-malformed", "fn": "interval", "args": [text, {"form": -1, "a": None, "b": None, "comp": None}]})
    return out


def gen_spec(rnd, n):
    out = []
    for _ in range(n):
        unit = rnd.choice(["W", "D", "H", "m", "S"])
        fs = "".join(rnd.choice("0123456789") for _ in range(rnd.randint(0, 12)))
        vals = [rnd.choice([0, rnd.randrange(0, 100), rnd.randrange(0, 10**10)]) for _ in range(5)]
        out.append({"stream": "spec", "fn": "spec", "args": vals + [UNIT_SECS[unit], fs]})
    return out


def iso_dt(rnd, kind):
    import datetime as _dt
    y = rnd.choice([rnd.randint(1900, 2100), rnd.randint(1990, 2030)])
    mo = rnd.randint(1, 12)
    import calendar
    d = rnd.choice([1, 28, calendar.monthrange(y, mo)[1], rnd.randint(1, calendar.monthrange(y, mo)[1])])
    h, mi, s = rnd.randrange(24), rnd.randrange(60), rnd.randrange(60)
    us = rnd.choice([0, 0, rnd.randrange(1000000), 999999, 1])
    text = f"{y:04d}-{mo:02d}-{d:02d}"
    if kind == "date":
        return text
    text += f"T{h:02d}:{mi:02d}:{s:02d}"
    if us:
        text += f".{us:06d}"
    z = rnd.random()
    if z < 0.3:
        text += "Z"
    elif z < 0.6:
        off = rnd.choice([-720, -330, -60, 0, 60, 345, 570, 840])
        text += ("+" if off >= 0 else "-") + f"{abs(off) // 60:02d}:{abs(off) % 60:02d}"
    return text


def gen_intervals(rnd, n):
    out = []
    for k in range(n):
        form = k % 3
        a = iso_dt(rnd, "dt")
        if form == 0:
            b = iso_dt(rnd, "dt")
            out.append({"stream": "interval-start-end", "fn": "interval", "args": [a + "/" + b, {"form": 0, "a": a, "b": b, "comp": None}]})
            continue
        comp = {}
        r = rnd.random()
        big = r < 0.08
        for u, hi in (("Y", 40), ("M", 30), ("D", 400000 if big else 500), ("H", 100), ("m", 200), ("S", 5000)):
            if rnd.random() < 0.5:
                comp[u] = str(rnd.randint(0, hi))
        if not comp:
            comp["D"] = "1"
        if rnd.random() < 0.5:
            last = [u for u in ("Y", "M", "D", "H", "m", "S") if u in comp][-1]
            if last not in ("Y", "M"):
                nd = rnd.choice([1, 1, 2, 3, 6, 6, 9])
                comp["frac"] = [last, rnd.choice(".,"), "".join(rnd.choice("0123456789") for _ in range(nd))]
        if rnd.random() < 0.06:
            comp = {"W": str(rnd.randint(0, 300))}
        dtext = render(comp)
        text = (a + "/" + dtext) if form == 1 else (dtext + "/" + a)
        out.append({"stream": "interval-start-duration" if form == 1 else "interval-duration-end", "fn": "interval",
                    "args": [text, {"form": form, "a": a, "b": None, "comp": comp}]})
    # date-only endpoints (read at midnight; before the repair of C17 interval-non-datetime-endpoint they raised TypeError) and malformed pieces
    for text, form in (("2021-01-01/P1D", 1), ("P1D/2021-01-01", 2), ("2020-02-29/P1Y", 1), ("PT1H/1999-12-31", 2)):
        comp = {"D": "1"} if "P1D" in text else ({"Y": "1"} if "P1Y" in text else {"H": "1"})
        out.append({"stream": "interval-date-endpoint", "fn": "interval", "args": [text, {"form": form, "a": text.replace("/", "").replace(render(comp), ""), "b": None, "comp": comp, "date": True}]})
    for text in ("2021-01-01T00:00:00/P1M1Y", "PT1S1M/2021-01-01T00:00:00", "2021-01-01T00:00:00/P1.5Y", "2021-01-01T00:00:00/P1D/P1D", "P1D/P1D/2021-01-01T00:00:00"):
        out.append({"stream": "interval-malformed", "fn": "interval", "args": [text, {"form": -1, "a": None, "b": None, "comp": None}]})
    return out


def cases(tier, seed):
    rnd = random.Random(seed)
    big = tier != "quick"
    out = []
    out += gen_subsets(rnd, 300 if big else 80)
    out += gen_fractions(rnd, 150 if big else 40)
    out += gen_malformed(rnd)
    out += gen_spec(rnd, 5000 if big else 500)
    out += gen_intervals(rnd, 60000 if big else 12000)
    # the degenerate-fraction class draws from a generator of its own, so the streams above are the same strings as before it was added
    rnd2 = random.Random(seed * 7919 + 13)
    out += gen_degenerate_fractions(rnd2)
    out += gen_degenerate_intervals(rnd2)
    return out


def search_cases(seed):
    return [c for c in cases("thorough", seed + 1) if c["fn"] != "spec"]


def nontrivial(c):
    return c["stream"] != "degenerate"


# ----------------------------------------------------------------------------- implementation side
def _exc(e):
    if isinstance(e, ValueError):
        return [1, "ValueError"]
    return [1, type(e).__name__]


def _obs(d):
    import datetime
    td = datetime.timedelta
    return [0, int(d.years), int(d.months), td.days.__get__(d), td.seconds.__get__(d), td.microseconds.__get__(d)]


def _dt8(x):
    off = x.utcoffset()
    return [x.year, x.month, x.day, x.hour, x.minute, x.second, x.microsecond, int(off.total_seconds()) if off is not None else -99999]


def impl_run(cases):
    import pendulum
    from pendulum.parsing import parse as base_parse
    from pendulum.parsing.iso8601 import parse_iso8601 as py_parse
    try:
        from pendulum._pendulum import parse_iso8601 as rs_parse
    except ImportError:  # the staged tree always carries the extension; without it the rs_raw tie is reported as broken
        rs_parse = None
    out = []
    for c in cases:
        fn, a = c["fn"], c["args"]
        if fn == "dur":
            s = a[0]
            r = []
            try:
                d = pendulum.parse(s)
                r.append(_obs(d) if isinstance(d, pendulum.Duration) else [8, type(d).__name__])
            except Exception as e:  # noqa
                r.append(_exc(e))
            try:
                d = py_parse(s)
                r.append(_obs(d) if isinstance(d, pendulum.Duration) else [8, type(d).__name__])
            except Exception as e:  # noqa
                r.append(_exc(e))
            try:
                d = rs_parse(s)
                r.append([0, d.years, d.months, d.weeks, d.days, d.hours, d.minutes, d.seconds, d.microseconds]
                         if type(d).__name__ == "Duration" and type(d).__module__ != "pendulum.duration" else [8, type(d).__name__])
            except Exception as e:  # noqa
                r.append(_exc(e))
            out.append(r)
        elif fn == "interval":
            s, meta = a
            try:
                raw = base_parse(s)
                du = getattr(raw, "duration", None)
                form = 0 if du is None else (1 if raw.start is not None else 2)
                parts = [0] * 8 if du is None else [int(du.years), int(du.months), int(du.weeks), int(du.remaining_days), int(du.hours),
                                                     int(du.minutes), int(du.remaining_seconds), int(du.microseconds)]
                head = [0, form] + parts
            except Exception as e:  # noqa
                out.append(_exc(e) + ["base"])
                continue
            try:
                iv = pendulum.parse(s)
                kw = dict(zip(("years", "months", "weeks", "days", "hours", "minutes", "seconds", "microseconds"), parts))
                if form == 1:
                    ok = iv.end == iv.start.add(**kw)
                elif form == 2:
                    ok = iv.start == iv.end.subtract(**kw)
                else:
                    ok = True
                out.append(head + _dt8(iv.start) + _dt8(iv.end) + [int(ok)])
            except Exception as e:  # noqa
                out.append(head + _exc(e))
        else:
            out.append([0])
    return out


# ----------------------------------------------------------------------------- model side
EXN = {1: "ValueError", 2: "TypeError", 3: "OverflowError", 13: "OutOfFuel", 14: "Exception"}


def _cp(s):
    return [ord(ch) for ch in s]


def _mres(o):
    if o[0] == 1:
        return [1, EXN.get(o[1], str(o[1]))]
    return o


def model_calls(c, backend):
    fn, a = c["fn"], c["args"]
    if fn == "dur":
        cp = _cp(a[0])
        return [("py_dur", cp), ("rs_dur", cp), ("rs_raw", cp)]
    if fn == "interval":
        return [(f"{backend}_interval", _cp(a[0]))]
    if fn == "spec":
        return [("spec", a[:6] + _cp(a[6]))]


def model_result(c, backend, outs):
    fn = c["fn"]
    if fn == "dur":
        py, rs, raw = (_mres(o) for o in outs)
        return [py if backend == "py" else rs, py, raw]
    if fn == "interval":
        return _mres(outs[0])
    if fn == "spec":
        w, d, h, mi, s, unit, fs = c["args"]
        exact = (Fraction(((7 * w + d) * 86400 + h * 3600 + mi * 60 + s)) + Fraction(unit * int(fs or "0"), 10 ** len(fs))) * 10 ** 6
        return [0] if Fraction(outs[0][1], outs[0][2]) == exact and outs[0][2] == 10 ** len(fs) else [7, outs[0][1], outs[0][2]]
    return outs[0]


def same(c, m, r):
    if c["fn"] == "interval":
        if m[0] == 1:
            return r[0] == 1 and r[:2] == m[:2]
        return r[:10] == m and (len(r) == 12 or (len(r) == 27 and r[26] == 1))
    return m == r


# ----------------------------------------------------------------------------- the property itself (stdlib only)
def exact_value(comp):
    """-> (years, months, exact length of the other components in microseconds as a Fraction)"""
    secs = Fraction(0)
    for u, f in (("W", 604800), ("D", 86400), ("H", 3600), ("m", 60), ("S", 1)):
        if u in comp:
            secs += int(comp[u]) * f
    fr = comp.get("frac")
    if fr:
        secs += Fraction(int(fr[2]), 10 ** len(fr[2])) * UNIT_SECS[fr[0]]
    return int(comp.get("Y", "0")), int(comp.get("M", "0")), secs * 10 ** 6


def representable(comp):
    y, mo, us = exact_value(comp)
    return int(us // (86400 * 10 ** 6)) + y * 365 + mo * 30 <= 999999999


def check_duration(comp, r):
    """r: canonical [0, y, mo, days, secs, us] or [1, Exc]"""
    y, mo, us = exact_value(comp)
    if not representable(comp):
        return None if r == [1, "ValueError"] else f"too large to represent: expected a ValueError, got {r}"
    if r[0] != 0:
        return f"expected years={y} months={mo} length={float(us)}us, got {r}"
    got = ((r[3] - 365 * r[1] - 30 * r[2]) * 86400 + r[4]) * 10 ** 6 + r[5]
    if r[1] != y or r[2] != mo:
        return f"years/months: got {r[1:3]}, expected {[y, mo]}"
    if abs(got - us) * 2 > 1:
        return f"length: got {got} us, exact value is {us} us"
    return None


def _add_months(dt, n):
    import calendar
    t = dt.year * 12 + (dt.month - 1) + n
    y, m = divmod(t, 12)
    m += 1
    if not 1 <= y <= 9999:
        raise OverflowError
    return dt.replace(year=y, month=m, day=min(dt.day, calendar.monthrange(y, m)[1]))


def _parse_dt(text):
    import datetime
    dt = datetime.datetime.fromisoformat(text.replace("Z", "+00:00"))
    if dt.tzinfo is None:
        dt = dt.replace(tzinfo=datetime.timezone.utc)
    return dt


def _from8(v):
    import datetime
    return datetime.datetime(*v[:7], tzinfo=datetime.timezone(datetime.timedelta(seconds=v[7])))


def oracle(c, backend, r):
    import datetime
    fn, a = c["fn"], c["args"]
    if fn == "dur":
        meta = a[1]
        res = r[0]
        if meta["kind"] == "degenerate":
            return None
        if meta["comp"] is None:
            return None if res == [1, "ValueError"] else f"malformed duration {a[0]!r} ({meta['kind']}) must be rejected with a ValueError, got {res}"
        why = check_duration(meta["comp"], res)
        return None if why is None else f"{a[0]!r}: {why}"
    if fn == "interval":
        meta = a[1]
        if meta["form"] == -1:
            return None if r[:2] == [1, "ValueError"] else f"malformed interval {a[0]!r} must be rejected with a ValueError, got {r}"
        if r[0] == 1 or len(r) != 27:
            return f"{a[0]!r}: expected an Interval, got {r[-2:] if r[0] == 0 else r}"
        start, end = _from8(r[10:18]), _from8(r[18:26])
        A = _parse_dt(meta["a"])          # a date endpoint next to a duration is read at midnight (UTC by default), like any other given endpoint
        if meta["form"] == 0:
            B = _parse_dt(meta["b"])
            return None if (start, end) == (A, B) and (start.utcoffset(), end.utcoffset()) == (A.utcoffset(), B.utcoffset()) else f"{a[0]!r}: endpoints {start} {end}"
        y, mo, us = exact_value(meta["comp"])
        sign = 1 if meta["form"] == 1 else -1
        try:
            base = _add_months(A, sign * (12 * y + mo))
            lo = base + sign * datetime.timedelta(microseconds=int(us // 1))
            hi = base + sign * datetime.timedelta(microseconds=-int(-us // 1))
        except OverflowError:
            return None
        given, other = (start, end) if meta["form"] == 1 else (end, start)
        if given != A or given.utcoffset() != A.utcoffset():
            return f"{a[0]!r}: the given endpoint came back as {given}"
        # nearest microsecond: either neighbour on an exact tie
        cands = {lo, hi} if (us - us // 1) * 2 == 1 else {lo if (us - us // 1) * 2 < 1 else hi}
        if other not in cands:
            return f"{a[0]!r}: missing endpoint is {other}, exact value gives {sorted(cands)[0]}"
        return None
    return None


# ----------------------------------------------------------------------------- known findings (tight predicates on the input)
def _classify(comp, backend, res_is_overflow):
    """Which listed defect of the duration parsers explains a wrong value for these components?"""
    fr = comp.get("frac")
    if not representable(comp):
        # the exact value does not fit a timedelta: before the repair the constructor's OverflowError escaped (both backends); the finding is
        # `fixed` (except clauses in parse_iso8601 and parser._parse), so an OverflowError here is reported as a VIOLATION under this id ...
        if res_is_overflow:
            return "too-large-overflowerror"
        # ... or the 32-bit accumulator wrapped first (compiled parser only)
        if backend == "rs" and any(int(comp[u]) >= U32 for u in ("W", "Y", "M", "D", "H", "m", "S") if u in comp):
            return "rs-u32-wrap"
        return None
    if backend == "rs":
        if any(int(comp[u]) >= U32 for u in ("W", "Y", "M", "D", "H", "m", "S") if u in comp):
            return "rs-u32-wrap"
        if fr:
            _y, _m, us = exact_value(comp)
            if fr[0] == "H" and us % 10 ** 6 != 0:
                return "rs-frac-rounds-to-seconds"
            if fr[0] in ("D", "W") and us % (60 * 10 ** 6) != 0:
                return "rs-frac-rounds-to-seconds"
    else:
        if fr:
            if fr[0] == "W":
                return "py-week-frac"
            if fr[0] in ("D", "H", "m") and len(fr[2]) >= 2:
                return "py-frac-digit-count"
            if fr[0] == "S" and len(fr[2]) > 6:
                return "py-sec-frac-truncated"
    return None


def known(c, backend, r):
    fn, a = c["fn"], c["args"]
    if fn == "dur":
        meta = a[1]
        res = r[0]
        if meta["comp"] is None:
            # only the compiled parser's order/repeat/week-mix checks are known to be too weak (they test "later field != 0")
            if backend == "rs" and meta["kind"] in ("order", "repeat", "mix") and res[0] == 0:
                return "rs-order-check-by-zero-test"
            return None
        return _classify(meta["comp"], backend, res == [1, "OverflowError"])
    if fn == "interval":
        meta = a[1]
        if meta.get("date") and r[-2:] == [1, "TypeError"]:
            return "interval-date-endpoint-typeerror"      # `fixed`: reported as a VIOLATION under this id if it comes back
        if meta["comp"] is None:
            return None
        k = _classify(meta["comp"], backend, r[-2:] == [1, "OverflowError"])
        if k:
            return k
        # Duration._total is a float: exact to the microsecond only below 2^33 s
        # (total_seconds() of the native value, which includes 365-day years and 30-day months)
        y, mo, us = exact_value(meta["comp"])
        if backend == "py" and us + (365 * y + 30 * mo) * 86400 * 10 ** 6 >= (1 << 33) * 10 ** 6:
            return "py-interval-float-total"
    return None


LEVEL_TEXT = ("Machine-checked Coq theorems about executable models of both duration parsers (hand models of rust/src/parsing.rs with explicit u32 wrap-around and "
              "SpecFloat f64, and of the ISO8601_DURATION matcher + _parse_iso8601_duration + CPython's timedelta float constructor): integer-component durations "
              "parse to their exact value in both backends for every digit string (Rust: modulo 2^32 per component) and are rejected with a ValueError when "
              "the total exceeds timedelta's 999999999 days (no OverflowError on any string); a duration with ONE fraction digit parses to its exact value for EVERY integer part "
              "(dur_frac_1digit_py: pure Python on D H M S, bound = timedelta's range only; dur_frac_1digit_rs: compiled parser on D H M S W, integer part modulo 2^32) "
              "and the pure-Python week fraction is wrong for every integer part (dur_frac_1digit_py_weeks_refuted_all); refutations by witness for the longer fractions and "
              "wrap-around defects, rejection theorems; three-way correspondence (implementation both backends / model / Fraction oracle) on seeded streams.")
DESIGN_REF = "DESIGN.md section 4 C13"
LEVEL_NOTE = ("Trusted: Coq kernel+VM, the hand models (tied by correspondence every run, the Rust one on all eight raw fields), extraction+driver, the Fraction oracle. "
              "Interval endpoints are checked by correspondence and oracle; DateTime.add/subtract themselves belong to C04. "
              "One fraction digit (Proofs/C13Frac.v): in both parsers the integer part reaches the constructor as an integer argument / a u32 field of its own, so every float "
              "operation acts on digit/10 alone; that float part is evaluated once per digit in the kernel (10 digits x 4 resp. 5 units) and the integer part is proved to add "
              "exactly for every digit string (CPython's accum() is translation invariant in its integer accumulator; no exact tie of the left-over occurs), hence no real-number "
              "axioms: closed under the global context. dur_frac_1digit_partial (the former finite check over seven integer parts) is kept unchanged.")
TECHNIQUE = "Coq proof over hand models (list-of-code-point strings, SpecFloat) + differential correspondence + exact rational oracle"


# the post-match code of the pure-Python duration parser is translated from /repo on every run and the hand model is PROVED equal to it
TRUSTED = list(TRUSTED) + [
    "tools/vlib/pyfloat2gallina.py + tools/vlib/gens/g53_dur_parse_py.py (Python ast -> Gallina for _parse_iso8601_duration after the regex match; generic part: CPython's "
    "int/float typing and conversion points, evaluation order, every raising operation a bind, the variables assigned in an `if` threaded through the result monad, int-or-float "
    "accumulators as `num`; STRING layer read by fixed rules listed in the generator's docstring: a token group = the tok record (digits, optional fraction digits, start), "
    "m.group / m.start / .replace(',', '.').replace(<designator>, '') / '.' in x / x.split('.') / int(x) / int(f\"{x[:6]:0<6}\") / cast; fails closed on anything else) and "
    "coq/Model/DurParsePrims.v (int / positive constant and int -> float in the result monad): they replace the former trust in the hand transcription `py_args` of "
    "Model/DurParse.v, now PROVED equal to the translation (model_is_code_parse_iso8601_duration_partial, closed under the global context) for every match record without a week FRACTION",
]
LEVEL_NOTE = LEVEL_NOTE + (" Model = code (pure-Python parser): coq/Gen/DurParsePy.v is translated from src/pendulum/parsing/iso8601.py::_parse_iso8601_duration on every run and "
                           "Proofs/DurParsePyFacts.v proves it equal to py_args + duration_native (py_native after the match) for every match record whose weeks group has no fraction, so a "
                           "semantic edit of that code (the /10, a carry constant, a designator branch, the [:6] padding, an order check, the fractional flag) breaks a proof or fails closed "
                           "(self-tested by mutation) rather than only a source pin. Remaining gap: a FRACTIONAL week - the translation uses CPython's float // 1, % 1, int() where the hand model "
                           "writes trunc and x - trunc x; equal on five witnesses by kernel computation, in general only tied by correspondence. Not translated: the compiled parser's glue "
                           "(parser.py -> pendulum.duration), the interval glue py_parts, Duration.__new__ with float arguments (duration_native is the hand model of delta_new/accum).")


# the fractional week is closed through Flocq
TRUSTED = list(TRUSTED) + [
    "Flocq (installed library) correctness theorems for binary64 operations, bridged to Coq's SpecFloat in coq/Proofs/FloatRoundTrip*.v / FloatRoutesFlocq.v, and the standard-library "
    "real-number axioms reported by Print Assumptions (ClassicalDedekindReals.sig_not_dec, ClassicalDedekindReals.sig_forall_dec, FunctionalExtensionality.functional_extensionality_dep, "
    "Classical_Prop.classic) for model_is_code_parse_iso8601_duration / model_is_code_py_native ONLY (the week-fraction carry, coq/Proofs/DurParseWeekCarry.v); every other C13 theorem is closed under the global context",
]
LEVEL_NOTE = LEVEL_NOTE + (" Update: the fractional week is closed (coq/Proofs/DurParseWeekCarry.v: for x = int(portion)/10*7 CPython's float x // 1, x % 1, int() agree with the hand model's trunc "
                           "and x - trunc x): model_is_code_parse_iso8601_duration holds for EVERY match record whose week fraction digits are worth less than 10^15 (at most 15 digits), nothing else bounded.")


# degenerate fractions: the rejection of a fraction that is not on the last component is proved, not only sampled
LEVEL_NOTE = LEVEL_NOTE + (" Fractions off the last component (Proofs/C13AfterFrac.v, closed under the global context, inside the Coq model - no oracle-only stream was needed): "
                           "dur_rs_after_fraction_only_T (the loop of the compiled parser, from EVERY state: once last_had_fraction is set nothing but a lone trailing 'T' is accepted), "
                           "dur_frac_nonfinal_rejected_rs_date / _time (any integer-token prefix, any digit strings - zeros only included -, both separators, any designator, any continuation), "
                           "dur_frac_nonfinal_rejected_py / dur_frac_nonfinal_py_args (every string / every match record: a fractional D, H or M group in front of a later time group never "
                           "returns from py_args), dur_degenerate_fraction_witnesses (P1.0Y P2,00M P1Y2.0M3D P1.000000000Y PT1.0H30M P1.0DT12H PT1,00M30S PT1.0H1.5M P0.0W2D rejected by "
                           "all three models, P1.0D / PT1,000S accepted with the integer value). 'Fractional' is a property of the text of a component, not of its value; the streams "
                           "degenerate-frac-rejected / degenerate-frac-final / interval-malformed tie these theorems to both implementations on every run.")
