"""C16 — weekday navigation (next/previous/first_of/last_of/nth_of) lands on the right day inside the right unit."""
from __future__ import annotations

import calendar
import datetime as _dt
import functools
import random

from vlib import tzcases as _T

ID = "C16"
PROPS = "Props/C16.v"
RULE = ("months chosen so that all 28 month shapes (length 28..31 x weekday of the 1st) occur, drawn from a seed-rotated 400-year window, "
        "plus leap Februaries, quarter/year ends and the range edges (years 1, 2, 9998, 9999); for each month the days 1, last and random ones; "
        "for each date: next/previous x (None + 7 weekdays) [x keep_time for DateTime], first_of/last_of x 3 units x (None + 7), "
        "nth_of x 3 units x 7 weekdays x n in 1..6 (month) / 1..15 (quarter) / 1..54 (year); Date and DateTime (naive, UTC, fixed offsets "
        "-23:59..+23:59; random times of day); tz-database zones: every day with a skipped local midnight in the sampled zones (found with "
        "zoneinfo) x instances on/around that day and elsewhere in its month/quarter/year x fold 0/1 x times 00:00, inside the gap, noon, and "
        "for each such day g and each target T = g-6..g+6 the calls that reach T across g (zone-enumerated) -- each compared with the Coq "
        "model Model/WeekdayZone.v run on the zone's table (wall fields, fold and utcoffset of the result and of the constructed instance) AND "
        "with zoneinfo arithmetic; model budget: two of three year-unit nth_of zone cases of the quick tier (seven of eight, three of four quarter-unit, every other "
        "month-unit nth_of and next/previous case in the thorough tier) are oracle-only; "
        "`firstweekday`: process-wide configuration set before the call -- calendar.setfirstweekday(0..6) x Date/DateTime x first_of/last_of "
        "(3 units, None + 7 weekdays) x nth_of (n = 1, 2), the setting is an argument of the case (self-contained replay) and an argument of "
        "the model (fw_* functions, proved not to depend on it); under EVERY setting the answer must be the one of plain date arithmetic "
        "(region of the repaired finding calendar-firstweekday; its former witnesses, 2024-05-17 under each setting, come first and are "
        "deterministic); the model of calendar.Calendar(fw) is validated against the stdlib; every result must be a "
        "pendulum Date (not a datetime) / a pendulum DateTime; n <= 0 and invalid weekdays as robustness streams; the `nth-max-year` stream is deterministic: year 9999, "
        "the occurrences whose place would lie after 9999-12-31 (n just inside / just beyond the month, quarter, year, and n = 100, 400), "
        "Date and DateTime -- the region of the repaired finding nth-of-overflow-at-max-year.  A case is non-trivial when it is a distinct "
        "(function, arguments) tuple; each composite case carries 16..378 calls of the public API, every one compared with the Coq model "
        "(both backends) and with datetime.date arithmetic.")
EXHAUSTIVE = {"quick": False, "thorough": False}
TRUSTED = ["CPython datetime.date / calendar.Calendar(fw).monthdayscalendar / zoneinfo are the specification side; Spec/Cal.v and the calendar "
           "models mc_get (Calendar(MONDAY), what the month helpers read) and mc_get_fw (every fw) are validated against them by the `cal-spec` "
           "stream and the mcfw cases of the `firstweekday` stream every run",
           "DateTime in naive/UTC/fixed-offset zones is modelled by hand (zone = opaque identifier carried along, create() attaches it unchanged); "
           "DateTime in tz-database zones is modelled by Model/WeekdayZone.v over the zone table that tools/vlib/zones.py reads through the "
           "pure-Python zoneinfo (window: December of the year before the instance .. January of the year after), create() = "
           "Timezone.convert as modelled in Model/TzConvert.v (shared with C02/C04)"]
ASSUMPTIONS = ["dt.format('YYYY-MM') / dt.format('%Y-%M') string equality is equality of (year, month): validated by the `format-check` stream every run",
               "all streams but `firstweekday` run under the default calendar.firstweekday() (Monday); that stream sets every value 0..6, "
               "requires the same answers under each, checks that pendulum leaves the setting alone, and restores it"]
VM_SUBSET = 120

MAXORD = 3652059
EXC = {"ValueError": 1, "TypeError": 2, "OverflowError": 3, "IndexError": 4, "PendulumException": 12}
UNITS = ("month", "quarter", "year")
WDOPTS = [None, 0, 1, 2, 3, 4, 5, 6]
NMAX = {0: 6, 1: 15, 2: 54}
DST_ZONES = ["America/Sao_Paulo", "America/Havana", "America/Asuncion", "Asia/Beirut", "Africa/Cairo", "America/Santiago",
             "Atlantic/Azores", "Asia/Tehran", "Asia/Amman", "Asia/Damascus", "America/Campo_Grande", "Asia/Gaza"]
CONTROL_ZONES = ["Europe/Paris", "America/New_York", "Australia/Lord_Howe", "Asia/Kolkata"]


# ----------------------------------------------------------------------------- case generation
def _month_pool(seed):
    """shape (dim, first weekday) -> list of (y, m) inside a seed-rotated 400-year window"""
    base = 1601 + (seed * 97) % 8000
    pool = {}
    for y in range(base, base + 400):
        for m in range(1, 13):
            fw, dim = calendar.monthrange(y, m)
            pool.setdefault((dim, fw), []).append((y, m))
    return pool


def _dates(tier, seed, rnd, per_shape, days_per_month):
    pool = _month_pool(seed)
    months = []
    for shape in sorted(pool):
        months += rnd.sample(pool[shape], min(per_shape, len(pool[shape])))
    # quarter / year boundaries and leap years explicitly
    y0 = 1601 + (seed * 97) % 8000
    ly = next(y for y in range(y0, y0 + 8) if calendar.isleap(y))
    months += [(ly, 2), (ly, 12), (ly, 1), (ly + 1, 2), (y0 - y0 % 400 + 400, 2), (y0 - y0 % 100 + 100, 2)]
    out = []
    for (y, m) in months:
        dim = calendar.monthrange(y, m)[1]
        ds = {1, dim} | {rnd.randrange(1, dim + 1) for _ in range(days_per_month)}
        out += [(y, m, d) for d in sorted(ds)]
    return out


def _edge_dates():
    out = []
    for y, ms in ((1, (1, 2, 3, 12)), (2, (1,)), (9998, (12,)), (9999, (1, 6, 10, 11, 12))):
        for m in ms:
            dim = calendar.monthrange(y, m)[1]
            out += [(y, m, d) for d in sorted({1, 2, 7, 8, 15, dim - 7, dim - 6, dim - 1, dim})]
    return out


def _zone_codes(rnd, k):
    offs = [0, 3600, -3600, 19800, -34200, 86399, -86399, 50400, -43200]
    z = [0, 1] + [100000 + o for o in offs]
    z += [100000 + rnd.randrange(-86399, 86400) for _ in range(k)]
    return z


def _skipped_midnights(zone, y_lo=1995, y_hi=2030):
    """dates whose local 00:00 does not exist in `zone` (stdlib zoneinfo only)"""
    import zoneinfo
    zi = zoneinfo.ZoneInfo(zone)
    out = []
    d = _dt.date(y_lo, 1, 1)
    end = _dt.date(y_hi, 12, 31)
    one = _dt.timedelta(days=1)
    while d <= end:
        if not _exists(_dt.datetime(d.year, d.month, d.day), zi):
            out.append(d)
        d += one
    return out


def _exists(naive, zi):
    a = naive.replace(tzinfo=zi, fold=0)
    back = a.astimezone(_dt.timezone.utc).astimezone(zi)
    return back.replace(tzinfo=None) == naive


_GAP_CACHE = {}


def _gaps(zone):
    if zone not in _GAP_CACHE:
        _GAP_CACHE[zone] = _skipped_midnights(zone)
    return _GAP_CACHE[zone]


def _nth_plan(rnd, st, fn, inst, full, year_every, idx):
    """nth_of cases for one instance: month unit always complete (7 weekdays x n in 1..6); quarter and year complete for a
    budgeted number of instances, otherwise the weekday of the unit's first day + random ones x the n at both ends
    (the model evaluation of a year-unit call costs ~n/12 ms, which bounds the quick tier)"""
    y, m, d = inst[:3]
    out = [{"stream": st, "fn": fn, "args": [0] + inst + [list(range(7)), list(range(1, 7))]}]
    q1 = _dt.date(y, 3 * ((m - 1) // 3) + 1, 1).weekday()
    if full["q"] > 0 and rnd.random() < 0.3:
        full["q"] -= 1
        out.append({"stream": st, "fn": fn, "args": [1] + inst + [list(range(7)), list(range(1, 16))]})
    else:
        qe = _unit_bounds(1, _dt.date(y, m, 1))[1].weekday()
        wds = sorted({q1, qe, rnd.randrange(0, 7)})
        out.append({"stream": st, "fn": fn, "args": [1] + inst + [wds, [1, 2, 3, 12, 13, 14, 15]]})
    y1 = _dt.date(y, 1, 1).weekday()
    if full["y"] > 0 and (rnd.random() < 0.1 or (y == 9999 and m == 1)):
        full["y"] -= 1
        out.append({"stream": st, "fn": fn, "args": [2] + inst + [list(range(7)), list(range(1, 55))]})
    elif idx % year_every == 0 or y == 9999:
        wds = sorted({y1, _dt.date(y, 12, 31).weekday(), rnd.randrange(0, 7)})
        out.append({"stream": st, "fn": fn, "args": [2] + inst + [wds, sorted({1, 2, rnd.randrange(3, 52), 52, 53, 54})]})
    return out


def cases(tier, seed):
    rnd = random.Random(seed * 1000003 + 16)
    thorough = tier == "thorough"
    out = []
    dates = _dates(tier, seed, rnd, 10 if thorough else 2, 4 if thorough else 1)
    edges = _edge_dates()
    # the stdlib side of the model (monthcalendar rows, weekday) against the stdlib
    seen = set()
    for (y, m, d) in dates + edges:
        if (y, m) not in seen:
            seen.add((y, m))
            out.append({"stream": "cal-spec", "fn": "mc", "args": [y, m]})
    for _ in range(300 if thorough else 60):
        a = _dt.date.fromordinal(rnd.randrange(1, MAXORD + 1))
        b = rnd.choice([a.replace(day=1), _dt.date.fromordinal(min(MAXORD, a.toordinal() + rnd.randrange(0, 400))),
                        _dt.date.fromordinal(rnd.randrange(1, MAXORD + 1))])
        out.append({"stream": "format-check", "fn": "fmt", "args": [a.year, a.month, a.day, b.year, b.month, b.day]})
    # Date
    full_budget = {"q": 60 if thorough else 10, "y": 100 if thorough else 4}
    for i, (y, m, d) in enumerate(dates + edges):
        st = "date-edges" if (y, m, d) in edges and y in (1, 2, 9998, 9999) else "date"
        out.append({"stream": st, "fn": "d_nav", "args": [y, m, d]})
        out.append({"stream": st, "fn": "d_fl", "args": [y, m, d]})
        out += _nth_plan(rnd, st, "d_nth", [y, m, d], full_budget, year_every=1 if thorough else 2, idx=i)
    # 29 February of every leap year: next/previous go through add_duration's day clamp (is_leap of the active backend)
    for y in range(4, 10000, 4):
        if calendar.isleap(y) and (thorough or y % 100 == 0 or (y + seed) % 5 == 0):
            out.append({"stream": "feb29", "fn": "d_nav", "args": [y, 2, 29]})
            if y % 400 == 0 or (y + seed) % 40 == 0:
                out.append({"stream": "feb29", "fn": "t_nav", "args": [y, 2, 29, 43200000000, 1]})
                out.append({"stream": "feb29", "fn": "d_nth", "args": [0, y, 2, 29, list(range(7)), [1, 2, 5]]})
    # DateTime in zones without transitions
    zc = _zone_codes(rnd, 12 if thorough else 4)
    tsel = dates if thorough else rnd.sample(dates, min(len(dates), 70))
    esel = edges if thorough else rnd.sample(edges, 30) + [(9999, 12, 1), (9999, 12, 31), (1, 1, 1), (9999, 10, 15)]
    tfull = {"q": 30 if thorough else 4, "y": 30 if thorough else 2}
    for (y, m, d) in tsel + esel:
        st = "datetime-edges" if y in (1, 2, 9998, 9999) else "datetime"
        tod = rnd.choice([0, 86399999999, 43200000000, rnd.randrange(0, 86400000000)])
        z = rnd.choice(zc)
        out.append({"stream": st, "fn": "t_nav", "args": [y, m, d, tod, z]})
        out.append({"stream": st, "fn": "t_fl", "args": [y, m, d, tod, z]})
        out += _nth_plan(rnd, st, "t_nth", [y, m, d, tod, z], tfull, year_every=1 if thorough else 3, idx=rnd.randrange(0, 6))
    # robustness: n <= 0, invalid weekdays (Date and DateTime)
    for (y, m, d) in rnd.sample(dates, 12):
        for cls in (0, 1):
            for u in (0, 1, 2):
                out.append({"stream": "nth-nonpositive", "fn": "nth0", "args": [cls, u, rnd.choice([0, -1, -5]), y, m, d, rnd.randrange(0, 7)]})
            for wd in (7, -1, -7, -8, 100):
                out.append({"stream": "invalid-weekday", "fn": "badwd", "args": [cls, rnd.randrange(0, 5), rnd.randrange(0, 3), rnd.choice([1, 2, 3]), y, m, d, wd]})
    # large n (the loop runs past the unit; PendulumException expected)
    for (y, m, d) in rnd.sample(dates, 6):
        for u in (0, 1, 2):
            n = rnd.choice([55, 100, 400])
            out.append({"stream": "nth-large", "fn": "d_nth", "args": [u, y, m, d, [rnd.randrange(0, 7)], [n]]})
    out += _max_year_cases()
    out += _firstweekday_cases(tier, rnd, dates, edges, zc)
    # tz-database zones (model = Model/WeekdayZone.v on the zone's table, and the zoneinfo oracle)
    out += _zone_cases(tier, seed, rnd)
    return out


def _firstweekday_cases(tier, rnd, dates, edges, zc):
    """Process-wide configuration set BEFORE the call: every value of calendar.setfirstweekday (0 = the default .. 6 = Sunday,
    the usual US setting) x Date and DateTime instances (random month shapes, range edges) x first_of/last_of (3 units, None + 7
    weekdays) and nth_of (3 units, 7 weekdays, n = 1, 2).  The setting is part of the case, so a replay is self-contained.
    Formerly finding calendar-firstweekday (the month helpers read calendar.monthcalendar and answered for weekday
    (wd + fw) mod 7); its witnesses -- 2024-05-17, Date and DateTime, under every setting -- come first, every run.  Ordinary
    cases: the model, the oracle and the implementation must agree on the same day under every setting."""
    out = []
    for fw in (6, 1, 2, 3, 4, 5, 0):
        out.append({"stream": "firstweekday", "fn": "fw", "args": [fw, 0, 2024, 5, 17, 0, 0]})
        out.append({"stream": "firstweekday", "fn": "fw", "args": [fw, 1, 2024, 5, 17, 34200000000, 1 if fw % 2 else 100000 - 18000]})
    k = 10 if tier == "thorough" else 3
    seen = set()
    for fw in range(7):
        for (y, m, d) in rnd.sample(dates, k) + rnd.sample(edges, 1) + ([(9999, 12, 31), (1, 1, 1)] if fw in (0, 6) else []):
            tod = rnd.choice([0, 86399999999, rnd.randrange(0, 86400000000)])
            out.append({"stream": "firstweekday", "fn": "fw", "args": [fw, 0, y, m, d, 0, 0]})
            out.append({"stream": "firstweekday", "fn": "fw", "args": [fw, 1, y, m, d, tod, rnd.choice(zc)]})
            if (fw, y, m) not in seen:
                seen.add((fw, y, m))
                out.append({"stream": "firstweekday", "fn": "mcfw", "args": [fw, y, m]})
    return out


def _max_year_cases():
    """Deterministic, every run: nth_of in year 9999 where the n-th occurrence would fall after 9999-12-31, the last date there is.
    Formerly finding nth-of-overflow-at-max-year (OverflowError from the dt.next() loop instead of PendulumException); the former
    witnesses come first.  Ordinary cases: the model, the oracle and the implementation must agree on PendulumException beyond the
    unit and on the date inside it (e.g. the 14th Friday of the last quarter IS 9999-12-31)."""
    out = []
    st = "nth-max-year"
    all7 = list(range(7))
    insts = [(9999, 12, 1), (9999, 1, 1), (9999, 11, 15), (9999, 12, 31), (9999, 10, 1), (9999, 12, 25), (9999, 2, 28)]
    for (y, m, d) in insts:
        out.append({"stream": st, "fn": "d_nth", "args": [0, y, m, d, all7, [4, 5, 6, 7, 100]]})
        out.append({"stream": st, "fn": "d_nth", "args": [1, y, m, d, all7, [13, 14, 15, 16, 100]]})
        out.append({"stream": st, "fn": "d_nth", "args": [2, y, m, d, all7, [52, 53, 54, 55, 400]]})
    zs = [0, 1, 100000 + 86399, 100000 - 86399, 100000 + 19800]
    for i, (y, m, d) in enumerate(insts):
        tod = [0, 86399999999, 43200000000][i % 3]
        z = zs[i % len(zs)]
        out.append({"stream": st, "fn": "t_nth", "args": [0, y, m, d, tod, z, all7, [4, 5, 6, 100]]})
        out.append({"stream": st, "fn": "t_nth", "args": [1, y, m, d, tod, z, all7, [13, 14, 15, 100]]})
        out.append({"stream": st, "fn": "t_nth", "args": [2, y, m, d, tod, z, all7, [52, 53, 54, 400]]})
    return out


def _zone_cases(tier, seed, rnd):
    thorough = tier == "thorough"
    out = []
    for zone in DST_ZONES:
        gaps = _gaps(zone)
        if not gaps:
            continue
        pick = gaps if thorough else rnd.sample(gaps, min(len(gaps), 3))
        for g in pick:
            out += _around(zone, g, rnd, 40 if thorough else 14, "zone-skipped-midnight")
        for g in (gaps if thorough else rnd.sample(gaps, min(len(gaps), 2))):
            out += _enumerate_around_gap(zone, g, rnd)
    for zone in CONTROL_ZONES:
        for _ in range(40 if thorough else 10):
            g = _dt.date.fromordinal(rnd.randrange(_dt.date(1990, 1, 1).toordinal(), _dt.date(2035, 1, 1).toordinal()))
            out += _around(zone, g, rnd, 6, "zone-control")
    # model budget: a year-unit nth_of costs the model ~13 ms (up to 53 next() hops of up to 7 create() each), a quarter-unit one
    # ~4 ms, a month-unit one 1.5 ms, next/previous 0.4 ms.  Quick tier: one in three year-unit cases is modelled, everything else
    # always.  Thorough tier (15 x more zone cases): one in eight year-unit, one in four quarter-unit, one in two month-unit nth_of
    # and one in two next/previous cases.  The others are left to the oracle alone ("model": 0).
    every = {(4, 2): 8, (4, 1): 4, (4, 0): 2, (0, -1): 2, (1, -1): 2} if thorough else {(4, 2): 3}
    k = {key: 0 for key in every}
    for c in out:
        op = c["args"][0]
        key = (op, c["args"][7] if op == 4 else -1)
        if key in every:
            k[key] += 1
            if k[key] % every[key] != 1:
                c["model"] = 0
    return out


def _enumerate_around_gap(zone, g, rnd):
    """Enumerated: for the skipped-midnight day g and every target day T = g + k, k in -6..6 (k != 0: T has an ordinary
    midnight): nth_of in the 3 units from an instance EARLIER in the unit (own day ordinary) with n = the index of T among its
    weekday, first_of/last_of of the month on T's weekday, next/previous that cross g or stop short of it, keep_time both ways.
    Whatever the walk crosses, the answer must be on T at exactly 00:00 (or at the kept time) unless a call site of the
    listed finding is hit (_touched)."""
    out = []
    go = g.toordinal()

    def z(op, d, tod, fold, u, n, wd, keep):
        out.append({"stream": "zone-enumerated", "fn": "z",
                    "args": [op, zone, d.year, d.month, d.day, tod, fold, u, n, 0 if wd is None else 1, wd or 0, keep]})
    tods = [9 * 3600 * 10**6 + 30 * 60 * 10**6, 30 * 60 * 10**6]
    for k in range(-6, 7):
        T = _dt.date.fromordinal(go + k)
        wd = T.weekday()
        fold = rnd.randrange(0, 2)
        tod = tods[(k + 6) % 2]
        for u in (0, 1, 2):
            lo, hi = _unit_bounds(u, T)
            occ = _occurrences(lo, hi, wd)
            n = occ.index(T) + 1
            # instances: the first day of the unit, a random earlier day of the unit, a random later one
            cands = {lo.toordinal()}
            if T.toordinal() - 1 >= lo.toordinal():
                cands.add(rnd.randrange(lo.toordinal(), T.toordinal()))
            cands.add(rnd.randrange(lo.toordinal(), hi.toordinal() + 1))
            for o in sorted(cands):
                z(4, _dt.date.fromordinal(o), tod, fold, u, n, wd, 0)
            if n >= 2:
                z(4, _dt.date.fromordinal(min(cands)), tods[1 - (k + 6) % 2], 1 - fold, u, n - 1, wd, 0)
        mlo = _dt.date(T.year, T.month, 1)
        z(2, mlo, tod, fold, 0, 0, wd, 0)
        z(3, mlo, tod, fold, 0, 0, wd, 0)
        z(2, _dt.date.fromordinal(rnd.randrange(mlo.toordinal(), mlo.toordinal() + 28)), tod, 1 - fold, rnd.randrange(0, 3), 0, wd, 0)
        z(3, _dt.date.fromordinal(rnd.randrange(mlo.toordinal(), mlo.toordinal() + 28)), tod, 1 - fold, rnd.randrange(0, 3), 0, wd, 0)
        for keep in (0, 1):
            # next towards T from every start 1..7 days before it, previous from 1..7 days after it
            for j in (1, 2, 7, rnd.randrange(3, 7)):
                z(0, _dt.date.fromordinal(T.toordinal() - j), tod, fold, 0, 0, wd, keep)
                z(1, _dt.date.fromordinal(T.toordinal() + j), tod, fold, 0, 0, wd, keep)
    return out


def _around(zone, g, rnd, k, stream):
    """instances on / near the day g and elsewhere in its month, quarter, year"""
    out = []
    go = g.toordinal()
    q0 = _dt.date(g.year, 3 * ((g.month - 1) // 3) + 1, 1).toordinal()
    for _ in range(k):
        kind = rnd.randrange(0, 6)
        if kind == 0:
            o = go
        elif kind == 1:
            o = go + rnd.randrange(-8, 9)
        elif kind == 2:
            o = _dt.date(g.year, g.month, rnd.randrange(1, calendar.monthrange(g.year, g.month)[1] + 1)).toordinal()
        elif kind == 3:
            o = q0 + rnd.randrange(0, 89)
        else:
            o = _dt.date(g.year, 1, 1).toordinal() + rnd.randrange(0, 365)
        d = _dt.date.fromordinal(o)
        tod = rnd.choice([0, 30 * 60 * 10**6, 12 * 3600 * 10**6, 23 * 3600 * 10**6 + 30 * 60 * 10**6, rnd.randrange(0, 86400 * 10**6)])
        fold = rnd.randrange(0, 2)
        op = rnd.randrange(0, 5)
        u = rnd.randrange(0, 3)
        wd = rnd.choice([None, g.weekday(), g.weekday(), rnd.randrange(0, 7)])
        if op == 4:
            wd = g.weekday() if rnd.random() < 0.6 else rnd.randrange(0, 7)
            # aim at the occurrence that falls on g
            n = rnd.randrange(1, NMAX[u] + 1)
            if rnd.random() < 0.6 and _same_unit(u, d, g):
                n = len([x for x in _unit_days(u, g) if x.weekday() == wd and x <= g]) or 1
        else:
            n = 0
        keep = rnd.randrange(0, 2) if op < 2 else 0
        out.append({"stream": stream, "fn": "z", "args": [op, zone, d.year, d.month, d.day, tod, fold, u, n, 0 if wd is None else 1, wd or 0, keep]})
    return out


def search_cases(seed):
    return [c for c in cases("thorough", seed) if c["fn"] not in ("mc", "fmt")]


def nontrivial(c):
    return True


# ----------------------------------------------------------------------------- implementation side
CALL_TIMEOUT_S = 10


class _CallTimeout(Exception):
    pass


class _WrongResultType(Exception):
    pass


def _guarded(f):
    """run one public API call under an alarm: a call that does not terminate becomes an exception (kind 14), hence a violation"""
    import signal

    def on_alarm(signum, frame):
        raise _CallTimeout(f"no result after {CALL_TIMEOUT_S}s")
    old = signal.signal(signal.SIGALRM, on_alarm)
    signal.setitimer(signal.ITIMER_REAL, CALL_TIMEOUT_S)
    try:
        return f()
    finally:
        signal.setitimer(signal.ITIMER_REAL, 0)
        signal.signal(signal.SIGALRM, old)


def _canon_date(f):
    import pendulum
    try:
        r = _guarded(f)
        if not isinstance(r, pendulum.Date) or isinstance(r, _dt.datetime):
            return [1, 15, 0, 0]          # the result of a Date method is not a pendulum Date
        return [0, r.year, r.month, r.day]
    except Exception as e:  # noqa
        return [1, EXC.get(type(e).__name__, 14), 0, 0]


def _zone_of_code(z):
    import pendulum
    if z == 0:
        return None
    if z == 1:
        return "UTC"
    return pendulum.FixedTimezone(z - 100000)


def _zcode(r):
    import pendulum
    tz = r.tzinfo
    if tz is None:
        return 0
    if isinstance(tz, pendulum.FixedTimezone):
        return 100000 + tz.offset
    if getattr(tz, "key", None) == "UTC":
        return 1
    return -1


def _tod(r):
    return ((r.hour * 60 + r.minute) * 60 + r.second) * 10**6 + r.microsecond


def _canon_dt(f):
    import pendulum
    try:
        r = _guarded(f)
        if not isinstance(r, pendulum.DateTime):
            return [1, 15, 0, 0, 0, 0]    # the result of a DateTime method is not a pendulum DateTime
        return [0, r.year, r.month, r.day, _tod(r), _zcode(r)]
    except Exception as e:  # noqa
        return [1, EXC.get(type(e).__name__, 14), 0, 0, 0, 0]


def _mk_dt(y, m, d, tod, z, fold=1):
    import pendulum
    us = tod % 10**6
    s = tod // 10**6
    tz = _zone_of_code(z) if isinstance(z, int) else z
    if tz is None:
        return pendulum.naive(y, m, d, s // 3600, s // 60 % 60, s % 60, us)
    return pendulum.datetime(y, m, d, s // 3600, s // 60 % 60, s % 60, us, tz=tz, fold=fold)


def _apply(x, op, u, n, wd, keep, is_dt):
    """the public API call number `op` on instance x"""
    if op == 0:
        return x.next(wd, keep_time=bool(keep)) if is_dt else x.next(wd)
    if op == 1:
        return x.previous(wd, keep_time=bool(keep)) if is_dt else x.previous(wd)
    if op == 2:
        return x.first_of(UNITS[u], wd)
    if op == 3:
        return x.last_of(UNITS[u], wd)
    return x.nth_of(UNITS[u], n, wd)


def _run_fw(a):
    """one instance under calendar.setfirstweekday(fw): first_of/last_of x 3 units x (None + 7), nth_of x 3 units x 7 x n in (1, 2);
    the process-wide setting is put back whatever happens"""
    import pendulum
    fw, cls, y, m, d, tod, z = a
    prev = calendar.firstweekday()
    calendar.setfirstweekday(fw)
    try:
        x = pendulum.Date(y, m, d) if cls == 0 else _mk_dt(y, m, d, tod, z)
        canon = _canon_date if cls == 0 else _canon_dt
        r = []
        for (op, u, n, wd, keep) in _subcalls({"fn": "fw", "args": a}):
            r += canon(lambda: _apply(x, op, u, n, wd, keep, cls == 1))
        if calendar.firstweekday() != fw:
            return [1, "FirstWeekdayChangedByPendulum"]
        return r
    finally:
        calendar.setfirstweekday(prev)


def impl_run(cases):
    import pendulum
    out = []
    for c in cases:
        fn, a = c["fn"], c["args"]
        try:
            if fn == "mc":
                out.append([0])
            elif fn == "fmt":
                y1, m1, d1, y2, m2, d2 = a
                p, q = pendulum.Date(y1, m1, d1), pendulum.Date(y2, m2, d2)
                P, Q = pendulum.datetime(y1, m1, d1), pendulum.naive(y2, m2, d2)
                out.append([0, int(p.format("YYYY-MM") == q.format("YYYY-MM")), int(P.format("%Y-%M") == Q.format("%Y-%M"))])
            elif fn == "d_nav":
                x = pendulum.Date(*a)
                r = []
                for wd in WDOPTS:
                    r += _canon_date(lambda: x.next(wd)) + _canon_date(lambda: x.previous(wd))
                out.append(r)
            elif fn == "d_fl":
                x = pendulum.Date(*a)
                r = []
                for u in UNITS:
                    for wd in WDOPTS:
                        r += _canon_date(lambda: x.first_of(u, wd)) + _canon_date(lambda: x.last_of(u, wd))
                out.append(r)
            elif fn == "d_nth":
                u, y, m, d, wds, ns = a
                x = pendulum.Date(y, m, d)
                r = []
                for wd in wds:
                    for n in ns:
                        r += _canon_date(lambda: x.nth_of(UNITS[u], n, wd))
                out.append(r)
            elif fn == "t_nav":
                x = _mk_dt(*a)
                r = []
                for wd in WDOPTS:
                    for keep in (False, True):
                        r += _canon_dt(lambda: x.next(wd, keep_time=keep)) + _canon_dt(lambda: x.previous(wd, keep_time=keep))
                out.append(r)
            elif fn == "t_fl":
                x = _mk_dt(*a)
                r = []
                for u in UNITS:
                    for wd in WDOPTS:
                        r += _canon_dt(lambda: x.first_of(u, wd)) + _canon_dt(lambda: x.last_of(u, wd))
                out.append(r)
            elif fn == "t_nth":
                u, y, m, d, tod, z, wds, ns = a
                x = _mk_dt(y, m, d, tod, z)
                r = []
                for wd in wds:
                    for n in ns:
                        r += _canon_dt(lambda: x.nth_of(UNITS[u], n, wd))
                out.append(r)
            elif fn == "nth0":
                cls, u, n, y, m, d, wd = a
                if cls == 0:
                    x = pendulum.Date(y, m, d)
                    out.append(_canon_date(lambda: x.nth_of(UNITS[u], n, wd)))
                else:
                    x = _mk_dt(y, m, d, 45296000001, 1)
                    out.append(_canon_dt(lambda: x.nth_of(UNITS[u], n, wd)))
            elif fn == "badwd":
                cls, op, u, n, y, m, d, wd = a
                if cls == 0:
                    x = pendulum.Date(y, m, d)
                    out.append(_canon_date(lambda: _apply(x, op, u, n, wd, 0, False)))
                else:
                    x = _mk_dt(y, m, d, 45296000001, 1)
                    out.append(_canon_dt(lambda: _apply(x, op, u, n, wd, 0, True)))
            elif fn == "z":
                op, zone, y, m, d, tod, fold, u, n, hw, wd, keep = a
                x = _mk_dt(y, m, d, tod, zone, fold=fold)
                try:
                    r = _guarded(lambda: _apply(x, op, u, n, wd if hw else None, keep, True))
                    if not isinstance(r, pendulum.DateTime):
                        raise _WrongResultType(type(r).__name__)
                    out.append([0, r.year, r.month, r.day, _tod(r), r.timezone_name, x.year, x.month, x.day, _tod(x),
                                r.fold, _T.off_s(r), x.fold])
                except Exception as e:  # noqa
                    out.append([1, type(e).__name__, 0, 0, 0, "", x.year, x.month, x.day, _tod(x), 0, 0, x.fold])
            elif fn == "fw":
                out.append(_run_fw(a))
            elif fn == "mcfw":
                out.append([0])
            else:
                out.append([9])
        except Exception as e:  # noqa
            out.append([1, type(e).__name__])
    return out


# ----------------------------------------------------------------------------- model side
def _w(wd):
    return [0, 0] if wd is None else [1, wd]


def model_calls(c, backend):
    fn, a = c["fn"], c["args"]
    if fn == "mc":
        y, m = a
        calls = [("cal_mc_rows", [y, m])]
        for i in range(-7, 7):
            for col in (-8, -7, -1, 0, 1, 2, 3, 4, 5, 6, 7):
                calls.append(("cal_mc_get", [y, m, i, col]))
        calls += [("cal_weekday0", [y, m, d]) for d in (1, 15, calendar.monthrange(y, m)[1])]
        return calls
    if fn == "fmt":
        return []
    if fn == "d_nav":
        calls = []
        for wd in WDOPTS:
            calls += [("d_next", a + _w(wd)), ("d_previous", a + _w(wd))]
        return calls
    if fn == "d_fl":
        calls = []
        for u in range(3):
            for wd in WDOPTS:
                calls += [("d_first_of", [u] + a + _w(wd)), ("d_last_of", [u] + a + _w(wd))]
        return calls
    if fn == "d_nth":
        u, y, m, d, wds, ns = a
        return [("d_nth_of", [u, n, y, m, d, wd]) for wd in wds for n in ns]
    if fn == "t_nav":
        calls = []
        for wd in WDOPTS:
            for keep in (0, 1):
                calls += [("t_next", a + _w(wd) + [keep]), ("t_previous", a + _w(wd) + [keep])]
        return calls
    if fn == "t_fl":
        calls = []
        for u in range(3):
            for wd in WDOPTS:
                calls += [("t_first_of", [u] + a + _w(wd)), ("t_last_of", [u] + a + _w(wd))]
        return calls
    if fn == "t_nth":
        u, y, m, d, tod, z, wds, ns = a
        return [("t_nth_of", [u, n, y, m, d, tod, z, wd]) for wd in wds for n in ns]
    if fn == "nth0":
        cls, u, n, y, m, d, wd = a
        return [("d_nth_of", [u, n, y, m, d, wd])] if cls == 0 else [("t_nth_of", [u, n, y, m, d, 45296000001, 1, wd])]
    if fn == "badwd":
        cls, op, u, n, y, m, d, wd = a
        if cls == 0:
            return [[("d_next", [y, m, d, 1, wd])], [("d_previous", [y, m, d, 1, wd])], [("d_first_of", [u, y, m, d, 1, wd])],
                    [("d_last_of", [u, y, m, d, 1, wd])], [("d_nth_of", [u, n, y, m, d, wd])]][op]
        t = [y, m, d, 45296000001, 1]
        return [[("t_next", t + [1, wd, 0])], [("t_previous", t + [1, wd, 0])], [("t_first_of", [u] + t + [1, wd])],
                [("t_last_of", [u] + t + [1, wd])], [("t_nth_of", [u, n] + t + [wd])]][op]
    if fn == "z":
        if c.get("model") == 0:
            return None
        op, zone, y, m, d, tod, fold, u, n, hw, wd, keep = a
        return [("z_call", _zone_window(zone, y) + [op, y, m, d, tod, fold, u, n, hw, wd, keep])]
    if fn == "fw":
        fw, cls, y, m, d, tod, z = a
        calls = []
        for (op, u, n, wd, keep) in _subcalls(c):
            if op == 2:
                calls.append(("fw_first_of", [fw, u, y, m, d] + _w(wd)))
            elif op == 3:
                calls.append(("fw_last_of", [fw, u, y, m, d] + _w(wd)))
            else:
                calls.append(("fw_nth_of", [fw, u, n, y, m, d, wd]))
        return calls
    if fn == "mcfw":
        fw, y, m = a
        calls = [("fw_mc_rows", [fw, y, m])]
        for i in range(-7, 7):
            for col in MC_COLS:
                calls.append(("fw_mc_get", [fw, y, m, i, col]))
        return calls
    return None


MC_COLS = (-8, -7, -1, 0, 1, 2, 3, 4, 5, 6, 7)
EXC_NAME = {v: k for k, v in EXC.items()}


@functools.lru_cache(maxsize=4096)
def _zone_window_t(zone, y):
    lo = int(_dt.datetime(max(y - 1, 1), 12, 1, tzinfo=_dt.timezone.utc).timestamp())
    hi = int(_dt.datetime(min(y + 1, 9999), 2, 1, tzinfo=_dt.timezone.utc).timestamp())
    return tuple(_T.zone_enc(zone, lo, hi))


def _zone_window(zone, y):
    """the zone table from December of the year before the instance to January of the year after (no call leaves it)"""
    return list(_zone_window_t(zone, y))


def _pad(o, width):
    o = list(o)
    return o + [0] * (width - len(o))


def model_result(c, backend, outs):
    fn, a = c["fn"], c["args"]
    if fn == "mc":
        y, m = a
        mc = calendar.Calendar(calendar.MONDAY).monthdayscalendar(y, m)     # what the month helpers read
        if outs[0] != [0, len(mc)]:
            return [7, "rows", outs[0]]
        k = 1
        for i in range(-7, 7):
            for col in (-8, -7, -1, 0, 1, 2, 3, 4, 5, 6, 7):
                try:
                    exp = [0, mc[i][col]]
                except IndexError:
                    exp = [1, 4]
                if outs[k] != exp:
                    return [7, i, col, outs[k], exp]
                k += 1
        for d in (1, 15, calendar.monthrange(y, m)[1]):
            if outs[k] != [0, _dt.date(y, m, d).weekday()]:
                return [7, "weekday", d]
            k += 1
        return [0]
    if fn == "fmt":
        same_ym = int(a[0] == a[3] and a[1] == a[4])
        return [0, same_ym, same_ym]
    if fn == "z":
        o = outs[0]
        if o[0] == 0 and len(o) == 12:
            return [0] + o[1:5] + [a[1]] + o[7:11] + [o[5], o[6], o[11]]
        if o[0] == 1 and len(o) == 7:
            return [1, EXC_NAME.get(o[1], str(o[1])), 0, 0, 0, ""] + o[2:6] + [0, 0, o[6]]
        if o[0] == 1 and len(o) == 2:
            return [1, EXC_NAME.get(o[1], str(o[1]))]
        return [7] + o
    if fn == "mcfw":
        fw, y, m = a
        mc = calendar.Calendar(fw).monthdayscalendar(y, m)
        if outs[0] != [0, len(mc)]:
            return [7, "rows", outs[0]]
        k = 1
        for i in range(-7, 7):
            for col in MC_COLS:
                try:
                    exp = [0, mc[i][col]]
                except IndexError:
                    exp = [1, 4]
                if outs[k] != exp:
                    return [7, i, col, outs[k], exp]
                k += 1
        return [0]
    if fn == "fw":
        r = []
        for o in outs:
            if a[1] == 0:
                r += _pad(o, 4)
            else:
                r += (o + [0, a[6]]) if o[0] == 0 else _pad(o, 6)     # the DateTime variant: same day, 00:00, zone kept
        return r
    width = 4 if fn.startswith("d_") or (fn in ("nth0", "badwd") and a[0] == 0) else 6
    r = []
    for o in outs:
        r += _pad(o, width)
    return r


def same(c, m, r):
    return m == r


# ----------------------------------------------------------------------------- the property itself (stdlib only)
@functools.lru_cache(maxsize=4096)
def _unit_bounds(u, d):
    if u == 0:
        return _dt.date(d.year, d.month, 1), _dt.date(d.year, d.month, calendar.monthrange(d.year, d.month)[1])
    if u == 1:
        q = (d.month - 1) // 3
        return _dt.date(d.year, 3 * q + 1, 1), _dt.date(d.year, 3 * q + 3, calendar.monthrange(d.year, 3 * q + 3)[1])
    return _dt.date(d.year, 1, 1), _dt.date(d.year, 12, 31)


def _unit_days(u, d):
    return _days_between(*_unit_bounds(u, d))


@functools.lru_cache(maxsize=4096)
def _days_between(lo, hi):
    return [_dt.date.fromordinal(o) for o in range(lo.toordinal(), hi.toordinal() + 1)]


def _same_unit(u, a, b):
    lo, hi = _unit_bounds(u, a)
    return lo <= b <= hi


@functools.lru_cache(maxsize=200000)
def _expect(op, u, n, wd, d):
    """expected outcome by plain date arithmetic: ("date", date) | ("raise", {allowed names})"""
    o = d.toordinal()
    if op in (0, 1):
        w = d.weekday() if wd is None else wd
        step = 1 if op == 0 else -1
        for k in range(1, 8):
            t = o + step * k
            if not 1 <= t <= MAXORD:
                return ("raise", (3,))          # no such date exists: OverflowError from the date arithmetic
            if _dt.date.fromordinal(t).weekday() == w:
                return ("date", _dt.date.fromordinal(t))
    lo, hi = _unit_bounds(u, d)
    if wd is None:
        return ("date", lo if op == 2 else hi)
    occ = _occurrences(lo, hi, wd)
    if op == 2:
        return ("date", occ[0])
    if op == 3:
        return ("date", occ[-1])
    if 1 <= n <= len(occ):
        return ("date", occ[n - 1])
    return ("raise", (12,))                     # PendulumException (also for n <= 0: there is no such occurrence)


@functools.lru_cache(maxsize=65536)
def _occurrences(lo, hi, wd):
    """all days of [lo, hi] that fall on weekday wd, by stepping one day at a time"""
    return [x for x in _days_between(lo, hi) if x.weekday() == wd]


def _check_sub(exp, got, tod_exp=None, zone_exp=None):
    """got: canonical sub-result [status, ...]"""
    kind, v = exp
    if kind == "raise":
        if got[0] == 1 and got[1] in v:
            return None
        return f"expected an exception of kind {sorted(v)}, got {got}"
    if got[0] != 0 and got[1] == 15:
        return f"expected {v.isoformat()}, but the value returned is not a pendulum Date / DateTime"
    if got[0] != 0:
        return f"expected {v.isoformat()}, raised exception kind {got[1]}"
    if got[1:4] != [v.year, v.month, v.day]:
        return f"expected {v.isoformat()}, got {got[1:4]}"
    if tod_exp is not None and (got[4] != tod_exp or got[5] != zone_exp):
        return f"expected time-of-day {tod_exp}us zone {zone_exp}, got time-of-day {got[4]}us zone {got[5]}"
    return None


def _subcalls(c):
    """enumerate (op, u, n, wd, keep) of a composite case in the order of impl_run"""
    fn, a = c["fn"], c["args"]
    if fn in ("d_nav", "t_nav"):
        for wd in WDOPTS:
            for keep in ((0,) if fn == "d_nav" else (0, 1)):
                yield (0, 0, 0, wd, keep)
                yield (1, 0, 0, wd, keep)
    elif fn in ("d_fl", "t_fl"):
        for u in range(3):
            for wd in WDOPTS:
                yield (2, u, 0, wd, 0)
                yield (3, u, 0, wd, 0)
    elif fn in ("d_nth", "t_nth"):
        u, wds, ns = a[0], a[-2], a[-1]
        for wd in wds:
            for n in ns:
                yield (4, u, n, wd, 0)
    elif fn == "nth0":
        yield (4, a[1], a[2], a[6], 0)
    elif fn == "fw":
        for u in range(3):
            for wd in WDOPTS:
                yield (2, u, 0, wd, 0)
                yield (3, u, 0, wd, 0)
        for u in range(3):
            for wd in range(7):
                yield (4, u, 1, wd, 0)
                yield (4, u, 2, wd, 0)


def _nonexistent(zone, d, tod):
    import zoneinfo
    zi = zoneinfo.ZoneInfo(zone)
    naive = _dt.datetime(d.year, d.month, d.day) + _dt.timedelta(microseconds=tod)
    return not _exists(naive, zi)


def _normalized(zone, d, tod):
    """wall-clock fields of the instant that the naive time (d, tod) denotes in zone (gap -> moved forward by the gap)"""
    import zoneinfo
    zi = zoneinfo.ZoneInfo(zone)
    naive = _dt.datetime(d.year, d.month, d.day) + _dt.timedelta(microseconds=tod)
    back = naive.replace(tzinfo=zi, fold=0).astimezone(_dt.timezone.utc).astimezone(zi)
    return back.replace(tzinfo=None)


def _judge(c, backend, r):
    """-> (message, finding id or None) or None.  An unclassified failure takes precedence over a classified one."""
    fn, a = c["fn"], c["args"]
    if fn in ("mc", "badwd", "mcfw"):
        return None
    if r and r[0] == 1 and len(r) == 2 and isinstance(r[1], str):
        return (f"harness-level exception {r[1]}", None)
    if fn == "fmt":
        same_ym = int(a[0] == a[3] and a[1] == a[4])
        return None if r == [0, same_ym, same_ym] else (f"format equality {r} but same (year, month) = {same_ym}", None)
    if fn == "z":
        return _judge_zone(c, r)
    is_dt = fn.startswith("t_") or (fn == "nth0" and a[0] == 1) or (fn == "fw" and a[1] == 1)
    width = 6 if is_dt else 4
    fw = a[0] if fn == "fw" else 0
    if fn == "nth0":
        y, m, d = a[3:6]
        tod, z = 45296000001, 1
    elif fn == "fw":
        y, m, d = a[2:5]
        tod, z = (a[5], a[6]) if is_dt else (None, None)
    elif fn in ("d_nth", "t_nth"):
        y, m, d = a[1:4]
        tod, z = (a[4], a[5]) if is_dt else (None, None)
    else:
        y, m, d = a[0:3]
        tod, z = (a[3], a[4]) if is_dt else (None, None)
    inst = _dt.date(y, m, d)
    known_fail = None
    for i, (op, u, n, wd, keep) in enumerate(_subcalls(c)):
        got = r[i * width:(i + 1) * width]
        exp = _expect(op, u, n, wd, inst)
        why = _check_sub(exp, got, (tod if keep else 0) if is_dt else None, z)
        if why is None:
            continue
        msg = (f"after calendar.setfirstweekday({fw}): " if fn == "fw" else "") + \
              f"{'DateTime' if is_dt else 'Date'}({y},{m},{d}).{['next','previous','first_of','last_of','nth_of'][op]}" \
              f"(unit={UNITS[u]}, n={n}, wd={wd}, keep_time={bool(keep)}): {why}"
        fid = None
        if op == 4 and n >= 1 and exp[0] == "raise" and got[0] == 1 and got[1] == 3 and y == 9999:
            # (finding now FIXED: classifying it here makes a regression show up under its id, and the runner reports a
            # reproduced fixed finding as a VIOLATION)  the loop of dt.next() walks beyond 9999-12-31 before the unit check
            # and the OverflowError of the date arithmetic escapes from nth_of
            first = next(x for x in _unit_days(u, inst) if x.weekday() == wd)
            if first.toordinal() + 7 * (n - 1) > MAXORD:
                fid = "nth-of-overflow-at-max-year"
        if op == 4 and n <= 0 and got[0] == 0 and got[1:4] == [_unit_bounds(u, inst)[0].year, _unit_bounds(u, inst)[0].month, 1]:
            fid = "nth-of-nonpositive-returns-first-day"
        if fw != 0 and wd is not None and (op in (2, 3) or (op == 4 and n == 1)):
            # (finding now FIXED: classifying it here makes a regression show up under its id, and the runner reports a
            # reproduced fixed finding as a VIOLATION)  calendar.setfirstweekday(fw) is in force: the month helpers used to
            # index calendar.monthcalendar's rows (laid out from weekday fw) with the requested weekday and so answered for
            # weekday (wd + fw) mod 7 -- exactly that answer, at 00:00 in the same zone, is the listed finding; anything else
            # is not
            if _check_sub(_expect(op, u, n, (wd + fw) % 7, inst), got, 0 if is_dt else None, z) is None:
                fid = "calendar-firstweekday"
        if fid is None:
            return (msg, None)
        known_fail = known_fail or (msg, fid)
    return known_fail


def _touched(op, zone, inst, tod, u, n, wd, keep, exp):
    """The local times whose non-existence makes the UNCHANGED code go wrong, per call site (a predicate on the input only):
    only these excuse a wrong answer as the listed finding; everything else must be exact.
      next/previous : start_of("day") of the instance (unless keep_time) and every walked day up to the target at the
                      walked time of day (a missing one is materialised one hour later and carried along);
      first_of/last_of : the anchor the month helper works on -- the instance (month), on(y, first/last month, 1) (quarter),
                      set(month=1|12) (year), each at the instance's time and at 00:00 -- and the target at 00:00;
      nth_of (n != 1): the same anchors of first_of(unit), the days on which dt.next(wd) is called or lands (the unit start and
                      the occurrences of wd up to the n-th: next() restarts with start_of("day") there, never the days in
                      between), and the target rebuilt from self (instance's time, then 00:00)."""
    y = inst.year
    tgt = exp[1] if exp[0] == "date" else None
    pts = []
    if op in (0, 1):
        if not keep:
            pts.append((inst, 0))
        if tgt:
            step = 1 if op == 0 else -1
            o = inst.toordinal()
            while o != tgt.toordinal():
                o += step
                pts.append((_dt.date.fromordinal(o), tod if keep else 0))
        return pts
    lo, hi = _unit_bounds(u, inst)
    if op in (2, 3) or (op == 4 and n == 1):
        first = op != 3
        if u == 0:
            anchor = inst
        elif u == 1:
            anchor = _dt.date(y, lo.month if first else hi.month, 1)
            pts.append((anchor, tod))
        else:
            anchor = _dt.date(y, 1 if first else 12, inst.day)
            pts.append((anchor, tod))
        pts.append((anchor, 0))
        if tgt:
            pts.append((tgt, 0))
        return pts
    if u == 0:
        pts += [(inst, 0), (lo, 0)]
    elif u == 1:
        pts += [(_dt.date(y, hi.month, 1), tod), (lo, tod), (lo, 0)]
    else:
        pts += [(_dt.date(y, 1, inst.day), tod), (_dt.date(y, 1, inst.day), 0), (lo, 0)]
    first_occ = lo.toordinal() + (wd - lo.weekday()) % 7
    for i in range(max(n, 0)):
        if first_occ + 7 * i <= MAXORD:
            pts.append((_dt.date.fromordinal(first_occ + 7 * i), 0))
    if tgt:
        pts += [(tgt, tod), (tgt, 0)]
    return pts


def _judge_zone(c, r):
    op, zone, y, m, d, tod, fold, u, n, hw, wd, keep = c["args"]
    wd = wd if hw else None
    if r[0] == 0 or len(r) > 6:
        inst = _dt.date(r[6], r[7], r[8])    # the instance as constructed (a time inside a gap is moved by the constructor)
        itod = r[9]
    else:
        return (f"harness-level exception {r[1]}", None)
    exp = _expect(op, u, n, wd, inst)
    why = None
    if exp[0] == "raise":
        if not (r[0] == 1 and EXC.get(r[1], 14) in exp[1]):
            why = f"expected an exception of kind {sorted(exp[1])}, got {r[:5]}"
    elif r[0] != 0:
        why = f"expected {exp[1].isoformat()}, raised {r[1]}"
    else:
        want = _normalized(zone, exp[1], itod if keep else 0)
        got = _dt.datetime(r[1], r[2], r[3]) + _dt.timedelta(microseconds=r[4])
        if got != want or r[5] != zone:
            why = f"expected {want.isoformat()} [{zone}], got {got.isoformat()} [{r[5]}]"
    if why is None:
        return None
    msg = (f"DateTime({inst.isoformat()} +{itod}us, tz={zone}, fold={fold})."
           f"{['next','previous','first_of','last_of','nth_of'][op]}(unit={UNITS[u]}, n={n}, wd={wd}, keep_time={bool(keep)}): {why}")
    for (dd, tt) in _touched(op, zone, inst, itod, u, n, wd, keep, exp):
        if _nonexistent(zone, dd, tt):
            return (msg, "skipped-midnight-day")
    return (msg, None)


def oracle(c, backend, r):
    j = _judge(c, backend, r)
    return None if j is None else j[0]


def known(c, backend, r):
    j = _judge(c, backend, r)
    return None if j is None else j[1]


LEVEL_TEXT = ("Machine-checked Coq theorems about an executable model of Date/DateTime next, previous, first_of, last_of, nth_of "
              "(all years up to the 1..9999 range check, 7 weekdays, every n, 3 units): closed forms in ordinals, nearest/least/greatest "
              "characterisations, loop fuel 7 suffices, nth_of = first + 7(n-1) inside the unit else PendulumException and no other exception, "
              "at full strength for every date of years 1..9999 (the year-9999 OverflowError defect is repaired; a regression is reported as a "
              "violation), DateTime variants equal the Date ones with time 00:00 (kept iff keep_time) and the zone kept; the model is tied "
              "to /repo by a boundary-heavy correspondence run in both backends; an independent datetime.date oracle incl. tz-database zones "
              "with skipped midnights.  DateTime in tz-database zones has its own model (every instance goes through Timezone.convert): proved "
              "equal to the Date functions at 00:00 / the kept time in every zone that skips neither midnight nor the instance's time of day "
              "(all fixed offsets), nth_of never hands out the walked instance (its answer went through start_of('day') last), refuted with "
              "witnesses on the America/Sao_Paulo table where a midnight is skipped (finding skipped-midnight-day).  The calls under a "
              "process-wide calendar.setfirstweekday(fw) are modelled with fw as an argument and proved to be the Date functions for EVERY "
              "fw, so first_of/last_of/nth_of return the least/greatest/n-th day on the requested weekday under every configuration (the "
              "calendar.monthcalendar defect, finding calendar-firstweekday, is repaired: the helpers build calendar.Calendar(MONDAY); a "
              "regression is reported as a violation).")
DESIGN_REF = "DESIGN.md section 4 C16"
LEVEL_NOTE = ("Trusted: Coq kernel+VM, the hand model Model/Weekday.v (tied by correspondence every run, both backends; next/previous also by the translation "
              "Gen/WeekdayNav.v = model, Proofs/C16Gen.v), Spec/Cal.v as a model of "
              "CPython's datetime/calendar (validated every run), extraction+driver (cross-checked with vm_compute). DateTime in tz-database zones: "
              "Model/WeekdayZone.v (z_* functions, inside the model; tied by the zone-* streams, both backends; the known() region of finding "
              "skipped-midnight-day is now also bounded by the model: a result that differs from the model of the defect is a violation). "
              "calendar.setfirstweekday: inside the model (fw_* functions, stream firstweekday, every setting 0..6 in both backends; the model of "
              "calendar.Calendar(fw) that they read at fw = MONDAY is validated against the stdlib for every fw). Finding calendar-firstweekday is fixed "
              "(the month helpers read calendar.Calendar(calendar.MONDAY).monthdayscalendar instead of calendar.monthcalendar): its former "
              "first_of_under_firstweekday / *_refuted / *_default_firstweekday_partial theorems are replaced by first_of_under_any_firstweekday, "
              "last_of_under_any_firstweekday, nth_of_under_any_firstweekday, first_of_spec_under_any_firstweekday, "
              "last_of_spec_under_any_firstweekday; the former witnesses (2024-05-17 under every setting) are deterministic cases of the "
              "firstweekday stream. Oracle-only: two of three year-unit nth_of zone "
              "cases of the quick tier (model budget; thorough: seven of eight year-unit, three of four quarter-unit, one of two month-unit nth_of and next/previous). Finding nth-of-overflow-at-max-year is fixed (nth_of catches the "
              "OverflowError of the stepping loop): its former _refuted/_partial theorems are replaced by nth_of_raises_pendulum_exception, "
              "nth_of_raises_nothing_else, nth_of_returns_nth_or_raises; the deterministic nth-max-year stream keeps the region exercised.")
TECHNIQUE = ("Coq proof (lia with mod 7, induction on loop fuel / n, calendar bijection lemmas) over a hand model whose next/previous bodies are "
             "proved equal to the translation regenerated from /repo each run + differential correspondence + stdlib oracle")
