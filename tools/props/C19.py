"""C19 — Interval.range() steps from the start without drift and stays inside."""
from __future__ import annotations

import calendar
import datetime as _dt
import hashlib
import random

from vlib import tzcases as T
from vlib import zones

ID = "C19"
PROPS = "Props/C19.v"
UNITS = ["years", "months", "weeks", "days", "hours", "minutes", "seconds", "microseconds"]
RULE = ("generated: intervals (forward / inverted / absolute) over Date, naive DateTime and aware DateTime (25 odd zones incl. the ones that skipped a whole day, "
        "+ seed-rotated others, UTC, fixed offsets incl. sub-minute ones, start and end in different zones) x 8 units x step 1..12, spans of 0..60 steps and long "
        "ones up to 10^4 steps, starts on days 29-31 for month/year stepping, intervals laid across every kind of transition (a step landing inside a gap, "
        "an end inside a repeated hour with fold 0/1, whole-day gaps), MIXED-ZONE intervals laid across every sampled transition of one end's zone (mixed-zones-overlap / "
        "mixed-zones-gap: start in zone A, end = an instant in / next to the repeated or skipped stretch of A expressed in UTC, a fixed offset or another zone: first pass, "
        "second pass, boundaries +-1us; start a few steps away on or off the grid that reaches the end; forward / inverted / swapped / absolute; fixed-length and wall-clock units; "
        "inside the Coq model: same dispatch entries, theorems range_mixed_zones_*), ends exactly reachable / one microsecond off, values next to 0001-01-01 and 9999-12-31; "
        "__iter__; `x in interval` for x at start/end +-1us, random x and x in other zones; every yielded x tested with `in`; single add/subtract calls with "
        "amounts up to 12*10^4; fixed streams witness-inverted / witness-limit: the witnesses of the two repaired findings (inverted intervals of every kind with every value they yield, "
        "their ends and the neighbours of the ends tested with `in`; intervals ending within one step of 9999-12-31 / 0001-01-01); "
        "century-feb-months / century-feb-years / century-feb-shift: month and year stepping THROUGH February of EVERY century year 100..9900 (all 99 in every run) and of the leap years "
        "next to them (C-4, C+4): starts on days 28..31 (year stepping: 29 February) placed 1..4 steps before / after that February, ends 0..5 steps beyond it, Date / naive / UTC / fixed offsets / zones, "
        "both backends, forward / inverted / swapped / absolute, the single add / subtract that lands on the February, `in` for the yielded values; inside the Coq model (same dispatch entries range / member / shift; "
        "theorems month_year_step_total_partial_plain, range_month_year_stops_only_outside_calendar_partial_plain, range_century_february_witness): a leap rule wrong for one century year in one backend makes the "
        "step raise ValueError, which range() takes for the limit of the calendar and stops silently — the independent sequence (calendar.monthrange) then has more values.  Result = interval start/end/invert after construction + every yielded (wall, fold, utcoffset) + how the iteration ended "
        "(long lists: first/last 20, length, sha256, first non-monotone index).  non-trivial = every distinct (interval, unit, step) or (interval, x) input.")
EXHAUSTIVE = {"quick": False, "thorough": False}
VM_SUBSET = 60
TRUSTED = ["zoneinfo.ZoneInfo + tzdata and CPython's date/datetime/calendar arithmetic are the specification side of the oracle; Spec/Zone.v models zoneinfo's lookups (validated by C02's zone-spec stream); "
           "tables reach the model as windows covering the whole interval plus one step and 3 days on both sides",
           "the theorems about aware values assume wf_zone of the table (evaluated on every window by C02's thorough run, not proved of tzdata)"]
ASSUMPTIONS = ["comparison of two aware datetimes that share the tzinfo object compares the wall clock fields (CPython); pendulum caches Timezone objects per name, so the harness gives equal zone specs the same identity",
               "step sizes are positive (amount = 0 never terminates, negative amounts are outside the property)"]
CAP_DEFAULT = 400
FULL_LIMIT = 120        # lists up to this many values are returned in full


# ----------------------------------------------------------------------------- small stdlib helpers
def _tz(spec):
    return None if spec is None else T.ref_zone(spec)


def _offs(tz, W):
    """utcoffset (s) of the wall value W with fold 0 and fold 1"""
    return T.off_s(T.native(W, 0, tz)), T.off_s(T.native(W, 1, tz))


def _valid_wall(spec, W):
    if spec is None or isinstance(spec, int):
        return True
    o0, o1 = _offs(_tz(spec), W)
    return o1 <= o0


def _fix_wall(spec, W):
    """move a skipped wall value forward until it exists"""
    n = 0
    while not _valid_wall(spec, W) and n < 5:
        W += 3600 * T.MEG * 7
        n += 1
    return W


UNIT_US = {4: 3600 * T.MEG, 5: 60 * T.MEG, 6: T.MEG, 7: 1}
UNIT_SPAN_S = {0: 366 * 86400, 1: 31 * 86400, 2: 7 * 86400, 3: 86400, 4: 3600, 5: 60, 6: 1, 7: 1}


def naive_shift(W, unit, a):
    """wall value W moved by a units on its own clock, independent of pendulum: months-since-year-0 + clamp for years/months,
    plain addition otherwise; None outside 0001-01-01 .. 9999-12-31"""
    if unit in (0, 1):
        d = _dt.date.fromordinal(W // T.US_DAY + 1)
        t = d.year * 12 + (d.month - 1) + a * (12 if unit == 0 else 1)
        y, m = t // 12, t % 12 + 1
        if not 1 <= y <= 9999:
            return None
        day = min(d.day, calendar.monthrange(y, m)[1])
        return (_dt.date(y, m, day).toordinal() - 1) * T.US_DAY + W % T.US_DAY
    if unit in (2, 3):
        W2 = W + a * (7 if unit == 2 else 1) * T.US_DAY
    else:
        W2 = W + a * UNIT_US[unit]
    return W2 if 0 <= W2 <= T.MAX_WALL else None


def zone_norm(spec, W):
    """the documented construction rule with the default fold 1: (wall, fold or None when it does not matter, utcoffset)"""
    if isinstance(spec, int):
        return W, None, spec
    tz = _tz(spec)
    o0, o1 = _offs(tz, W)
    if o1 > o0:
        W2 = W + (o1 - o0) * T.MEG
        if not 0 <= W2 <= T.MAX_WALL:
            return None
        p0, p1 = _offs(tz, W2)
        return W2, (None if p0 == p1 else 0), p0
    return W, (1 if o0 != o1 else None), o1


def inst_of(spec, W, f):
    if spec is None:
        return W
    if isinstance(spec, int):
        return W - spec * T.MEG
    o = _offs(_tz(spec), W)[1 if f else 0]
    return W - o * T.MEG


def expected_value(kind, spec, W0, f0, unit, a):
    """the value start.add(unit=a) computed independently: (wall, fold|None, offset, instant) or None (not representable) or 'TypeError'"""
    if kind == 0:
        if unit > 3:
            return "TypeError"
        w = naive_shift(W0, unit, a)
        return None if w is None else (w, 0, 0, w)
    if kind == 1:
        w = naive_shift(W0, unit, a)
        return None if w is None else (w, 1, 0, w)
    if unit <= 3:
        w = naive_shift(W0, unit, a)
        if w is None:
            return None
        r = zone_norm(spec, w)
        if r is None:
            return None
        return r[0], r[1], r[2], r[0] - r[2] * T.MEG
    U = inst_of(spec, W0, f0) + a * UNIT_US[unit]
    if not 0 <= U <= T.MAX_WALL:
        return None
    if isinstance(spec, int):
        w = U + spec * T.MEG
        return (w, None, spec, U) if 0 <= w <= T.MAX_WALL else None
    w, f, o = T.ref_render(_tz(spec), U)
    if not 0 <= w <= T.MAX_WALL:
        return None
    amb = len({*_offs(_tz(spec), w)}) > 1
    return w, (f if amb else None), o, U


# ----------------------------------------------------------------------------- cases
def _rw(rnd, lo_year=1800, hi_year=2200):
    o = rnd.randrange(_dt.date(lo_year, 1, 1).toordinal(), _dt.date(hi_year, 12, 31).toordinal())
    return (o - 1) * T.US_DAY + rnd.choice([0, 0, 12 * 3600, rnd.randrange(86400)]) * T.MEG + rnd.choice([0, 0, 0, rnd.randrange(T.MEG)])


def _range_case(stream, kind, sa, sb, Ws, fs, We, fe, absolute, unit, amount, cap=CAP_DEFAULT):
    return {"stream": stream, "fn": "range", "args": [kind, sa, sb, Ws, fs, We, fe, absolute, unit, amount, cap]}


def _end_for(rnd, kind, spec, Ws, fs, unit, amount, steps, sign):
    """an end `steps` steps away from the start (exactly reachable, or off by a little)"""
    a = sign * steps * amount
    ev = expected_value(kind if kind != 0 or unit <= 3 else 1, spec, Ws, fs, min(unit, 7), a)
    if ev is None or ev == "TypeError":
        return None
    W, f = ev[0], (ev[1] if ev[1] is not None else 1)
    r = rnd.randrange(6)
    if r == 0:
        W += 1 if kind else T.US_DAY
    elif r == 1:
        W -= 1 if kind else T.US_DAY
    elif r == 2:
        W += rnd.randrange(1, 86400) * T.MEG if kind else T.US_DAY * rnd.randrange(1, 3)
    if kind == 0:
        W -= W % T.US_DAY
    if not 0 <= W <= T.MAX_WALL:
        return None
    if kind == 2:
        W = _fix_wall(spec, W)
    return W, f


def _variants(rnd, c):
    """the same two endpoints as forward, inverted (swapped) and absolute intervals"""
    kind, sa, sb, Ws, fs, We, fe, _a, unit, amount, cap = c["args"]
    out = [c]
    r = rnd.randrange(4)
    if r == 0:
        out.append(_range_case(c["stream"], kind, sb, sa, We, fe, Ws, fs, 0, unit, amount, cap))
    elif r == 1:
        out.append(_range_case(c["stream"], kind, sb, sa, We, fe, Ws, fs, 1, unit, amount, cap))
    elif r == 2:
        out.append(_range_case(c["stream"], kind, sa, sb, Ws, fs, We, fe, 1, unit, amount, cap))
    return out


def _day29(rnd):
    y = rnd.randrange(1890, 2110)
    m = rnd.randrange(1, 13)
    d = min(rnd.choice([29, 30, 31, 31, 28]), calendar.monthrange(y, m)[1])
    return (_dt.date(y, m, d).toordinal() - 1) * T.US_DAY


def _zones_for(tier, rnd):
    return zones.pick_zones(rnd, 40 if tier == "quick" else 120)


FIXED = [0, 3600, -3600, 19800, 20700, -12600, 86340, -86340, 1, -1, 45 * 60, 14 * 3600]
WHOLE_DAY = [("Pacific/Kiritimati", (1994, 12, 31)), ("Pacific/Apia", (2011, 12, 30)), ("Pacific/Kwajalein", (1993, 8, 21)),
             ("Pacific/Enderbury", (1994, 12, 31)), ("Pacific/Fakaofo", (2011, 12, 30)), ("Pacific/Kanton", (1994, 12, 31))]


def _render(spec, U):
    """the instant U (microseconds since 0001-01-01 UTC) expressed in the zone `spec`: (wall, fold)"""
    if isinstance(spec, int):
        return U + spec * T.MEG, 0
    w, f, _o = T.ref_render(_tz(spec), U)
    return w, f


FINE_STEPS = [(4, 1), (4, 1), (4, 2), (5, 30), (5, 30), (5, 15), (5, 10), (5, 7), (5, 1), (6, 1800), (6, 600), (6, 7), (7, 900 * T.MEG), (7, 250000), (7, 999999)]
WALL_STEPS = [(3, 1), (3, 1), (3, 2), (2, 1), (1, 1), (0, 1)]


def _mixed_transition_cases(rnd, zs, big):
    """Intervals whose start is in zone A and whose end is the same kind of value in another tzinfo B (UTC / fixed offset / other zone), laid across a
    transition of A at UTC instant UT with |offset change| = L: the end is an instant within [UT - L - step, UT + L + step] (boundaries, +-1us, random:
    first pass / second pass of a repeated hour, both sides of a gap), the start lies a few steps before it (after it for inverted intervals), on the
    grid that reaches the end exactly or off it.  _variants adds the swapped pair (the transition then belongs to the END's zone) and absolute ones.
    With different tzinfo objects every comparison is between instants, so the unchanged library is exact here; a change that re-expresses one end in
    the other's zone (or compares wall clocks) shows up as values beyond the end / a range that stops early."""
    out = []
    others = ["UTC"] + FIXED
    for name in zs:
        for (tt, o_pre, o_post) in T.transition_probes(name, rnd, per_zone=5 if not big else 15):
            UT = (tt + T.EPOCH_S) * T.MEG
            L = abs(o_post - o_pre) * T.MEG
            a = UT + min(o_pre, o_post) * T.MEG         # the repeated / skipped wall values are [a, a + L)
            if not (T.US_DAY * 800 < a < T.MAX_WALL - T.US_DAY * 800) or L == 0:
                continue
            gap = o_post > o_pre
            for rep in range((2 if gap else 5) if not big else (3 if gap else 6)):
                zb_ = rnd.choice(others if rnd.random() < 0.6 else zs)
                if repr(zb_) == repr(name):
                    zb_ = "UTC" if name != "UTC" else 3600
                wall_unit = rnd.random() < 0.2
                unit, amount = rnd.choice(WALL_STEPS if wall_unit else FINE_STEPS)
                down = rnd.random() < 0.35
                sgn = -1 if down else 1
                step = amount * (UNIT_SPAN_S[unit] * T.MEG if wall_unit else UNIT_US[unit])
                delta = rnd.choice([-L, -L - 1, -L + 1, -1, 0, 1, L - 1, L, L + 1, -L // 2, L // 2, rnd.randrange(-L, L + 1), rnd.randrange(-L, L + 1),
                                    rnd.randrange(-L, L + 1), rnd.randrange(-L - min(step, T.US_DAY), L + min(step, T.US_DAY) + 1)])
                Ue = UT + delta
                back = rnd.randrange(1, 4)
                if wall_unit:
                    # a start from which step `back` lands on a repeated / skipped wall value
                    target = a + rnd.choice([0, L // 2, L - 1, rnd.randrange(L)])
                    Ws = naive_shift(target, unit, -sgn * back * amount)
                    if Ws is None:
                        continue
                    Ws, fs = _fix_wall(name, Ws), 1
                else:
                    m = rnd.choice([back, back + rnd.randrange(5), min(60, 2 * L // step + back)])
                    Us = Ue - sgn * (m * step + rnd.choice([0, 0, 0, rnd.randrange(step), step // 2]))
                    Ws, fs = _render(name, Us)
                We, fe = _render(zb_, Ue)
                if not (0 <= Ws <= T.MAX_WALL and 0 <= We <= T.MAX_WALL):
                    continue
                out += _variants(rnd, _range_case("mixed-zones-" + ("gap" if gap else "overlap"), 2, name, zb_, Ws, fs, We, fe, 0, unit, amount))
    return out


CENTURIES = list(range(100, 10000, 100))      # the 99 century years of the calendar: 24 of them leap (400, 800, ... 9600), 75 not
CF_ZONES = ["UTC", 3600, -12600, "Europe/Paris", "America/New_York", "Asia/Tokyo", "Australia/Lord_Howe"]
CF_YEAR_STEPS = {4: [1, 2, 4], 8: [1, 2, 4, 8], 12: [1, 2, 3, 4, 6, 12], 16: [4, 8, 16], 400: [100, 200, 400, 4]}


def _ymd_wall(y, m, d):
    return (_dt.date(y, m, d).toordinal() - 1) * T.US_DAY


def _century_feb_cases(rnd, zs, big):
    """Month / year stepping THROUGH February of every century year C = 100 .. 9900 and of the leap years next to it (C - 4, C + 4): a start on day 28..31
    (29..31 unless the start month is itself a 28-day February) placed `back` steps before (after, for inverted intervals) February of the target year, so
    that step `back` is clamped to the last day of that February — the 28th in 75 of the century years, the 29th in the 24 leap ones and in C -+ 4 — and the
    end lies 0..5 steps beyond it (exactly reachable or a little off).  Year stepping starts on a 29 February.  Date, naive and aware values (UTC, fixed
    offsets, zones), both backends, forward / inverted / swapped / absolute, plus the single add / subtract that lands on the February and `in` for every
    yielded value.  A leap rule that is wrong for ANY century year (in either backend) makes a step raise ValueError (day 29 of a 28-day February: the range
    then stops silently before February, values inside the interval are missing and a reachable end is not yielded) or clamps to the 28th of a 29-day
    February (k-th value differs): the independent sequence (calendar.monthrange) has the other length / value.
    Every century year is visited in every run (quick: 5 intervals + 2 single shifts per century year)."""
    out = []
    tod_choices = [0, 12 * 3600 * T.MEG, 23 * 3600 * T.MEG + 59 * 60 * T.MEG + 59 * T.MEG + 999999]
    reps = 1 if not big else 6
    for ci, C in enumerate(CENTURIES):
        for rep in range(reps):
            # (target year, unit): February of C by months and by years for a Date and for a DateTime, one of the neighbouring leap years
            plan = [(C, 1, 0), (C, 0, 0), (C, 1, None), (C, 0, None), (rnd.choice([C - 4, C + 4]), rnd.randrange(2), None)]
            for (Y, unit, kind) in plan:
                if kind is None:
                    kind = rnd.choice([1, 2, 2])
                spec = None
                if kind == 2:
                    spec = rnd.choice(CF_ZONES + [rnd.choice(zs)]) if zs else rnd.choice(CF_ZONES)
                down = rnd.random() < 0.35
                sgn = -1 if down else 1
                if unit == 1:
                    amount, back = rnd.randrange(1, 13), rnd.randrange(1, 5)
                    if rnd.random() < 0.15:
                        amount, back = 12, 4          # start on 29 February of the leap year four years away
                    t = Y * 12 + 1 - sgn * back * amount
                    ys, ms = t // 12, t % 12 + 1
                    if not 1 <= ys <= 9999:
                        continue
                    dim = calendar.monthrange(ys, ms)[1]
                    ds = min(dim, rnd.choice([29, 30, 31, 31, 31, 28]))
                else:
                    dist = rnd.choice([4, 4, 8, 12, 16] + ([400] if Y % 400 == 0 else []))
                    for dist in (dist, 4, 8, 12):
                        ys = Y - sgn * dist
                        if 1 <= ys <= 9999 and calendar.isleap(ys):
                            break
                    else:
                        continue
                    amount = rnd.choice(CF_YEAR_STEPS[dist])
                    back = dist // amount
                    ms, ds = 2, 29
                Ws = _ymd_wall(ys, ms, ds) + (0 if kind == 0 else rnd.choice(tod_choices + [rnd.randrange(T.US_DAY)]))
                fs = 0 if kind == 0 else 1
                if kind == 2:
                    Ws = _fix_wall(spec, Ws)
                after = rnd.choice([0, 1, 1, 2, 3, 5])
                e = _end_for(rnd, kind, spec, Ws, fs, unit, amount, back + after, sgn)
                if e is None:
                    continue
                nm = "century-feb-" + UNITS[unit]
                c = _range_case(nm, kind, spec, spec, Ws, fs, e[0], 0 if kind == 0 else e[1], 0, unit, amount, 60)
                vs = _variants(rnd, c)
                out += vs
                r = rnd.random()
                if r < 0.25:
                    out.append({"stream": nm, "fn": "member", "args": list(rnd.choice(vs)["args"])})
            # the single call that lands on the February of C (add from before it, subtract from after it), days 29..31
            for m in (0, 1):
                kind = rnd.choice([0, 1, 2])
                spec = rnd.choice(CF_ZONES) if kind == 2 else None
                unit = rnd.randrange(2)
                sgn = -1 if m else 1
                if unit == 1:
                    k = rnd.choice([1, 2, 3, 5, 7, 11, 13, 48, 1200 - 11])
                    t = C * 12 + 1 - sgn * k
                    ys, ms = t // 12, t % 12 + 1
                    if not 1 <= ys <= 9999:
                        k = 1
                        ys, ms = (C, 1) if sgn == 1 else (C, 3)
                    ds = min(calendar.monthrange(ys, ms)[1], rnd.choice([29, 30, 31]))
                else:
                    k = rnd.choice([4, 4, 8, 96] + ([400] if C % 400 == 0 else []))
                    ys, ms, ds = C - sgn * k, 2, 29
                    if not (1 <= ys <= 9999 and calendar.isleap(ys)):
                        k, ys = 4, C - sgn * 4
                W = _ymd_wall(ys, ms, ds) + (0 if kind == 0 else rnd.choice(tod_choices))
                if kind == 2:
                    W = _fix_wall(spec, W)
                out.append({"stream": "century-feb-shift", "fn": "shift", "args": [kind, spec, W, 0 if kind == 0 else 1, m, unit, k]})
    return out


def _witness_cases():
    """inverted-interval-contains-nothing: interval(2020-01-10, 2020-01-05) and datetime / zone / mixed-zone siblings: every value the interval yields
    (its own ends among them) is `in` it, the neighbours of the ends are not, an x inside expressed in a third zone is"""
    out = []
    day = lambda y, m, d_: (_dt.date(y, m, d_).toordinal() - 1) * T.US_DAY
    hi, lo = day(2020, 1, 10), day(2020, 1, 5)
    noon = 12 * 3600 * T.MEG
    for kind, sa, sb, Ws, We in [(0, None, None, hi, lo), (1, None, None, hi + noon, lo + noon + 1), (2, "Europe/Paris", "Europe/Paris", hi + noon, lo + noon),
                                 (2, "UTC", "UTC", hi, lo), (2, 19800, 19800, hi + noon, lo), (2, "America/New_York", "UTC", hi + noon, lo + noon),
                                 (2, "Pacific/Apia", 3600, hi, lo + 1)]:
        f = 1 if kind else 0
        units = [(3, 1), (3, 2), (2, 1)] + ([(4, 7), (5, 90)] if kind else [(1, 1)])
        for ab in (0, 1):
            for unit, amount in units:
                out.append(_range_case("witness-inverted", kind, sa, sb, Ws, f, We, f, ab, unit, amount))
                out.append({"stream": "witness-inverted", "fn": "member", "args": [kind, sa, sb, Ws, f, We, f, ab, unit, amount, CAP_DEFAULT]})
            out.append({"stream": "witness-inverted", "fn": "iter", "args": [kind, sa, sb, Ws, f, We, f, ab, 600]})
            step = T.US_DAY if kind == 0 else 1
            for Wx in (Ws, We, Ws + step, Ws - step, We + step, We - step, (Ws + We) // 2 - ((Ws + We) // 2) % step):
                for sx in ([sa] if kind != 2 else [sa, sb, "Asia/Tokyo", -12600]):
                    wx = Wx
                    if kind == 2 and sx != sa:
                        U = inst_of(sa, Wx, 1)
                        wx = U + sx * T.MEG if isinstance(sx, int) else T.ref_render(_tz(sx), U)[0]
                    out.append({"stream": "witness-inverted", "fn": "contains", "args": [kind, sa, sb, sx, Ws, f, We, f, ab, wx, f]})
    # raises-at-calendar-limit: interval(9999-12-30, 9999-12-31).range('days') and siblings whose value after the last one is not representable:
    # the iteration has to stop after the last value (it used to raise OverflowError / ValueError there)
    top, sec = day(9999, 12, 31), T.MEG
    for kind, spec, Ws, We, unit, amount in [(0, None, top - T.US_DAY, top, 3, 1), (0, None, top - 3 * T.US_DAY, top, 2, 1), (0, None, day(9999, 10, 31), top, 1, 1),
                                             (0, None, day(9990, 2, 28), top, 0, 3), (0, None, day(1, 2, 1), 0, 1, 1), (0, None, day(1, 1, 3), 0, 3, 2), (0, None, day(4, 2, 29), 0, 0, 1),
                                             (1, None, T.MAX_WALL - 3 * 3600 * sec, T.MAX_WALL, 4, 1), (1, None, T.MAX_WALL - 5, T.MAX_WALL, 7, 2), (1, None, T.MAX_WALL - 90 * sec, T.MAX_WALL - 1, 5, 1),
                                             (1, None, 3 * 3600 * sec, 0, 4, 1), (1, None, 7, 0, 7, 3), (1, None, day(9999, 12, 1) + noon, T.MAX_WALL, 2, 1),
                                             (2, "UTC", T.MAX_WALL - 3 * 3600 * sec, T.MAX_WALL, 4, 1), (2, "UTC", 2 * T.US_DAY, 0, 3, 1), (2, "UTC", T.MAX_WALL - 40 * T.US_DAY, T.MAX_WALL, 1, 1)]:
        f = 1 if kind else 0
        out.append(_range_case("witness-limit", kind, spec, spec, Ws, f, We, f, 0, unit, amount, 60))
        out.append(_range_case("witness-limit", kind, spec, spec, We, f, Ws, f, 1, unit, amount, 60))
        out.append({"stream": "witness-limit", "fn": "member", "args": [kind, spec, spec, Ws, f, We, f, 0, unit, amount, 60]})
        if abs(We - Ws) < 500 * T.US_DAY:
            out.append({"stream": "witness-limit", "fn": "iter", "args": [kind, spec, spec, Ws, f, We, f, 0, 600]})
    return out


def cases(tier, seed):
    rnd = random.Random(seed)
    out = []
    big = tier != "quick"
    zs = _zones_for(tier, rnd)
    avail = set(zones.names())

    # A/B: dates and naive datetimes, every unit, every step 1..12
    for kind in (0, 1):
        nm = "date" if kind == 0 else "naive"
        for unit in range(8):
            for amount in range(1, 13):
                for rep in range(3 if not big else 10):
                    if unit <= 1 and rep != 1:
                        Ws = _day29(rnd) + (0 if kind == 0 else rnd.choice([0, 12 * 3600 * T.MEG, rnd.randrange(T.US_DAY)]))
                    else:
                        Ws = _rw(rnd)
                        if kind == 0:
                            Ws -= Ws % T.US_DAY
                    steps = rnd.choice([0, 1, 2, 3, 5, 11, 12, 13, 24, 37, 60])
                    sign = rnd.choice([1, 1, -1])
                    e = _end_for(rnd, kind, None, Ws, 1, unit, amount, steps, sign)
                    if e is None:
                        continue
                    fs = 0 if kind == 0 else rnd.choice([1, 1, 0])
                    out += _variants(rnd, _range_case(f"{nm}-range", kind, None, None, Ws, fs, e[0], 0 if kind == 0 else e[1], 0, unit, amount))
    # C: zones, intervals laid across transitions
    for name in zs:
        trs = T.transition_probes(name, rnd, per_zone=6 if not big else 30)
        for (tt, o_pre, o_post) in trs:
            a = (tt + T.EPOCH_S + min(o_pre, o_post)) * T.MEG
            b = (tt + T.EPOCH_S + max(o_pre, o_post)) * T.MEG
            if not (T.US_DAY * 800 < a < T.MAX_WALL - T.US_DAY * 800):
                continue
            gap = o_post > o_pre
            target = rnd.choice([a, (a + b) // 2, b - 1, a + rnd.randrange(max(1, b - a))])
            for unit, amount in [(3, 1), (3, rnd.randrange(2, 13)), (2, 1), (1, rnd.randrange(1, 13)), (0, 1), (4, rnd.randrange(1, 13)), (5, rnd.choice([15, 30, 7, 1, 12])),
                                 (6, rnd.choice([1, 900, 7])), (7, rnd.choice([1, 999999, 250000]))][::1 if big else 1]:
                if not big and rnd.random() < 0.45:
                    continue
                back = rnd.randrange(1, 4)
                if unit <= 3:
                    Ws = naive_shift(target, unit, -back * amount)     # a start from which step `back` lands on the target wall time
                    if Ws is None:
                        continue
                    Ws = _fix_wall(name, Ws)
                    fs = 1
                else:
                    U = target - max(o_pre, o_post) * T.MEG - back * amount * UNIT_US[unit] - rnd.choice([0, 0, 1800 * T.MEG])
                    Ws, fs, _o = T.ref_render(_tz(name), U)
                steps = back + rnd.randrange(0, 5)
                e = _end_for(rnd, 2, name, Ws, fs, unit, amount, steps, 1)
                if e is None:
                    continue
                fe = e[1] if rnd.random() < 0.7 else rnd.randrange(2)
                out += _variants(rnd, _range_case("zone-" + ("gap" if gap else "overlap") + "-" + UNITS[unit], 2, name, name, Ws, fs, e[0], fe, 0, unit, amount))
            # an end inside the repeated interval, both folds, fine steps
            if not gap:
                U0 = a - max(o_pre, o_post) * T.MEG - 2 * 3600 * T.MEG
                Ws, fs, _o = T.ref_render(_tz(name), U0)
                We = a + rnd.randrange(max(1, b - a))
                for fe in (0, 1):
                    unit, amount = rnd.choice([(4, 1), (5, 30), (5, 15), (6, 600)])
                    out += _variants(rnd, _range_case("zone-end-in-overlap", 2, name, name, Ws, fs, We, fe, 0, unit, amount))
    # D: whole-day gaps
    for name, (y, m, d) in WHOLE_DAY:
        if name not in avail:
            continue
        mid = (_dt.date(y, m, d).toordinal() - 1) * T.US_DAY
        for tod in (0, 12 * 3600 * T.MEG, T.US_DAY - 1):
            for unit, amount, back in [(3, 1, 2), (3, 1, 1), (3, 2, 1), (2, 1, 1), (1, 1, 1), (0, 1, 1), (4, 12, 3), (3, 3, 1)]:
                Ws = naive_shift(mid + tod, unit, -back * amount)
                Ws = _fix_wall(name, Ws)
                e = _end_for(rnd, 2, name, Ws, 1, unit, amount, back + 3, 1)
                if e:
                    out += _variants(rnd, _range_case("zone-whole-day-gap", 2, name, name, Ws, 1, e[0], e[1], 0, unit, amount))
    # E: fixed offsets, UTC, mixed zones
    for off in FIXED + ["UTC"]:
        for _ in range(6 if not big else 30):
            unit, amount = rnd.randrange(8), rnd.randrange(1, 13)
            Ws = _rw(rnd) if unit > 1 else _day29(rnd) + rnd.randrange(T.US_DAY)
            e = _end_for(rnd, 2, off, Ws, 1, unit, amount, rnd.choice([0, 1, 4, 12, 30]), rnd.choice([1, -1]))
            if e:
                out += _variants(rnd, _range_case("fixed-offset", 2, off, off, Ws, 1, e[0], e[1], 0, unit, amount))
    for _ in range(150 if not big else 1500):
        za, zb_ = rnd.choice(zs), rnd.choice(zs + FIXED)
        unit, amount = rnd.randrange(8), rnd.randrange(1, 13)
        Ws = _fix_wall(za, _rw(rnd, 1900, 2100))
        e = _end_for(rnd, 2, za, Ws, 1, unit, amount, rnd.choice([0, 1, 3, 8, 20]), rnd.choice([1, -1]))
        if e is None:
            continue
        # the same end instant expressed in the other zone
        U = inst_of(za, e[0], e[1])
        if isinstance(zb_, int):
            We, fe = U + zb_ * T.MEG, 0
        else:
            We, fe, _o = T.ref_render(_tz(zb_), U)
        if rnd.random() < 0.4:
            We += rnd.choice([1, -1])
            We = _fix_wall(zb_, We)
        if 0 <= We <= T.MAX_WALL:
            out += _variants(rnd, _range_case("mixed-zones", 2, za, zb_, Ws, 1, We, fe, 0, unit, amount))
    # random zone intervals, all units
    for _ in range(400 if not big else 6000):
        name = rnd.choice(zs)
        unit, amount = rnd.randrange(8), rnd.randrange(1, 13)
        Ws = _fix_wall(name, _rw(rnd, 1880, 2100) if unit > 1 else _day29(rnd) + rnd.randrange(T.US_DAY))
        fs = rnd.choice([1, 1, 0])
        e = _end_for(rnd, 2, name, Ws, fs, unit, amount, rnd.choice([0, 1, 2, 5, 12, 13, 40, 60]), rnd.choice([1, 1, -1]))
        if e:
            out += _variants(rnd, _range_case("zone-random", 2, name, name, Ws, fs, e[0], e[1], 0, unit, amount))
    # F: limits of the calendar
    lim_lo, lim_hi = 0, T.MAX_WALL
    for kind, spec in [(0, None), (1, None), (2, "UTC"), (2, 3600), (2, -3600), (2, "Europe/Paris"), (2, "Pacific/Kiritimati")]:
        for unit in range(8):
            for amount in (1, 5, 12):
                if kind == 0:
                    s_hi = lim_hi - lim_hi % T.US_DAY - rnd.randrange(0, 3) * T.US_DAY * (1 if unit > 1 else 400)
                    e_hi = lim_hi - lim_hi % T.US_DAY
                else:
                    s_hi = lim_hi - rnd.randrange(0, 3 * UNIT_SPAN_S[unit] * amount + 1) * T.MEG
                    e_hi = lim_hi - rnd.choice([0, 0, 1, 86400 * T.MEG])
                if kind == 2 and not isinstance(spec, int):
                    s_hi -= T.US_DAY * 2
                    e_hi -= T.US_DAY * 2
                if kind == 2 and isinstance(spec, int):
                    s_hi -= T.US_DAY
                    e_hi -= T.US_DAY
                out.append(_range_case("limit-high", kind, spec, spec, min(s_hi, e_hi), 1 if kind else 0, e_hi, 1 if kind else 0, 0, unit, amount, 60))
                s_lo = (rnd.randrange(0, 3) * T.US_DAY * (1 if unit > 1 else 400)) + (T.US_DAY * 2 if kind == 2 else 0)
                e_lo = T.US_DAY * 2 if kind == 2 else 0
                if kind != 0:
                    s_lo += rnd.randrange(0, 2 * UNIT_SPAN_S[unit] * amount + 1) * T.MEG
                out.append(_range_case("limit-low", kind, spec, spec, max(s_lo, e_lo), 1 if kind else 0, e_lo, 1 if kind else 0, 0, unit, amount, 60))
    # G: long ranges (up to 10^4 steps)
    longs = [(0, None, 3, 1, 10000), (0, None, 1, 1, 10000), (0, None, 0, 1, 9000), (1, None, 4, 1, 10000), (1, None, 7, 12, 10000), (2, "Europe/Paris", 3, 1, 10000),
             (2, "America/New_York", 4, 1, 10000), (2, "Pacific/Apia", 3, 1, 4000), (2, "Australia/Lord_Howe", 5, 30, 10000), (2, 19800, 1, 1, 5000),
             (2, "UTC", 6, 7, 10000), (0, None, 2, 3, 10000), (1, None, 1, 12, 6000), (2, "Africa/Casablanca", 2, 1, 3000)]
    if big:
        longs = longs + [(k, s, rnd.randrange(8) if k else rnd.randrange(4), rnd.randrange(1, 13), 10000) for k, s in [(0, None), (1, None)] + [(2, z) for z in zs[:25]]]
    else:
        longs = longs[seed % 2::2] + longs[:2]
    for kind, spec, unit, amount, steps in longs:
        if unit == 0:
            steps = min(steps, 7000 // amount)
        if unit == 1:
            steps = min(steps, 80000 // amount)
        base = (_dt.date(1900 if unit > 1 else 1001, 1, 31).toordinal() - 1) * T.US_DAY + (0 if kind == 0 else 3 * 3600 * T.MEG + 30 * 60 * T.MEG)
        if kind == 2 and unit > 1:
            base = (_dt.date(1995, 1, 31).toordinal() - 1) * T.US_DAY + 2 * 3600 * T.MEG + 30 * 60 * T.MEG
        Ws = _fix_wall(spec, base) if kind == 2 else base
        sign = 1 if rnd.random() < 0.7 else -1
        if unit <= 1 and kind == 2:
            sign = 1
        e = _end_for(rnd, kind, spec, Ws, 1, unit, amount, steps, sign)
        if e:
            out.append(_range_case("long", kind, spec, spec, Ws, 1 if kind else 0, e[0], e[1] if kind else 0, 0, unit, amount, 10050))
    # E2: the two ends carry DIFFERENT tzinfo objects (so Python compares instants) and the interval is laid across a transition of ONE of the two zones:
    #     the other end is an instant in / next to the repeated (or skipped) stretch, expressed in UTC, a fixed offset or another zone.
    #     Own generator: the streams above keep their inputs for a given seed.
    out += _mixed_transition_cases(random.Random(seed * 1000003 + 19), zs, big)
    # H: __iter__, membership of yielded values, contains, single shifts
    for c in list(out):
        if c["fn"] != "range":
            continue
        kind, sa, sb, Ws, fs, We, fe, ab, unit, amount, cap = c["args"]
        r = rnd.random()
        if r < 0.06 and abs(We - Ws) < 500 * T.US_DAY:
            out.append({"stream": "iter", "fn": "iter", "args": [kind, sa, sb, Ws, fs, We, fe, ab, 600]})
        elif r < 0.12 and cap <= CAP_DEFAULT:
            out.append({"stream": "member", "fn": "member", "args": c["args"]})
        elif r < 0.21:
            span = abs(We - Ws) + 1
            for Wx in {Ws, We, Ws - 1, Ws + 1, We - 1, We + 1, min(Ws, We) + rnd.randrange(span), min(Ws, We) - rnd.randrange(span), max(Ws, We) + rnd.randrange(span)}:
                if kind == 0:
                    Wx -= Wx % T.US_DAY
                if not 0 <= Wx <= T.MAX_WALL:
                    continue
                sx = sa if kind != 2 or rnd.random() < 0.7 else rnd.choice(zs + FIXED)
                if kind == 2 and sx != sa:
                    U = inst_of(sa, Wx, 1)
                    if not (2 * T.US_DAY < U < T.MAX_WALL - 2 * T.US_DAY):
                        continue
                    Wx = U + sx * T.MEG if isinstance(sx, int) else T.ref_render(_tz(sx), U)[0]
                if not 0 <= Wx <= T.MAX_WALL:
                    continue
                if kind == 2:
                    Wx = _fix_wall(sx, Wx)
                out.append({"stream": "contains", "fn": "contains", "args": [kind, sa, sb, sx, Ws, fs, We, fe, ab, Wx, rnd.randrange(2) if kind else 0]})
        elif r < 0.33:
            k = rnd.choice([1, 2, 3, 10, 100, 1000, 10000]) * amount
            if unit == 0:
                k = min(k, 3000)
            out.append({"stream": "shift", "fn": "shift", "args": [kind, sa, Ws, fs, rnd.randrange(2), unit, k]})
    # CF: month / year stepping through February of every century year (own generator: the streams above keep their inputs for a given seed)
    out += _century_feb_cases(random.Random(seed * 1000003 + 29), zs, big)
    # W: the witnesses of repaired findings stay as ordinary cases (they must pass the oracle now)
    out += _witness_cases()
    # a FixedTimezone always stores fold 0
    for c in out:
        a = c["args"]
        if c["fn"] in ("range", "iter", "member"):
            if isinstance(a[1], int):
                a[4] = 0
            if isinstance(a[2], int):
                a[6] = 0
        elif c["fn"] == "contains":
            for si, fi in ((1, 5), (2, 7), (3, 10)):
                if isinstance(a[si], int):
                    a[fi] = 0
        elif c["fn"] == "shift" and isinstance(a[1], int):
            a[3] = 0
    return out


def search_cases(seed):
    return cases("thorough", seed + 1)[::2]


def nontrivial(c):
    return True


# ----------------------------------------------------------------------------- implementation
def _mk(pendulum, kind, spec, W, f):
    y, mo, d, h, mi, s, us = T.fields_of(W)
    if kind == 0:
        return pendulum.date(y, mo, d)
    if kind == 1:
        return pendulum.naive(y, mo, d, h, mi, s, us, fold=f)
    return pendulum.datetime(y, mo, d, h, mi, s, us, tz=T.pzone(spec), fold=f)


def _val(pendulum, kind, x, want_tz=None):
    """canonical yielded value: wall, fold, utcoffset; None when the object is not of the expected class / zone"""
    if kind == 0:
        if type(x) is not pendulum.Date:
            return None
        return [T.wall_of(x), 0, 0]
    if not isinstance(x, pendulum.DateTime):
        return None
    if kind == 1:
        return [T.wall_of(x), x.fold, 0] if x.tzinfo is None else None
    if x.tzinfo is None or (want_tz is not None and x.tzinfo is not want_tz):
        return None
    return [T.wall_of(x), x.fold, T.off_s(x)]


def pack(vals):
    """values (list of [W, f, o]) -> canonical tail of a result"""
    n = len(vals)
    if n <= FULL_LIMIT:
        return [n, 0] + [v for t in vals for v in t]
    h = hashlib.sha256(repr(vals).encode()).hexdigest()[:32]
    h2 = hashlib.sha256(repr([[t[0], t[2]] for t in vals]).encode()).hexdigest()[:32]      # walls and offsets only (what the oracle can recompute)
    return [n, 1, h, h2] + [v for t in vals[:20] for v in t] + [v for t in vals[-20:] for v in t]


def _mono_break(vals, kind, down):
    """first index whose instant is not strictly beyond its predecessor's in the direction of the iteration, or -1"""
    prev = None
    for i, (W, f, o) in enumerate(vals):
        u = W - o * T.MEG
        if prev is not None and (u >= prev if down else u <= prev):
            return i
        prev = u
    return -1


def _consume(pendulum, kind, iv, gen, cap):
    vals, status, exn = [], 0, 0
    tzs = iv.start.tzinfo if kind == 2 else None
    try:
        for x in gen:
            if len(vals) == cap:
                status = 2
                break
            v = _val(pendulum, kind, x, tzs)
            if v is None:
                return None
            vals.append(v)
    except Exception as ex:  # noqa
        status, exn = 1, T.EXN.get(type(ex).__name__, 14)
    return vals, status, exn


def impl_run(cases):
    import pendulum
    out = []
    for c in cases:
        fn, a = c["fn"], c["args"]
        try:
            if fn == "shift":
                kind, spec, W, f, m, unit, i = a
                s = _mk(pendulum, kind, spec, W, f)
                r = getattr(s, "subtract" if m else "add")(**{UNITS[unit]: i})
                v = _val(pendulum, kind, r, s.tzinfo if kind == 2 else None)
                out.append([7, 1] if v is None else [0] + v)
                continue
            if fn == "contains":
                kind, sa, sb, sx, Ws, fs, We, fe, ab, Wx, fx = a
                iv = pendulum.interval(_mk(pendulum, kind, sa, Ws, fs), _mk(pendulum, kind, sb, We, fe), bool(ab))
                x = _mk(pendulum, kind, sx, Wx, fx)
                if T.wall_of(x) != Wx:
                    out.append([7, 2])
                    continue
                out.append([0, int(x in iv), int(iv._invert)])
                continue
            kind, sa, sb, Ws, fs, We, fe, ab = a[:8]
            s, e = _mk(pendulum, kind, sa, Ws, fs), _mk(pendulum, kind, sb, We, fe)
            if T.wall_of(s) != Ws or T.wall_of(e) != We:
                out.append([7, 2])      # the harness asked for a wall time that does not exist
                continue
            iv = pendulum.interval(s, e, bool(ab))
            if fn == "iter":
                g, cap = iter(iv), a[8]
            else:
                g, cap = iv.range(UNITS[a[8]], a[9]), a[10]
            r = _consume(pendulum, kind, iv, g, cap)
            if r is None:
                out.append([7, 1])
                continue
            vals, status, exn = r
            down = bool(iv._invert) and not ab
            head = [0, status, exn, int(iv._invert), T.wall_of(iv.start), getattr(iv.start, "fold", 0), T.wall_of(iv.end), getattr(iv.end, "fold", 0)]
            if fn == "member":
                k = 0
                g2 = iter(iv.range(UNITS[a[8]], a[9]))
                while k < len(vals):
                    x = next(g2)
                    k += 1
                    if not (x in iv):
                        k = -k
                        break
                out.append([0, len(vals), k])
                continue
            out.append(head + [_mono_break(vals, kind, down)] + pack(vals))
        except Exception as ex:  # noqa
            out.append(T.exn_result(ex))
    return out


# ----------------------------------------------------------------------------- model
def _spec_window(spec, lo_w, hi_w):
    if spec is None:
        return [0, 0]
    lo = T.unix_of_wall(lo_w) - 100000
    hi = T.unix_of_wall(hi_w) + 100000
    return T.zone_enc(spec, lo, hi)


def _ids(*specs):
    seen = {}
    return [seen.setdefault(repr(s), len(seen) + 1) for s in specs]


def _isfixed(spec):
    return 1 if isinstance(spec, int) else 0


def model_calls(c, backend):
    fn, a = c["fn"], c["args"]
    if fn == "shift":
        kind, spec, W, f, m, unit, i = a
        span = abs(i) * UNIT_SPAN_S[unit] * T.MEG
        lo, hi = max(0, W - span), min(T.MAX_WALL, W + span)
        return [("shift", _spec_window(spec, lo, hi) + [0, 0] + [kind, _isfixed(spec), 1, W, f, m, unit, i])]
    if fn == "contains":
        kind, sa, sb, sx, Ws, fs, We, fe, ab, Wx, fx = a
        lo, hi = min(Ws, We, Wx) - T.US_DAY, max(Ws, We, Wx) + T.US_DAY
        ia, ib, ix = _ids(sa, sb, sx)
        return [("contains", _spec_window(sa, lo, hi) + _spec_window(sb, lo, hi) + _spec_window(sx, lo, hi)
                 + [kind, _isfixed(sa), _isfixed(sb), _isfixed(sx), ia, ib, ix, Ws, fs, We, fe, ab, Wx, fx])]
    kind, sa, sb, Ws, fs, We, fe, ab = a[:8]
    if fn == "iter":
        unit, amount, cap = 3, 1, a[8]
    else:
        unit, amount, cap = a[8], a[9], a[10]
    span = (amount * UNIT_SPAN_S[unit] + 2 * 86400) * T.MEG
    lo, hi = max(0, min(Ws, We) - span), min(T.MAX_WALL, max(Ws, We) + span)
    ia, ib = _ids(sa, sb)
    pre = _spec_window(sa, lo, hi) + _spec_window(sb, lo, hi) + [kind, _isfixed(sa), _isfixed(sb), ia, ib, Ws, fs, We, fe, ab]
    if fn == "iter":
        return [("iter", pre + [cap + 1])]
    if fn == "member":
        return [("member", pre + [unit, amount, cap + 1])]
    return [("range", pre + [unit, amount, cap + 1])]


def model_result(c, backend, outs):
    o = outs[0]
    fn = c["fn"]
    if fn in ("shift", "contains") or o[0] != 0:
        return o
    cap = c["args"][8] if fn == "iter" else c["args"][10]
    if fn == "member":
        n, k = o[1], o[2]
        return [0, min(n, cap), min(k, cap)]
    status, exn, inv, sW, sf, eW, ef, n = o[1:9]
    flat = o[9:]
    vals = [flat[i:i + 3] for i in range(0, 3 * n, 3)]
    if len(vals) > cap:
        vals, status, exn = vals[:cap], 2, 0
    kind, ab = c["args"][0], c["args"][7]
    return [0, status, exn, inv, sW, sf, eW, ef, _mono_break(vals, kind, bool(inv) and not ab)] + pack(vals)


def same(c, m, r):
    return m == r


# ----------------------------------------------------------------------------- the property (stdlib only)
def _amb(spec, W):
    if spec is None or isinstance(spec, int):
        return False
    o0, o1 = _offs(_tz(spec), W)
    return o0 > o1


def _unpack(r):
    n, hashed = r[9], r[10]
    if not hashed:
        flat = r[11:]
        return n, None, [flat[i:i + 3] for i in range(0, 3 * n, 3)], None
    flat = r[13:]
    return n, r[12], [flat[i:i + 3] for i in range(0, 60, 3)], [flat[i:i + 3] for i in range(60, 120, 3)]


def _analyse(c, r):
    """list of (tag, message, detail) failures of the property on one range/iter result"""
    fn, a = c["fn"], c["args"]
    kind, sa, sb, Ws, fs, We, fe, ab = a[:8]
    unit, amount, cap = (3, 1, a[8]) if fn == "iter" else (a[8], a[9], a[10])
    fails = []
    if r[0] != 0:
        return [("error", f"unexpected result {r}", None)]
    status, exn, inv, sW, sf, eW, ef, mono = r[1:9]
    n, digest, head, tail = _unpack(r)
    # direction and stored ends, by instants
    Us, Ue = inst_of(sa, Ws, fs), inst_of(sb, We, fe)
    inv_exp = Us > Ue
    if bool(inv) != inv_exp:
        return [("direction", f"interval says invert={bool(inv)} but start instant {'>' if inv_exp else '<='} end instant", ("pair", sa, Ws, fs, sb, We, fe))]
    swap = inv_exp and ab
    exp_ends = [We, fe, Ws, fs] if swap else [Ws, fs, We, fe]
    if [sW, sf, eW, ef] != exp_ends:
        return [("ends", f"stored start/end {[sW, sf, eW, ef]} != {exp_ends}", None)]
    s_spec, s_W, s_f, e_spec, e_W, e_f = (sb, We, fe, sa, Ws, fs) if swap else (sa, Ws, fs, sb, We, fe)
    U_end = inst_of(e_spec, e_W, e_f)
    U_start = inst_of(s_spec, s_W, s_f)
    down = inv_exp and not ab
    sgn = -1 if down else 1
    # the expected sequence, each element computed from the start
    exp = []
    k = 0
    end_status = 0
    while len(exp) < cap:
        if k == 0:
            off0 = 0 if kind != 2 else (s_spec if isinstance(s_spec, int) else _offs(_tz(s_spec), s_W)[1 if s_f else 0])
            ev = (s_W, s_f, off0, U_start)
        else:
            ev = expected_value(kind, s_spec, s_W, s_f, unit, sgn * k * amount)
        if ev == "TypeError":
            end_status = ("raise", 2)
            break
        if ev is None:
            end_status = ("raise", None)
            break
        beyond = ev[3] < U_end if down else ev[3] > U_end
        if beyond:
            break
        exp.append(ev)
        k += 1
    else:
        end_status = 2
    # 1. k-th value
    got_all = head if tail is None else None
    if n != len(exp):
        # classify: stops early / goes beyond / raised
        fails.append(("stop", f"yields {n} values, the independent computation gives {len(exp)} values not beyond the end", ("len", n, len(exp))))
    m = min(n, len(exp))
    cmp_idx = range(m) if got_all is not None else list(range(min(20, m))) + ([m - 20 + j for j in range(20)] if n == len(exp) and m >= 40 else [])
    for i in cmp_idx:
        if got_all is not None:
            g = got_all[i]
        else:
            g = head[i] if i < 20 else tail[i - (n - 20)]
        e = exp[i]
        if g[0] != e[0] or g[2] != e[2] or (e[1] is not None and g[1] != e[1]):
            fails.append(("kth", f"value #{i} is wall {T.fields_of(g[0])} fold {g[1]} offset {g[2]}, start shifted by {sgn * i * amount} {UNITS[unit]} is "
                                 f"{T.fields_of(e[0])} fold {e[1]} offset {e[2]}", ("idx", i)))
            break
    if digest is not None and n == len(exp) and not any(t == "kth" for t, _, _ in fails):
        h2 = hashlib.sha256(repr([[e[0], e[2]] for e in exp]).encode()).hexdigest()[:32]
        if h2 != digest:
            fails.append(("kth", f"the {n} yielded (wall, offset) pairs hash to {digest}, the independently computed sequence to {h2}", ("idx", -1)))
    # 2. strictly monotone
    if mono != -1:
        fails.append(("mono", f"value #{mono} is not strictly {'before' if down else 'after'} value #{mono - 1}", ("idx", mono)))
    # 3. how it ended
    if status == 1:
        if end_status == ("raise", 2) and exn == 2:
            pass        # Date.add has no hours/minutes/seconds/microseconds: TypeError after the first value is the documented behaviour
        else:
            fails.append(("raise", f"the iteration ended with exception code {exn} after {n} values", ("raise", exn)))
    elif status == 2:
        if end_status != 2:
            fails.append(("finite", f"still yielding after {n} values, expected {len(exp)}", None))
    elif status == 0:
        if end_status == 2:
            fails.append(("stop", f"stopped after {n} values, more than {cap} expected", ("len", n, cap)))
        elif isinstance(end_status, tuple) and end_status[1] == 2:
            fails.append(("stop", "expected TypeError from Date.add with a time unit", None))
    # 4. contained, 5. end yielded iff reachable (on what was yielded)
    lo, hi = min(U_start, U_end), max(U_start, U_end)
    seen_end = False
    vals = got_all if got_all is not None else head + tail
    for i, (W, f, o) in enumerate(vals):
        u = W - o * T.MEG
        if not lo <= u <= hi:
            fails.append(("contained", f"a yielded value (wall {T.fields_of(W)} offset {o}) is outside the interval", ("val", W, f)))
            break
        if u == U_end:
            seen_end = True
    reachable = any(e[3] == U_end for e in exp[-1:])
    if status == 0 and end_status == 0 and n == len(exp) and reachable != seen_end:
        fails.append(("end", f"end reachable={reachable} but yielded={seen_end}", None))
    return fails, exp, (s_spec, s_W, s_f, e_spec, e_W, e_f, unit, amount, sgn)


def oracle(c, backend, r):
    fn, a = c["fn"], c["args"]
    if r and r[0] == 7:
        return f"harness/type problem {r}"
    if fn == "shift":
        kind, spec, W, f, m, unit, i = a
        ev = expected_value(kind, spec, W, f, unit, -i if m else i)
        if ev == "TypeError":
            return None if r == [1, 2] else f"expected TypeError, got {r}"
        if ev is None:
            return None if r[0] == 1 and r[1] in (1, 3) else f"expected OverflowError/ValueError, got {r}"
        if r[0] != 0 or r[1] != ev[0] or r[3] != ev[2] or (ev[1] is not None and r[2] != ev[1]):
            return f"{'subtract' if m else 'add'}({UNITS[unit]}={i}) from wall {T.fields_of(W)} in {spec}: got {r}, independent computation {ev}"
        return None
    if fn == "contains":
        kind, sa, sb, sx, Ws, fs, We, fe, ab, Wx, fx = a
        if r[0] != 0:
            return f"unexpected result {r}"
        Us, Ue, Ux = inst_of(sa, Ws, fs), inst_of(sb, We, fe), inst_of(sx, Wx, fx)
        exp = int(min(Us, Ue) <= Ux <= max(Us, Ue))      # forward, absolute and inverted intervals alike: between the two ends
        return None if r[1] == exp else f"`x in interval` is {bool(r[1])}, min(start, end) <= x <= max(start, end) on instants is {bool(exp)}"
    if fn == "member":
        if r[0] != 0:
            return f"unexpected result {r}"
        return None if r[2] == r[1] else f"yielded value #{-r[2] - 1 if r[2] < 0 else r[2]} is not `in` the interval that yielded it"
    res = _analyse(c, r)
    fails = res[0] if isinstance(res, tuple) else res
    if not fails:
        return None
    return "; ".join(f"[{t}] {msg}" for t, msg, _ in fails)


def _gap_len_at(spec, W):
    if spec is None or isinstance(spec, int):
        return 0
    o0, o1 = _offs(_tz(spec), W)
    return max(0, o1 - o0)


def known(c, backend, r):
    fn, a = c["fn"], c["args"]
    if fn == "member":
        kind, sa, sb, Ws, fs, We, fe, ab = a[:8]
        # (repaired) inverted, non-absolute interval (and no ambiguity involved): with start <= x <= end nothing is `in` it, not even its own start
        if r[0] != 0 or r[2] >= 0:
            return None
        inv = inst_of(sa, Ws, fs) > inst_of(sb, We, fe)
        if not ab and inv and r[2] == -1 and not _fold_pair(sa, Ws, fs, sb, We, fe):
            return "inverted-interval-contains-nothing"
        if kind == 2:
            # the value that is not a member is a repeated wall time and an end IN THE SAME ZONE (the stored start always is: every value is
            # yielded in the start's zone; the end only when it carries the same tzinfo) is one too, with the other fold
            idx = -r[2] - 1
            s_spec, s_W, s_f = (sb, We, fe) if (ab and inv) else (sa, Ws, fs)
            ev = expected_value(kind, s_spec, s_W, s_f, a[8], (-1 if inv and not ab else 1) * idx * a[9]) if idx else (s_W, s_f, 0, 0)
            if ev and ev != "TypeError":
                fx = ev[1] if ev[1] is not None else 1
                if _fold_pair(s_spec, ev[0], fx, sa, Ws, fs) or _fold_pair(s_spec, ev[0], fx, sb, We, fe) or _fold_pair(sa, Ws, fs, sb, We, fe):
                    return "same-zone-comparison-ignores-fold"
        return None
    if fn == "contains":
        kind, sa, sb, sx, Ws, fs, We, fe, ab, Wx, fx = a
        if kind == 2 and _fold_pair(sa, Ws, fs, sb, We, fe, sx, Wx, fx):
            return "same-zone-comparison-ignores-fold"
        # (repaired) inverted, non-absolute interval: an x between the two ends is reported as not `in` it (start <= x <= end with start > end)
        Us, Ue, Ux = inst_of(sa, Ws, fs), inst_of(sb, We, fe), inst_of(sx, Wx, fx)
        if r[0] == 0 and r[1] == 0 and not ab and Us > Ue and Ue <= Ux <= Us:
            return "inverted-interval-contains-nothing"
        return None
    if fn not in ("range", "iter"):
        return None
    res = _analyse(c, r)
    if not isinstance(res, tuple):
        fails = res
        if len(fails) == 1 and fails[0][0] == "direction":
            _, sa, Ws, fs, sb, We, fe = fails[0][2]
            if _fold_pair(sa, Ws, fs, sb, We, fe):
                return "same-zone-comparison-ignores-fold"
        return None
    fails, exp, (s_spec, s_W, s_f, e_spec, e_W, e_f, unit, amount, sgn) = res
    tags = {t for t, _, _ in fails}
    kind = a[0]
    # (1) a wall-clock step lands in a gap at least as long as the step
    if tags == {"mono"} and kind == 2 and unit <= 3:
        i = fails[0][2][1]
        for j in (i - 1, i):
            w = naive_shift(s_W, unit, sgn * j * amount)
            w2 = naive_shift(s_W, unit, sgn * (j + 1) * amount)
            w0 = naive_shift(s_W, unit, sgn * (j - 1) * amount)
            if w is None:
                continue
            g = _gap_len_at(s_spec, w) * T.MEG
            step = min(abs(x - w) for x in (w0, w2) if x is not None)
            if g and g >= step:
                return "skipped-day-repeats-value"
        return None
    # (2) (repaired) the next value is not representable: the generator raises instead of stopping
    if tags == {"raise"}:
        exn = fails[0][2][1]
        nxt = expected_value(kind, s_spec, s_W, s_f, unit, sgn * len(exp) * amount)
        if exn in (1, 3) and (nxt is None or _near_limit(nxt[0])):
            return "raises-at-calendar-limit"
        return None
    # (3) wall-clock comparison inside a repeated hour
    if tags and tags <= {"stop", "contained", "end", "finite"} and kind == 2 and repr(s_spec) == repr(e_spec) and _amb(e_spec, e_W):
        # some expected-or-yielded value next to the end is ambiguous too and carries the other fold
        n = r[9]
        for k in range(max(0, min(n, len(exp)) - 1), max(n, len(exp)) + 2):
            ev = expected_value(kind, s_spec, s_W, s_f, unit, sgn * k * amount) if k else (s_W, s_f, 0, 0)
            if ev and ev != "TypeError" and _amb(s_spec, ev[0]) and (ev[1] if ev[1] is not None else 1) != e_f:
                return "same-zone-comparison-ignores-fold"
        return None
    return None


def _near_limit(W):
    return W < 2 * T.US_DAY or W > T.MAX_WALL - 2 * T.US_DAY


def _fold_pair(sa, Ws, fs, sb, We, fe, sx=None, Wx=None, fx=None):
    """two of the values share the zone, are both repeated wall times and carry different folds"""
    vs = [(sa, Ws, fs), (sb, We, fe)] + ([(sx, Wx, fx)] if Wx is not None else [])
    for i in range(len(vs)):
        for j in range(i + 1, len(vs)):
            (s1, w1, f1), (s2, w2, f2) = vs[i], vs[j]
            if repr(s1) == repr(s2) and _amb(s1, w1) and _amb(s2, w2) and f1 != f2:
                return True
    return False


LEVEL_TEXT = ("Machine-checked Coq theorems about the TRANSLATED Interval.range / __iter__ / __contains__ (regenerated from /repo on every run) for every interval, unit and step: "
              "the k-th yielded value is start.add(unit = k*step) computed from the start (loop invariant), the run yields exactly the prefix of that sequence up to the first element "
              "beyond the end, every yielded value lies between start and end, the end is yielded iff reachable, `in` is min(start, end) <= x <= max(start, end) for forward, absolute "
              "and inverted intervals (contains_spec, contains_min_max; every value an interval of dates / naive values / fixed offsets yields is `in` it: range_values_are_members_partial_plain); strict monotonicity and termination for "
              "dates, naive values, UTC/fixed offsets (all 8 units, every step >= 1, via strict monotonicity of month arithmetic with end-of-month clamping) and for every "
              "well-formed zone with the fixed-length units; for ends carrying different tzinfo objects (start in a zone, end in UTC / a fixed offset / another zone) and the fixed-length units the run "
              "yields exactly the indices whose instant start +- k*n units is not beyond the end's instant, the end is yielded iff its instant is on that grid, direction and `in` are decided by instants "
              "(range_mixed_zones_stop_by_instant / _exact / _end_reached, interval_direction_mixed_zones, contains_mixed_zones); "
              "the iteration never ends with OverflowError / ValueError: when the value after the last one is outside 0001-01-01 .. 9999-12-31 the run stops normally (range_stops_at_limit, "
              "range_prefix, range_at_limit_witness), and for dates, naive values and UTC / fixed offsets stepped by years / months that is the ONLY other way a run ends: start.add(years / months) succeeds whenever the target "
              "year is in 1..9999, whatever the clamped day (month_year_step_total_partial_plain, range_month_year_stops_only_outside_calendar_partial_plain; range_century_february_witness: 2099-10-31 .. 2100-06-30 by months "
              "yields nine values through 2100-02-28); refutation of monotonicity for day stepping over a skipped day (Kiritimati witness).")
DESIGN_REF = "DESIGN.md section 4 C19"
LEVEL_NOTE = ("Trusted: Coq kernel+VM; translator subclass in tools/vlib/gens/g90_range.py; hand model Model/IntervalRange.v (ordering, add/subtract dispatch, Interval.__init__) and "
              "Model/TzConvert.v validated by correspondence; Spec/Zone.v as a model of zoneinfo; extraction cross-checked with vm_compute.")
TECHNIQUE = "Coq induction on generator fuel (loop invariant) + month arithmetic monotonicity (lia) + differential correspondence + independent stdlib sequence oracle"
