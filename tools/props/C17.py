"""C17 — parse() is total: a supported value or a ValueError/ParserError, nothing else (both parser backends)."""
from __future__ import annotations

import json
import random
import re

ID = "C17"
PROPS = "Props/C17.v"
RULE = ("strings one or two edits away from valid input: a set of valid forms (the six ISO date forms, date-times with T/space, fractions and "
        "Z/+hh/+hhmm/+hh:mm offsets, bare and T-prefixed times, durations with and without fractions and weeks, the three interval forms, the "
        "COMMON 'YYYY/MM/DD HH:MM:SS' shapes; rendered with the C07/C13 renderers) under ALL single-character edits (delete / substitute / insert) "
        "over the alphabet 0-9:TZW/P+-., YMDHS, a seeded sample of double edits (thorough: ALL double edits of a set of short forms), all "
        "truncations, pairwise concatenations with '', ' ', 'T', '/', random strings over the alphabet, ASCII junk, non-ASCII text, Unicode Nd digits "
        "(Arabic-Indic, Devanagari, fullwidth, mathematical bold) substituted into valid forms, lone surrogates, NUL, whitespace/newline "
        "prefixes and suffixes, VALID PREFIX + TRAILING TEXT (stream valid-prefix-trailing-text: every seeded valid form followed by an ASCII pad of "
        "k = 0..16 bytes -- letters, a blank first, seeded printable junk -- then one character of UTF-8 width 1 / 2 / 3 / 4 bytes (a letter or symbol "
        "and a Unicode Nd digit per width), then nothing or more text, so that a multi-byte character sits at EVERY byte offset 0..16 of the remainder; "
        "remainders made of multi-byte characters only; the same characters in front of the form; realistic log-line / calendar / file-name tails "
        "shifted by 0..11 bytes; the grid under seed-rotated options incl. parse_iso8601 directly, and a compact grid under fixed option sets "
        "(defaults, strict=False, exact+tz, day_first/year_first; thorough: all six)), digit runs around 2^32, 10^9 days, 309 digits (float overflow) and 4300 digits (int() limit); every string gets a "
        "seed-rotated combination of exact / strict / tz / day_first / year_first and is run through pendulum.parse on both backends "
        "(a subset also through parse_iso8601 directly).  A case is a batch of strings; it is non-trivial when it contains at least one "
        "string.  Every call is guarded by `except BaseException` (KeyboardInterrupt / SystemExit passed on): an exception outside the Exception "
        "hierarchy (pyo3's PanicException for a Rust panic) is recorded as the kind BaseException:<name> and is a failure of totality.  "
        "Four checks per string: implementation == Coq model; result is a supported value or a ValueError; no wrapped numbers "
        "(unbounded-integer reading of duration components); strict=True accepts only the three grammars (independent recognisers); and the "
        "two backends agree whenever both accept.")
EXHAUSTIVE = {"quick": False, "thorough": False}
TRUSTED = ["the C07 and C13 parser models (Model/IsoParse.v, Model/DurParse.v, generated regex ASTs) are reused unchanged; Model/ParseTotal.v adds the "
           "fallback chain, the interval assembly, _normalize and parser._parse; these are no longer only hand-written: Gen/ParseChain.v is TRANSLATED "
           "from parsing/__init__.py (parse, _parse with its suppress / try-except ladder, _normalize, _parse_common after COMMON.match, "
           "_parse_iso8601_interval) and parser.py (_parse) on every run (tools/vlib/gens/g84_parse_chain.py; try/except = a match on the exception "
           "kind of the result monad, class hierarchy read from parsing/exceptions) and proved equal to the model (Props/C17.v model_is_code_*); "
           "hand primitives: Model/ParseChainObj.v (native constructors, isinstance predicates, the _Interval record, pendulum.instance / "
           "DateTime.add / pendulum.interval on fixed-offset values, group truthiness and int() of COMMON's \\d groups); side conditions of the "
           "equalities: parse_iso8601 / dateutil return objects of the native classes (fields in range), options['now'] is a datetime",
           "CPython: str -> &str conversion (lone surrogates raise UnicodeEncodeError), Unicode decimal digits (Gen/UnicodeNd.v is generated from the "
           "staged interpreter's str.isdecimal/unicodedata.decimal), int()'s 4300-digit limit, datetime/timedelta range checks (Spec/NativeDT.v)",
           "dateutil.parser.parse is an opaque oracle ARGUMENT of the model (a Section variable); theorems that need it assume only that it returns a "
           "datetime or raises ValueError or OverflowError (both are turned into ParserError by parsing._parse), and the run reports inputs on which "
           "the real dateutil raises anything else",
           "DateTime.add/subtract on fixed-offset values = translated helpers.add_duration (Gen/AddDuration.v) + Spec/NativeDT.v; Interval.__new__ "
           "modelled by hand (type checks, same-tzinfo shift)"]
ASSUMPTIONS = ["the tz option is absent or a pendulum FixedTimezone with |offset| < 24 h; options['now'] is given",
               "pure-Python backend: when a digit run exceeds int()'s 4300-digit limit the model answers ValueError whatever the other components are "
               "(an earlier fraction of 309+ digits makes CPython raise OverflowError first, which parse_iso8601 now turns into ParserError: the "
               "same class of outcome)",
               "strings are sequences of Unicode code points (surrogates allowed); the Nd table is the staged interpreter's"]
VM_SUBSET = 60

NOW = (2001, 2, 3)
ALPHA = "0123456789:TZW/P+-., YMDHS"
TZS = (None, None, None, 3600, -18000, 20700, 86340, -86340)
BATCH = 1500


# ----------------------------------------------------------------------------- valid forms
def base_forms(seed):
    """a seeded set of valid strings, every form of C07 and C13"""
    import datetime as _dt
    from props import C07, C13
    rnd = random.Random(seed * 7919 + 17)
    out = []
    d = C07.rand_date(rnd)
    if d.year < 1000:
        d = d.replace(year=1000 + d.year)
    for f in C07.FORMS:
        if C07.form_ok(d, f):
            out.append(C07.render_date(d, f))
    out.append(f"{d.year:04d}-{d.month:02d}")
    out.append(f"{d.year:04d}")
    monday = d - _dt.timedelta(days=d.weekday())
    if C07.form_ok(monday, "week-ext-noday"):
        out += [C07.render_date(monday, "week-ext-noday"), C07.render_date(monday, "week-bas-noday")]
    H, M, S = C07.rand_time(rnd)
    fr = (rnd.choice(".,"), "".join(rnd.choice("0123456789") for _ in range(rnd.choice((1, 3, 6, 9)))))
    de, db = C07.render_date(d, "cal-ext"), C07.render_date(d, "cal-bas")
    out += [de + "T" + C07.render_time(H, M, S, None, True, 3),
            de + " " + C07.render_time(H, M, S, None, True, 3),
            de + "T" + C07.render_time(H, M, S, fr, True, 3) + "Z",
            de + "T" + C07.render_time(H, M, S, None, True, 3) + C07.render_offset(rnd.choice((3600, -18000, 20700, 86340, -43200)), "hh:mm"),
            de + "T" + C07.render_time(H, M, 0, None, True, 2) + C07.render_offset(rnd.choice((3600, -18000)), "hh"),
            db + "T" + C07.render_time(H, M, S, None, False, 3) + C07.render_offset(rnd.choice((3600, -18000, 34200)), "hhmm"),
            db + "T" + C07.render_time(H, M, S, fr, False, 3),
            C07.render_date(d, "ord-ext") + "T" + C07.render_time(H, 0, 0, None, True, 1),
            C07.render_time(H, M, S, None, True, 3), C07.render_time(H, M, 0, None, True, 2),
            "T" + C07.render_time(H, M, S, None, False, 3), "T" + C07.render_time(H, M, 0, None, True, 2) + "Z",
            C07.render_time(H, M, S, fr, True, 3) + "+01:00",
            f"{d.year:04d}/{d.month:02d}/{d.day:02d}", f"{d.year:04d}/{d.month:02d}/{d.day:02d} {H}:{M:02d}:{S:02d}",
            db + f" {H:02d}:{M:02d}"]
    n = lambda hi: str(rnd.randint(0, hi))  # noqa
    out += [C13.render({"Y": n(20), "M": n(11), "D": n(30), "H": n(23), "m": n(59), "S": n(59)}),
            C13.render({"D": n(400)}), C13.render({"H": n(99), "m": n(99)}), C13.render({"W": n(60)}),
            C13.render({"D": n(9), "H": n(9), "frac": ["H", ".", str(rnd.randint(1, 9))]}),
            C13.render({"S": n(59), "frac": ["S", ",", "".join(rnd.choice("0123456789") for _ in range(rnd.choice((1, 6, 7))))]}),
            C13.render({"Y": n(9), "M": n(9)})]
    a = de + "T" + C07.render_time(H, M, S, None, True, 3)
    b = C07.render_date(C07.rand_date(rnd).replace(year=rnd.randint(1900, 2100)), "cal-ext") + "T" + C07.render_time(*C07.rand_time(rnd), None, True, 3) + "Z"
    out += [a + "/" + b, a + "Z/" + C13.render({"D": n(40), "H": n(30)}), C13.render({"M": n(14), "S": n(100)}) + "/" + b,
            a + "+02:00/" + C13.render({"m": n(500)}), de + "/" + C07.render_date(C07.rand_date(rnd).replace(year=2030), "cal-ext")]
    return out


SHORT_FORMS = ["2021-01-02", "2021W011", "12:30", "T1230Z", "P1DT2H", "PT1.5S", "P1D/2021"]

ND_ZEROS = (0x660, 0x966, 0xFF10, 0x1D7CE, 0x6F0)


def _alnd(s, z):
    return "".join(chr(z + ord(ch) - 48) if "0" <= ch <= "9" else ch for ch in s)


def edits1(s, alpha=ALPHA):
    out = []
    n = len(s)
    for i in range(n):
        out.append(s[:i] + s[i + 1:])
        for a in alpha:
            if a != s[i]:
                out.append(s[:i] + a + s[i + 1:])
    for i in range(n + 1):
        for a in alpha:
            out.append(s[:i] + a + s[i:])
    return out


def _opts_for(k, seed):
    """seed-rotated option combination for the k-th string of a batch"""
    h = (k * 2654435761 + seed * 40503) & 0xFFFFFFFF
    return {"exact": (h >> 3) & 1, "strict": 0 if (h >> 5) % 4 == 0 else 1, "df": (h >> 8) & 1, "yf": 0 if (h >> 10) % 4 == 0 else 1,
            "tz": TZS[(h >> 12) % len(TZS)]}


# ----------------------------------------------------------------------------- items of a case
def strings_of(c):
    fn, a = c["fn"], c["args"]
    if fn == "edit1":
        seed, i, lo, hi = a
        return edits1(base_forms(seed)[i])[lo:hi]
    if fn == "edit2":
        seed, i, n = a
        rnd = random.Random(seed * 1000003 + i)
        f = base_forms(seed)[i]
        out = []
        for _ in range(n):
            e1 = edits1(f)
            s1 = e1[rnd.randrange(len(e1))]
            e2n = len(s1) * (1 + len(ALPHA)) + (len(s1) + 1) * len(ALPHA)
            # one random second edit without materialising the list
            k = rnd.randrange(3)
            p = rnd.randrange(len(s1) + 1)
            ch = rnd.choice(ALPHA)
            if k == 0 and s1:
                p = min(p, len(s1) - 1)
                s2 = s1[:p] + s1[p + 1:]
            elif k == 1 and s1:
                p = min(p, len(s1) - 1)
                s2 = s1[:p] + ch + s1[p + 1:]
            else:
                s2 = s1[:p] + ch + s1[p:]
            out.append(s2)
        return out
    if fn == "edit2all":
        i, lo, hi = a
        e1 = edits1(SHORT_FORMS[i])
        out = []
        for s1 in e1[lo:hi]:
            out += edits1(s1)
        return out
    if fn == "trunc":
        seed = a[0]
        out = []
        for f in base_forms(seed):
            for k in range(len(f) + 1):
                out += [f[:k], f[k:]]
        return out
    if fn == "concat":
        seed, lo, hi = a
        fs = base_forms(seed)
        out = []
        for x in fs[lo:hi]:
            for y in fs:
                for sep in ("", " ", "T", "/"):
                    out.append(x + sep + y)
        return out
    if fn == "random":
        seed, n = a
        rnd = random.Random(seed)
        pools = [ALPHA, ALPHA + "abcxyz_()[]{}\\'\"!?*#", "0123456789", "0123456789-:T", "0123456789PYMDHST.,", "0123456789:. /",
                 ALPHA + "١٩४５\U0001d7d7é中  \x00\n\t", "0123456789٠٣０१-:T "]
        out = []
        for _ in range(n):
            p = rnd.choice(pools)
            out.append("".join(rnd.choice(p) for _ in range(rnd.choice((1, 2, 3, 4, 5, 6, 8, 10, 12, 16, 20, 25)))))
        return out
    if fn == "unicode":
        seed = a[0]
        rnd = random.Random(seed + 5)
        out = []
        for f in base_forms(seed):
            for z in ND_ZEROS:
                out.append(_alnd(f, z))
            # one digit replaced
            pos = [i for i, ch in enumerate(f) if ch.isdigit()]
            for _ in range(3):
                if pos:
                    i = rnd.choice(pos)
                    out.append(f[:i] + chr(rnd.choice(ND_ZEROS) + int(f[i])) + f[i + 1:])
            out += [f + "\ud800", "\udfff" + f, f + "\x00", f + "é", f.replace("T", "Т"), f.replace("-", "−"), f.replace(":", "：")]
        return out
    if fn == "space":
        seed = a[0]
        out = []
        for f in base_forms(seed):
            for w in (" ", "\n", "\t", "\r\n", "\r", "\x0b", " ", "\n\n", " \n"):
                out += [f + w, w + f]
            out += [f.replace("T", "\n"), f.replace(" ", "  "), f.replace("-", " - ")]
        return out
    if fn == "long":
        seed = a[0]
        rnd = random.Random(seed + 11)
        out = []
        nums = ["4294967295", "4294967296", "4294967297", "8589934593", "999999999", "1000000000", "99999999999", "2739726", "2739727", "33333333",
                "9" * 19, "9" * 20, "1" + "0" * 30, "9" * 308, "9" * 310, "1" * 400, "7" * 4300, "7" * 4301, "3" * 5000, "0" * 4400 + "1"]
        for x in nums:
            for t in ("P%sD", "P%sY", "P%sM", "P%sW", "PT%sH", "PT%sM", "PT%sS", "P1DT%sS", "P%sDT1S", "PT1.%sS", "P1.%sD", "PT0.%sH", "P1.%sW", "PT1.%sM",
                      "2021-01-01T00:00:00/P%sD", "PT%sS/2021-01-01T00:00:00Z", "2021-01-01T00:00:00.%s", "2021-01-01T00:00:00.%sZ", "%s", "%s:00", "2021-01-01T%s",
                      "%s-01-01", "2021-%s", "12:00:00.%s", "2021-01-01T00:00:00+%s", "P%s", "%s/%s"):
                if len(x) > 1000 and rnd.random() < 0.5:
                    continue
                out.append(t.replace("%s", x))
        return out
    if fn == "trail":
        seed, i, mode = a
        return trail_strings(base_forms(seed)[i], seed * 131 + i, mode)
    if fn == "given":
        return list(a[0])
    raise ValueError(fn)


# valid prefix + trailing text.  One character of every UTF-8 width (1..4 bytes; for 2..4 bytes a letter/symbol AND a Unicode Nd digit, which the
# pure-Python \\d accepts and the compiled to_digit(10) does not) ...
TRAIL_CHARS = ("x", "\u00e9", "\u0663", "\u2019", "\uff13", "\U0001f600", "\U0001d7d7")
TRAIL_WIDE = ("\u00e9", "\u2019", "\U0001f600")
# ... free text the way it follows a timestamp in a log line / calendar entry / file name
TRAIL_TEXTS = (" \u2013 r\u00e9union d\u2019\u00e9quipe", " heure d\u2019\u00e9t\u00e9", " (Mitteleurop\u00e4ische Zeit)", " \u5348\u524d\u4e5d\u6642\u4e09\u5341\u5206",
               "_backup_\u20acuro.tar", " +- \u00fcn\u00efc\u00f6d\u00e9")
TRAIL_MAX_OFF = 16
_PRINTABLE = "abcdefghijklmnopqrstuvwxyzABCDEFGHIJKLMNOPQRSTUVWXYZ_()[]{}#*!?'\"\\=&%$@;<>|~^` "


def _pads(rnd):
    """three ASCII pad texts of TRAIL_MAX_OFF bytes: letters only, a blank first (the shape of a comment after a timestamp), seeded printable junk"""
    return ("x" * TRAIL_MAX_OFF, " " + "abcdefghijklmnopqrstuvwxyz"[:TRAIL_MAX_OFF - 1], "".join(rnd.choice(_PRINTABLE) for _ in range(TRAIL_MAX_OFF)))


def trail_strings(f, seed, mode):
    """the valid form f followed (or preceded) by text: a character of every UTF-8 width at EVERY byte offset 0..16 of the remainder"""
    rnd = random.Random(seed * 2246822519 + 3)
    pads = _pads(rnd)
    out = []
    if mode == "opts":
        # the compact grid that is run under each fixed option set: multi-byte characters at every offset behind a blank-led ASCII text
        for ch in TRAIL_WIDE:
            for k in range(TRAIL_MAX_OFF + 1):
                out.append(f + pads[1][:k] + ch + " fin")
        return out
    for pi, pad in enumerate(pads):
        for fill in (("", " fin") if pi < 2 else (rnd.choice(("", "yz", " fin de la ligne")),)):
            for ch in TRAIL_CHARS:
                for k in range(TRAIL_MAX_OFF + 1):
                    out.append(f + pad[:k] + ch + fill)
    for ch in TRAIL_CHARS[1:]:
        for n in range(1, 10):
            out.append(f + ch * n)                    # a remainder made of multi-byte characters only
        out += [ch + f, ch * 3 + f, "x" + ch + f]     # leading non-ASCII
    for t in TRAIL_TEXTS:
        for k in range(12):
            out.append(f + "x" * k + t)
    return out


def items_of(c):
    """[(string, opts, level)]; level "top" = pendulum.parse, "iso" = the backend's parse_iso8601"""
    ss = strings_of(c)
    seed = c.get("oseed", 0)
    fixed = c.get("opts")
    out = []
    for k, s in enumerate(ss):
        o = dict(fixed) if fixed is not None else _opts_for(k, seed)
        lvl = "iso" if (fixed is None and (k * 7 + seed) % 11 == 0) else "top"
        out.append((s, o, lvl))
    return out


def _chunks(total, size):
    return [(lo, min(total, lo + size)) for lo in range(0, total, size)]


def cases(tier, seed):
    out = []
    forms = base_forms(seed)
    for i, f in enumerate(forms):
        n = len(f) * (1 + len(ALPHA) - 1) + (len(f) + 1) * len(ALPHA)
        for lo, hi in _chunks(n, BATCH):
            out.append({"stream": "single-edits-all", "fn": "edit1", "args": [seed, i, lo, hi], "oseed": seed + i})
    per = 3200 if tier == "quick" else 8000
    for i in range(len(forms)):
        for j in range(per // BATCH + 1):
            out.append({"stream": "double-edits-sampled", "fn": "edit2", "args": [seed * 31 + j, i, BATCH if tier != "quick" else per // (per // BATCH + 1)], "oseed": seed + j})
    if tier != "quick":
        for i, f in enumerate(SHORT_FORMS):
            n = len(edits1(f))
            for lo, hi in _chunks(n, 4):
                out.append({"stream": "double-edits-all", "fn": "edit2all", "args": [i, lo, hi], "oseed": seed + lo})
    out.append({"stream": "truncations", "fn": "trunc", "args": [seed], "oseed": seed})
    for lo, hi in _chunks(len(forms), 2):
        out.append({"stream": "concatenations", "fn": "concat", "args": [seed, lo, hi], "oseed": seed + lo})
    for j in range(40 if tier == "quick" else 150):
        out.append({"stream": "random-strings", "fn": "random", "args": [seed * 977 + j, BATCH], "oseed": seed + j})
    out.append({"stream": "unicode-digits-and-non-ascii", "fn": "unicode", "args": [seed], "oseed": seed})
    out.append({"stream": "whitespace-newlines", "fn": "space", "args": [seed], "oseed": seed})
    out.append({"stream": "long-digit-runs", "fn": "long", "args": [seed], "oseed": seed})
    for i in range(len(forms)):
        out.append({"stream": "valid-prefix-trailing-text", "fn": "trail", "args": [seed, i, "grid"], "oseed": seed + 3 * i})
        for o in TRAIL_OPTS if tier != "quick" else TRAIL_OPTS[(seed + i) % 2::2]:
            out.append({"stream": "valid-prefix-trailing-text", "fn": "trail", "args": [seed, i, "opts"], "opts": o})
    for o in ({"exact": 0, "strict": 1, "df": 0, "yf": 1, "tz": None}, {"exact": 1, "strict": 1, "df": 1, "yf": 1, "tz": 3600},
              {"exact": 0, "strict": 0, "df": 0, "yf": 0, "tz": None}):
        for w in WITNESSES:      # one case per witness: every listed finding is the first failure of some case
            out.append({"stream": "witnesses", "fn": "given", "args": [[w]], "opts": o})
    # strict=False + day_first=True: the backends' ISO parsers disagree on lenient text and day_first is applied by one of them only
    for w in ("79760906\n", "92\u06637\u0660208"):
        out.append({"stream": "witnesses", "fn": "given", "args": [[w]], "opts": {"exact": 1, "strict": 0, "df": 1, "yf": 1, "tz": None}})
    return out


TRAIL_OPTS = [{"exact": 0, "strict": 1, "df": 0, "yf": 1, "tz": None}, {"exact": 0, "strict": 0, "df": 0, "yf": 1, "tz": None},
              {"exact": 1, "strict": 1, "df": 0, "yf": 1, "tz": 3600}, {"exact": 0, "strict": 1, "df": 1, "yf": 0, "tz": None},
              {"exact": 1, "strict": 0, "df": 1, "yf": 1, "tz": -18000}, {"exact": 0, "strict": 0, "df": 1, "yf": 0, "tz": 20700}]

WITNESSES = ["2:", "2::30", "2:.5", "2021 2:", "20210102 3:", "2021-01-01/P1D", "P1D/2021-01-01", "12:00/P1D", "12:00/13:00", "2021-01-02/12:00", "P1D/P1D", "P/P",
             "P4294967297D", "PT4294967296S", "P99999999999D", "P1000000000D", "P2739727Y", "2021-01-01T00:00:00/P4294967297D",
             "2021-01-01T00:00:00-25:00", "2021-01-01T00:00:00+24:00", "2021-01-01T00:00:00+99:99", "2021-01-01T00:00:00-99:99", "12:00-25:00",
             "2021-01-01T00:00:00/P3000000D", "P3000000D/2021-01-01T00:00:00", "0001-01-01T00:00:00+01:00/PT1H", "0001-01-01T00:00:00+01:00/P1D",
             "0001-01-01T00:00:00+01:00/0001-01-02T00:00:00+01:00", "9999-12-31T23:00:00-02:00/9999-12-31T23:30:00-02:00", "2021-01-01T00:00:00/P9999Y",
             "235959", "012345", "T12:27:38", "2021-W00-1", "2021-W01-0", "P1.25D", "PT1.9999999S", "P1.1W", "P0D1Y", "now", "", "P", "PT", "2021-01-01\n", "P1D\n",
             "٢٠٢١-01-01", "2021/01/0١", "99999999999999999999", "1" * 30, "10:99:99999999999999999999", "Jan 5 2021", "5 Jan", "tomorrow",
             "2021-01-02T03:04:05", "2021-01-02 03:04:05", "2021-01-02T03:04:05.123456789+05:45", "2021-01-2", "2021-0102", "202101-02", "12", "2021-W011", "2021W01-1",
             "79760906\n", "2021-01-01T00:00:00.4294967296", "12:00:00.99999999999",
             # the edges of the calendar: week and ordinal dates whose calendar day lies outside years 1..9999 (9999-W52-6/7 are 10000-01-01/02,
             # 0001-W01-1 is 0001-01-01 but 1000-W.. below the pure-Python %Y range), last/first representable days in every form, with and without time
             "9999-W52-6", "9999-W52-7", "9999W526", "9999W527", "9999-W52-7T10:00:00", "9999-W52-6/P1D", "9999-W52-5", "9999-W52-5T23:59:59.999999",
             "9999-365", "9999-366", "9999365", "9999-12-31T23:59:59.999999+00:00", "9999-12-31T23:59:59-23:59", "0001-W01-1", "0001-001", "0001-01-01T00:00:00+23:59",
             "1000-W01-1", "1001-W01-1", "9998-W52-7", "0000-W01-1", "0000-001", "9999-W53-1", "9999-W00-1"]


def search_cases(seed):
    return [c for c in cases("thorough", seed + 1) if c["stream"] in ("double-edits-sampled", "random-strings", "concatenations", "valid-prefix-trailing-text")]


def nontrivial(c):
    return True


# ----------------------------------------------------------------------------- implementation side
def _off_of(x):
    tz = x.tzinfo
    if tz is None:
        return None
    try:
        o = x.utcoffset()
    except ValueError:
        o = tz.utcoffset(None)       # FixedTimezone answers directly; datetime.utcoffset() refuses |offset| >= 24 h
    return o.days * 86400 + o.seconds


def _canon(r, level):
    import datetime
    import pendulum
    name = type(r).__name__
    mod = type(r).__module__
    if isinstance(r, pendulum.Interval):
        a, b = r.start, r.end
        if isinstance(a, datetime.datetime):
            return [0, 5, 1, a.year, a.month, a.day, a.hour, a.minute, a.second, a.microsecond, _off_of(a),
                    b.year, b.month, b.day, b.hour, b.minute, b.second, b.microsecond, _off_of(b)]
        return [0, 5, 2, a.year, a.month, a.day, 0, 0, 0, 0, 0, b.year, b.month, b.day, 0, 0, 0, 0, 0]
    if isinstance(r, pendulum.Duration):
        td = datetime.timedelta
        return [0, 4, int(r.years), int(r.months), td.days.__get__(r), td.seconds.__get__(r), td.microseconds.__get__(r)]
    if name == "Duration" and mod != "pendulum.duration":
        return [0, 7, r.years, r.months, r.weeks, r.days, r.hours, r.minutes, r.seconds, r.microseconds]
    if level == "top" and not isinstance(r, (pendulum.DateTime, pendulum.Date, pendulum.Time)):
        return [8, name]
    if isinstance(r, datetime.datetime):
        off = _off_of(r)
        return [0, 1, r.year, r.month, r.day, r.hour, r.minute, r.second, r.microsecond, 0 if off is None else 1, off or 0]
    if isinstance(r, datetime.date):
        return [0, 2, r.year, r.month, r.day, 0, 0, 0, 0, 0, 0]
    if isinstance(r, datetime.time):
        off = None if r.tzinfo is None else r.tzinfo.utcoffset(None)
        o = None if off is None else off.days * 86400 + off.seconds
        return [0, 3, 0, 0, 0, r.hour, r.minute, r.second, r.microsecond, 0 if o is None else 1, o or 0]
    return [8, name]


def _exc(e, level):
    """canonical name of what a call raised.  impl_run catches BaseException: an exception outside the Exception hierarchy (pyo3's PanicException for
    a Rust panic, GeneratorExit, a BaseException subclass of an extension module) escapes a caller's `except Exception` as well, so it is recorded
    as its own kind "BaseException:<name>" instead of killing the run; only KeyboardInterrupt / SystemExit are passed on"""
    from pendulum.parsing.exceptions import ParserError
    if isinstance(e, (KeyboardInterrupt, SystemExit)):
        raise e
    if not isinstance(e, Exception):
        return [1, "BaseException:" + type(e).__name__]
    if level == "top" and isinstance(e, ParserError):
        return [1, "ParserError"]
    if isinstance(e, ValueError):
        return [1, "ValueError"]
    return [1, type(e).__name__]


def impl_run(cases):
    import datetime
    import pendulum
    import pendulum.parsing as pp
    from dateutil import parser as du
    from pendulum.tz.timezone import FixedTimezone
    now = datetime.datetime(*NOW)
    tzs = {z: FixedTimezone(z) for z in TZS if z is not None}
    out = []
    for c in cases:
        res = []
        for s, o, lvl in items_of(c):
            if lvl == "iso":
                try:
                    res.append([_canon(pp.parse_iso8601(s), "iso")])
                except BaseException as e:  # noqa
                    res.append([_exc(e, "iso")])
                continue
            # options equal to the documented defaults (exact=False, strict=True, day_first=False, year_first=True) are left out,
            # so that the defaults themselves are under test
            kw = {"now": now}
            if o["exact"]:
                kw["exact"] = True
            if not o["strict"]:
                kw["strict"] = False
            if o["df"]:
                kw["day_first"] = True
            if not o["yf"]:
                kw["year_first"] = False
            if o["tz"] is not None:
                kw["tz"] = tzs[o["tz"]]
            try:
                r = pendulum.parse(s, **kw)
                cr = [0, 6] if s == "now" else _canon(r, "top")
            except BaseException as e:  # noqa
                cr = _exc(e, "top")
            item = [cr]
            if not o["strict"]:
                # what the dateutil fallback alone answers, delivered the way parser.py delivers a datetime
                try:
                    d = du.parse(s, dayfirst=bool(o["df"]), yearfirst=bool(o["yf"]))
                    try:
                        p = pendulum.datetime(d.year, d.month, d.day, d.hour, d.minute, d.second, d.microsecond, tz=d.tzinfo or kw.get("tz", pendulum.UTC))
                        item.append(_canon(p, "top"))
                    except BaseException as e2:  # noqa
                        item.append(_exc(e2, "top"))
                except ValueError:
                    item.append([1, "ParserError"])
                except BaseException as e:  # noqa
                    item.append([1, type(e).__name__] if isinstance(e, Exception) else _exc(e, "top"))
            res.append(item)
        out.append(res)
    return out


# ----------------------------------------------------------------------------- model side
_EXN = {1: "ValueError", 2: "TypeError", 3: "OverflowError", 6: "AttributeError", 9: "ParserError", 13: "OutOfFuel", 14: "Exception", 15: "DATEUTIL"}


def model_calls(c, backend):
    rs = 1 if backend == "rs" else 0
    calls = []
    for s, o, lvl in items_of(c):
        cp = [ord(ch) for ch in s]
        if lvl == "iso":
            calls.append(("iso", [rs] + cp))
        else:
            tz = o["tz"]
            calls.append(("parse", [rs, o["exact"], o["strict"], o["df"], o["yf"], 0 if tz is None else 1, tz or 0, NOW[0], NOW[1], NOW[2]] + cp))
    return calls


def _mres(o, lvl):
    if o[0] == 1:
        name = _EXN.get(o[1], f"exn{o[1]}")
        if lvl == "iso" and name == "ParserError":
            name = "ValueError"
        return [1, name]
    return list(o)


def model_result(c, backend, outs):
    return [_mres(o, lvl) for o, (_s, _o, lvl) in zip(outs, items_of(c))]


def _same_item(m, r):
    if m == [1, "DATEUTIL"]:
        # the chain reached the fallback: parse delivers what dateutil answers; its ValueError (recorded as ParserError by impl_run) and its
        # OverflowError (recorded under its own name, so that an escape is still recognised) both become ParserError (Props/C17.v oracle_delivery)
        # ... and so does a datetime whose tzoffset is 24 h or more (dt.utcoffset() is called inside the same try)
        d = r[1] if len(r) == 2 else None
        rejected = d == [1, "OverflowError"] or (d is not None and d[0] == 0 and d[1] == 1 and d[9] == 1 and abs(d[10]) >= 86400)
        return len(r) == 2 and r[0] == ([1, "ParserError"] if rejected else d)
    return r[0] == m


def same(c, m, r):
    return len(m) == len(r) and all(_same_item(a, b) for a, b in zip(m, r))


# ----------------------------------------------------------------------------- independent recognisers (stdlib re, ASCII classes only)
_D = "[0-9]"
_DATE_EXT = rf"(?:{_D}{{4}}-{_D}{{2}}-{_D}{{2}}|{_D}{{4}}-{_D}{{2}}|{_D}{{4}}-{_D}{{3}}|{_D}{{4}}-W{_D}{{2}}(?:-{_D})?|{_D}{{4}})"
_DATE_BAS = rf"(?:{_D}{{8}}|{_D}{{7}}|{_D}{{4}}W{_D}{{2}}{_D}?|{_D}{{4}})"
_TIME_EXT = rf"{_D}{{2}}(?::{_D}{{2}}(?::{_D}{{2}}(?:[.,]{_D}+)?)?)?"
_TIME_BAS = rf"{_D}{{2}}(?:{_D}{{2}}(?:{_D}{{2}}(?:[.,]{_D}+)?)?)?"
_OFF = rf"(?:Z|[+-]{_D}{{2}}(?::?{_D}{{2}})?)?"
_DT = rf"(?:{_DATE_EXT}(?:[T ]{_TIME_EXT}{_OFF})?|{_DATE_BAS}(?:[T ]{_TIME_BAS}{_OFF})?)"
_TIME = rf"(?:T?{_TIME_EXT}{_OFF}|T{_TIME_BAS}{_OFF}|{_D}{{6}}(?:[.,]{_D}+)?{_OFF})"
_N = rf"{_D}+"
_NF = rf"{_D}+(?:[.,]{_D}+)?"
RE_DT = re.compile(rf"{_DT}\Z")
RE_TIME = re.compile(rf"{_TIME}\Z")
RE_DUR_SHAPE = re.compile(rf"P(?:(?P<W>{_NF})W|(?:(?P<Y>{_NF})Y)?(?:(?P<M>{_NF})M)?(?:(?P<D>{_NF})D)?(?:T(?:(?P<H>{_NF})H)?(?:(?P<m>{_NF})M)?(?:(?P<S>{_NF})S)?)?)\Z")


def dur_components(s):
    """None when s is not in the ISO 8601 duration grammar; else {unit: (int digits, frac digits or None)}"""
    m = RE_DUR_SHAPE.match(s)
    if not m or s.endswith("T") or s == "P":
        return None
    comp = {u: v for u, v in m.groupdict().items() if v is not None}
    if not comp:
        return None
    order = [u for u in ("W", "Y", "M", "D", "H", "m", "S") if u in comp]
    out = {}
    for u in order:
        v = comp[u].replace(",", ".")
        if "." in v:
            if u != order[-1] or u in ("Y", "M"):
                return None                   # a fraction is only allowed on the smallest component, never on years/months
            a, b = v.split(".")
            out[u] = (a, b)
        else:
            out[u] = (v, None)
    return out


def in_grammar(s):
    """ISO 8601 date / time / date-time / duration / interval, RFC 3339, or 'YYYY-MM-DD HH:MM:SS'"""
    if RE_DT.match(s) or RE_TIME.match(s) or dur_components(s) is not None:
        return True
    if s.count("/") == 1:
        a, b = s.split("/")
        da, db = dur_components(a) is not None, dur_components(b) is not None
        ta, tb = bool(RE_DT.match(a)), bool(RE_DT.match(b))
        return (ta and tb) or (ta and db) or (da and tb)
    return False


_US = {"W": 604800 * 10 ** 6, "D": 86400 * 10 ** 6, "H": 3600 * 10 ** 6, "m": 60 * 10 ** 6, "S": 10 ** 6}


def exact_duration(comp):
    """(years, months, lower bound of the rest in us, width of the admissible window in us)"""
    lo = 0
    width = 0
    for u, (a, b) in comp.items():
        if u in ("Y", "M"):
            continue
        lo += _int(a) * _US[u]
        if b is not None:
            width = _US[u]
    return _int(comp.get("Y", ("0", None))[0]), _int(comp.get("M", ("0", None))[0]), lo, width


def _int(ds):
    """int() of an ASCII digit string of any length (CPython refuses more than 4300 digits in one conversion)"""
    v = 0
    for i in range(0, len(ds), 4000):
        ch = ds[i:i + 4000]
        v = v * 10 ** len(ch) + int(ch)
    return v


def _sh(n):
    return str(n) if abs(n).bit_length() < 200 else f"~2^{abs(n).bit_length()}"


def _digits_ok(comp):
    return all(len(a) <= 4300 and (b is None or len(b) <= 4300) for a, b in comp.values())


# ----------------------------------------------------------------------------- the property
def _py_key(c):
    return json.dumps([c["fn"], c["args"], c.get("opts"), c.get("oseed")])


_PY_RES = {}


_RX_SEC_FRAC = re.compile(r"(?:[0-9]{2}:[0-9]{2}:[0-9]{2}|[T ][0-9]{6})[.,]([0-9]+)(?:Z|[+-][0-9]{2}(?::?[0-9]{2})?)?\Z")


def _failures_raw(c, backend, r):
    """[(why, finding id or None)] over the items of the batch"""
    out = []
    items = items_of(c)
    if len(items) != len(r):
        return [(f"batch returned {len(r)} results for {len(items)} strings", None)]
    if backend == "py":
        _PY_RES[_py_key(c)] = r
        other = None
    else:
        other = _PY_RES.get(_py_key(c))
    for k, ((s, o, lvl), item) in enumerate(zip(items, r)):
        res = item[0]
        tag = f"{lvl}({s[:80]!a}{'...' if len(s) > 80 else ''}, {o})"
        # 1. a supported value or a ValueError
        if res[0] == 1 and res[1] not in ("ValueError", "ParserError"):
            out.append((f"{tag} raised {res[1]}", _classify_exc(s, o, lvl, backend, res, item)))
            continue
        if res[0] == 8:
            out.append((f"{tag} returned an unsupported {res[1]}", None))
            continue
        if lvl != "top":
            continue
        # 2. the value must be usable: a DateTime whose utcoffset() raises is not a supported value
        if res[0] == 0 and ((res[1] == 1 and res[9] == 1 and abs(res[10]) >= 86400) or (res[1] == 5 and res[2] == 1 and (abs(res[10]) >= 86400 or abs(res[18]) >= 86400))):
            out.append((f"{tag} returned a DateTime with UTC offset {res[10]} s: utcoffset() raises", _classify_offset(s, o, item)))
            continue
        # 3. no wrapped numbers: unbounded-integer reading of the duration components
        w = _check_wrap(s, res, backend)
        if w:
            out.append((f"{tag}: {w[0]}", w[1]))
            continue
        # 3b. no wrapped numbers in a seconds fraction of any length: the microsecond is the first six fraction digits (extra digits truncated)
        mf = _RX_SEC_FRAC.search(s) if (o["strict"] and res[0] == 0 and res[1] in (1, 3) and "/" not in s) else None
        if mf and res[8] != int((mf.group(1) + "000000")[:6]):
            out.append((f"{tag}: microsecond {res[8]} is not the first six digits of the fraction .{mf.group(1)[:40]} (a wrapped or mis-scaled number)", None))
            continue
        # 4. strict=True accepts only the three grammars
        if o["strict"] and res[0] == 0 and s != "now" and not in_grammar(s):
            out.append((f"{tag} accepted by strict=True outside the ISO 8601 / RFC 3339 / common grammars: {res}", _classify_lenient(s, backend, res)))
            continue
        # 5. the two backends agree whenever both accept
        if other is not None and res[0] == 0 and other[k][0][0] == 0 and other[k][0] != res:
            out.append((f"{tag}: backends disagree: py {other[k][0]} rs {res}", _classify_disagree(s, o, item, other[k])))
    return out


def _classify_exc(s, o, lvl, backend, res, item):
    name = res[1]
    # (findings common-minute-absent-typeerror and interval-non-datetime-endpoint are `fixed`: a TypeError / AttributeError in their former regions
    # is reported as a VIOLATION under the id)
    if name == "TypeError":
        # COMMON matched with the time group present and the minute group absent (own transcription of the pattern BEFORE the repair that made
        # the minute group mandatory; finding common-minute-absent-typeerror is `fixed`, so a TypeError here is reported as a VIOLATION under that id)
        if re.match(r"(?:\d{4}(?:[/:]?\d{2}[/:]?\d{2})?)?(?: ?\d{1,2}):(?::\d{1,2})?(?:[.|,]\d{1,9})?\n?\Z", s) and lvl == "top":
            return "common-minute-absent-typeerror"
        if "/" in s and lvl == "top":
            return "interval-non-datetime-endpoint"
    if name == "AttributeError" and lvl == "top" and s.count("/") == 1 and s[:1] == "P" and s.split("/")[1][:1] == "P":
        return "interval-non-datetime-endpoint"
    if name == "OverflowError":
        # every OverflowError finding is `fixed` (except clauses in parse_iso8601, parser._parse and around dateutil): the ids below only name
        # which repair regressed; the runner reports the input as a VIOLATION
        # (finding dateutil-overflowerror is `fixed`: parsing._parse catches dateutil's OverflowError; an escape is reported as a VIOLATION under that id)
        if lvl == "top" and not o["strict"] and len(item) == 2 and item[1] == [1, "OverflowError"]:
            return "dateutil-overflowerror"
        halves = s.split("/") if s.count("/") == 1 else [s]
        durs = [h for h in halves if h[:1] == "P"]
        if len(halves) == 2 and len(durs) <= 1:
            return "interval-arithmetic-overflowerror" if not durs or _fits(durs[0], backend) else "too-large-overflowerror"
        if durs:
            return "too-large-overflowerror"
    return None


def _fits(d, backend):
    """does the duration text denote something a timedelta can hold (so that an OverflowError is the interval arithmetic's)?"""
    comp = dur_components(d.rstrip("\n"))
    if comp is None:
        return True
    y, mo, lo, _w = exact_duration(comp)
    if backend == "rs":
        y, mo, lo = y % 2 ** 32, mo % 2 ** 32, sum((_int(a) % 2 ** 32) * _US[u] for u, (a, b) in comp.items() if u in _US)
    return lo // _US["D"] + 365 * y + 30 * mo <= 999999999


def _classify_offset(s, o, item):
    # finding offset-out-of-range-accepted is `fixed` (both offset recognisers reject 24 h and more, dt.utcoffset() is checked on the dateutil
    # hand-over): a DateTime with such an offset is reported as a VIOLATION under that id
    # the parsers' own offset syntax [+-]hh[:][mm] at the end of a date-time (or of an interval half), any two-digit hour accepted ...
    m = re.search(r"([+-])(\d{2}):?(\d{2})?(?:/.*)?\n?\Z", s) or re.search(r"([+-])(\d{2}):?(\d{2})?/", s)
    if m:
        return "offset-out-of-range-accepted"
    # ... or the datetime came from the dateutil fallback (strict=False), whose tzoffset is passed on unchecked as well
    if not o["strict"] and len(item) == 2 and item[0] == item[1]:
        return "offset-out-of-range-accepted"
    return None


def _check_wrap(s, res, backend):
    text = s[:-1] if s.endswith("\n") else s
    comp = dur_components(text)
    if comp is not None:
        if not _digits_ok(comp):
            return None
        y, mo, lo, width = exact_duration(comp)
        days = lo // _US["D"] + 365 * y + 30 * mo
        if res[0] == 1:
            return None
        if res[1] != 4:
            return (f"duration text gave {res}", None)
        got = ((res[4] - 365 * res[2] - 30 * res[3]) * 86400 + res[5]) * 10 ** 6 + res[6]
        ok = res[2] == y and res[3] == mo and (lo <= got <= lo + width)
        if ok:
            return None
        big = any(_int(a) >= 2 ** 32 for a, _b in comp.values())
        return (f"value {res} is not the unbounded-integer reading years={_sh(y)} months={_sh(mo)} rest in [{_sh(lo)}, {_sh(lo + width)}] us",
                "rs-u32-wrap" if backend == "rs" and big else ("duration-fraction-arithmetic" if width else None))
    if s.count("/") == 1 and res[0] == 0 and res[1] == 5 and res[2] == 1:
        a, b = s.split("/")
        d = a if a[:1] == "P" else b if b[:1] == "P" else None
        comp = dur_components(d) if d else None
        if comp and "Y" not in comp and "M" not in comp and _digits_ok(comp):
            import datetime
            _y, _mo, lo, width = exact_duration(comp)
            try:
                st = datetime.datetime(*res[3:10]) - datetime.timedelta(seconds=res[10])
                en = datetime.datetime(*res[11:18]) - datetime.timedelta(seconds=res[18])
            except OverflowError:
                return None
            got = (en - st) // datetime.timedelta(microseconds=1)
            if not (lo <= got <= lo + width):
                big = any(_int(x) >= 2 ** 32 for x, _b in comp.values())
                return (f"interval length {got} us is not the unbounded-integer reading [{_sh(lo)}, {_sh(lo + width)}] us",
                        "rs-u32-wrap" if backend == "rs" and big else ("duration-fraction-arithmetic" if width else None))
    return None


_RX_COMMON = r"(?:\d{4}(?:[/:]?\d{2}[/:]?\d{2})?)?(?: ?\d{1,2}:\d{1,2}(?::\d{1,2})?(?:[.|,]\d{1,9})?)?"
_RX_PYISO = (r"(?:\d{4}(?:-?\d{2}(?:-?\d{1,2})?)?|\d{4}-?W\d{2}-?\d?)?"
             r"(?:[T ]?\d{1,2}:?(?:\d{1,2})?:?(?:\d{1,2})?(?:[.,]\d{1,9})?(?:[-+]\d{2}:?(?:\d{2})?|Z)?)?")
_RS_TAIL = r"(?::[0-9]{2}(?::[0-9]{2}(?:[.,][0-9]+)?)?|[0-9]{2}(?:[0-9]{2}(?:[.,][0-9]+)?)?)?(?:Z|[+-][0-9]{2}:?(?:[0-9]{2})?)?"
_RX_RS = (r"(?:[0-9]{4}(?:-W[0-9]{2}(?:-[0-9])?|-[0-9]{2}(?:-[0-9]{2}|[0-9])?|W[0-9]{2}[0-9]?|[0-9]{3,4})(?:[T ][0-9]{2}" + _RS_TAIL + r")?"
          r"|T[0-9]{2}" + _RS_TAIL + r"|[0-9]{2}(?=:)" + _RS_TAIL + r")")
LENIENT = [
    # text outside the three grammars that strict=True accepts; each class is the language of one concrete recogniser of /repo
    # _parse_common: YYYY[/:]MM[/:]DD, one-digit clock fields, '|' as fraction separator, any Unicode digit, a final newline
    ("strict-lenient-common-format", ("py", "rs"), re.compile(_RX_COMMON + r"\n?\Z")),
    # pure-Python ISO8601_DT: any Unicode digit, `$` before a final newline, one-digit day / clock fields, separators mixed or dropped
    ("strict-lenient-python-regex", ("py",), re.compile(_RX_PYISO + r"\n?\Z")),
    # compiled descent: basic date with an hh:mm time, a dangling ':' after the offset hour, fractions after basic seconds of any length
    ("strict-lenient-rust-descent", ("rs",), re.compile(_RX_RS + r"\Z")),
    # duration parsers: designators without a number (P, PT, P1DT), Unicode digits / final newline (Python), a fraction that is not on the last
    # component, out-of-order or repeated designators with zero values (compiled parser; C13 finding rs-order-check-by-zero-test)
    ("strict-lenient-duration", ("py", "rs"), re.compile(r"P[\d.,WYMDHST]*\n?\Z")),
]


def _class_of(h, backend, half=False):
    if RE_DT.match(h) or (not half and RE_TIME.match(h)) or dur_components(h) is not None:
        return "in"
    for fid, backs, rx in LENIENT:
        if backend in backs and rx.match(h):
            return fid
    return None


def _classify_lenient(s, backend, res):
    halves = s.split("/") if (s.count("/") == 1 and res[1] == 5) else [s]
    cl = [_class_of(h, backend, len(halves) == 2) for h in halves]
    if any(k is None for k in cl):
        return None
    ids = [k for k in cl if k != "in"]
    return ids[0] if ids else None


def _classify_disagree(s, o, item, oitem):
    # the listed C13 divergences: a duration (or the duration half of an interval) with a fraction
    halves = s.split("/") if s.count("/") == 1 else [s]
    for h in halves:
        if h[:1] == "P" and re.search(r"[.,]", h):
            return "backends-differ-duration-fraction"
    # strict=False: one backend rejected the text and handed it to dateutil, the other parsed it itself
    if not o["strict"] and len(item) == 2 and len(oitem) == 2 and item[1][0] == 0 and (item[0] == item[1] or oitem[0] == oitem[1]):
        return "backends-differ-dateutil-fallback"
    # day_first=True on text that only ONE backend's ISO parser accepts (pure Python: Unicode digits, a final newline -- finding strict-lenient-python-regex):
    # that backend reads YYYYMMDD, the other rejects the text and COMMON / dateutil apply day_first, so month and day come back swapped
    r_rs, r_py = item[0], oitem[0]
    if o["df"] and not in_grammar(s) and r_rs[0] == 0 and r_py[0] == 0 and r_rs[1] in (1, 2) and r_py[1] in (1, 2) \
            and r_rs[2] == r_py[2] and r_rs[3] == r_py[4] and r_rs[4] == r_py[3] and r_rs[5:9] == r_py[5:9]:
        return "backends-differ-day-first-on-lenient-text"
    # YYYY/MMDD: the pure-Python parser reads two year-only dates (an interval), the compiled parser rejects a bare year and COMMON reads a date
    if re.match(r"\d{4}/\d{4}\n?\Z", s):
        return "backends-differ-interval-vs-common"
    return None


def _fixed_ids():
    """ids of the findings of known_findings/C17.json that are repaired (status "fixed")"""
    import os
    try:
        with open(os.path.join(os.path.dirname(os.path.abspath(__file__)), "..", "..", "known_findings", "C17.json")) as fh:
            return {f["id"] for f in json.load(fh)["findings"] if f.get("status") == "fixed"}
    except (OSError, ValueError, KeyError):
        return set()


_FIXED = _fixed_ids()


def _failures(c, backend, r):
    """a failure inside the region of a REPAIRED finding is not a listed defect any more: it is reported first, unclassified, and names the
    finding that regressed (a batch holds many strings; the other, still listed, failures of the batch must not hide it)"""
    out = [((f"{why} (regression: finding {k} is recorded as repaired)", None) if k in _FIXED else (why, k)) for why, k in _failures_raw(c, backend, r)]
    return sorted(out, key=lambda wk: wk[1] is not None)


def oracle(c, backend, r):
    f = _failures(c, backend, r)
    if not f:
        return None
    unknown = [w for w, k in f if k is None]
    return unknown[0] if unknown else f[0][0]


def known(c, backend, r):
    f = _failures(c, backend, r)
    if f and all(k is not None for _, k in f):
        return f[0][1]
    return None


LEVEL_TEXT = ("Machine-checked Coq theorems about an executable model of the whole pendulum.parse chain (built on the C07/C13 parser models): "
              "parse_total at full strength for the compiled backend (EVERY string, every option combination, any dateutil that returns a datetime or "
              "raises ValueError/OverflowError: a supported value or ValueError/ParserError, nothing else), totality of the pure-Python date/time "
              "post-match code over all strings through the Coq regex matcher and of _parse_common on every string (COMMON's minute group proved "
              "mandatory on the generated pattern), every form returned by _parse_iso8601_interval has date/date-time endpoints (either backend), UTC "
              "offsets of 24 h and more rejected (compiled recogniser: every text; both backends and the dateutil hand-over: witnesses), strict=True "
              "never reaches dateutil; the former escapes (TypeError, AttributeError, OverflowError) are rejection theorems on their witnesses; "
              "refutations by witness for the remaining findings (u32 wrap, backend differences); differential correspondence on ~3*10^5 edited "
              "strings per run and four independent oracles.  The chain itself (parsing.parse/_parse/_normalize/_parse_common/_parse_iso8601_interval, "
              "parser._parse) is translated from /repo on every run and proved equal to the model (model_is_code_*).")
DESIGN_REF = "DESIGN.md section 4 C17"
LEVEL_NOTE = ("The trailing-text stream is inside the model (every string goes through the Coq chain as code points; Props/C17.v "
              "trailing_text_rejected proves the refusal on a 2810-text grid, trailing_text_offsets_covered that the grid reaches every byte offset 0..16); "
              "what the compiled parser does with the BYTES of the remainder (slicing, diagnostics) is outside the code-point model and is checked by the "
              "run's totality oracle on both backends. Trusted: Coq kernel+VM, the reused C07/C13 models and the hand-written glue (tied by correspondence every run), extraction+driver, the "
              "stdlib recognisers of the harness. dateutil is an oracle argument: nothing is assumed about it beyond the stated hypothesis.")
TECHNIQUE = "Coq proof by structural case analysis over result-returning models + differential correspondence on edit neighbourhoods + independent recognisers"
