"""C05 — an interval's length is the exact elapsed time between its endpoints."""
from __future__ import annotations

import datetime as _dt
import random

from vlib import tzcases as T
from vlib import zones

ID = "C05"
PROPS = "Props/C05.v"
VM_SUBSET = 120
RULE = ("ordered pairs of endpoints (a, b). transition-*: for each chosen zone (25 odd/representative zones in quick, every zone in thorough) and each sampled gap/overlap of its tz "
        "table (explicit + POSIX-rule years), pairs of wall probes {start-1s, start-1us, start, start+1us, middle, middle+0.5s, end-1us, end, end+1us, end+1s} x folds "
        "(all four combinations when a probe is repeated) x zone-pair kind {same Timezone object, same name through a second object (Timezone.no_cache / zoneinfo.ZoneInfo / "
        "datetime.timezone native operand), different zone (b = the rendering of a nearby instant in another zone), fixed offset, UTC} x entry point "
        "{b - a, a.diff(b, False), a.diff(b), interval(a, b), interval(a, b, absolute=True), abs(b - a), -(b - a), native - pendulum, pendulum - native}; "
        "span-*: random pairs by span class (< 1 s, < 1 day, < 2^33 s, up to years 1..9999) x zone-pair kind; unit-boundary: spans k*{1 s, 60 s, 3600 s} + {-1, 0, 1} us "
        "for k near powers of two and random, both signs; 2^33 s +- few us; date-pairs, naive-pairs, native operands on skipped wall times, year-1/9999 edges (same tzinfo "
        "object only), type errors. Pendulum endpoints are valid local times (skipped probes are moved past the gap); stdlib endpoints keep skipped wall times. "
        "non-trivial = distinct (entry, a, b, flag) with a != b.")
EXHAUSTIVE = {"quick": False, "thorough": False}
TRUSTED = [
    "zoneinfo.ZoneInfo / datetime.timezone utcoffset() (with fold) and exact integer arithmetic are the specification side of the oracle; no cross-zone == is used",
    "Spec/Zone.v as the model of zoneinfo's utcoffset() (validated at every probe by C02's zone-spec stream and here through every aware endpoint)",
    "Spec/TdFloat.v (SpecFloat binary64) as the meaning of timedelta.total_seconds(), timedelta(seconds=float), float / and int(): validated bit for bit by C09's tdfloat-* streams and here through every case",
    "float premises of the *_partial theorems (explicit hypotheses there, validated on every run because the model executes the real float pipeline and the oracle uses exact integers; "
    "they are THEOREMS — Props/C05.v float_premises_hold, Proofs/FloatRoundTrip*.v through Flocq — and every *_partial theorem is restated without premise): "
    "Hrt = timedelta(seconds=td.total_seconds()) == td for |td| < 2^33 s; H64 = the same round trip is within 64 us for |td| <= 3652059 days; C09's float_split_exact_on_D9; "
    "Hdiv60/Hdiv3600 = int(td.total_seconds() / unit) is the truncated quotient for |td| < 2^33 s",
    "identity of tzinfo objects is supplied by the harness as integers (pendulum.timezone(name) / fixed_timezone(off) / UTC are cached singletons; the harness keeps them alive and checks `is`)",
]
TRUSTED += [
    "Flocq (installed library) correctness theorems for binary64 operations, bridged to Coq's SpecFloat in coq/Proofs/FloatRoundTripBase.v",
    "standard-library axioms reported by Print Assumptions for the unconditional float theorems only (interval_length_exact, interval_length_exact_abs, interval_length_exact_naive_date, "
    "interval_length_64, swap_negates_length, in_seconds_minutes_hours_trunc, sub_native_same_length_exact, float_premises_hold): ClassicalDedekindReals.sig_not_dec, "
    "ClassicalDedekindReals.sig_forall_dec, FunctionalExtensionality.functional_extensionality_dep, Classical_Prop.classic (the real-number axioms Flocq and Reals rest on); "
    "the integer theorems and the *_partial forms are closed under the global context",
]
ASSUMPTIONS = [
    "endpoints are DateTimes that denote valid local times (pendulum never produces a skipped wall time); stdlib operands on a skipped wall time are first normalised by instance() as documented (C02)",
    "both UTC instants lie in years 1..9999, except the edge stream (same tzinfo object) where the model predicts the OverflowError of the hand-made offset removal (known finding)",
    "Interval.__init__'s precise_diff (C06) does not raise (true away from the year-1/9999 edges)",
    "CPython (non-PyPy) branch of duration.py",
]

MEG = T.MEG
DAY = T.US_DAY
B33 = 2 ** 33 * MEG
LO_W = 3 * DAY
HI_W = T.MAX_WALL - 3 * DAY
ENTRIES = ["sub", "diff0", "diff1", "interval0", "interval1", "abs_sub", "neg_sub"]
UNITS = (MEG, 60 * MEG, 3600 * MEG)


# ----------------------------------------------------------------------------- endpoints (stdlib side)
def _aware(ep):
    return ep[0] in ("P", "N") and ep[1] is not None


def _is_dt(ep):
    return ep[0] in ("P", "N")


def _native(ep):
    return ep[0] in ("N", "ND")


def _off(spec, W, f):
    if isinstance(spec, int):
        return spec
    return T.off_s(T.native(W, f, T.ref_zone(spec)))


def _skipped(spec, W):
    return (not isinstance(spec, int)) and spec is not None and _off(spec, W, 0) < _off(spec, W, 1)


def _repeated(spec, W):
    return (not isinstance(spec, int)) and spec is not None and _off(spec, W, 0) > _off(spec, W, 1)


def _valid(spec, W):
    """A wall value that denotes a valid local time: a skipped one is moved past the gap."""
    if _skipped(spec, W):
        return W + (_off(spec, W, 1) - _off(spec, W, 0)) * MEG
    return W


def _inst(ep):
    """UTC instant (microseconds since 0001-01-01) CPython assigns to the endpoint: wall - utcoffset() with fold."""
    k, spec, var, W, f = ep
    if not _aware(ep):
        return W
    return W - _off(spec, W, f) * MEG


def _normalised(ep, how):
    """(wall, fold, instant) of the endpoint after pendulum's operand normalisation (how: 'instance' | 'sub' | None).
    A stdlib value on a skipped wall time is moved by the gap as documented: its instant becomes wall - utcoffset(other fold)."""
    k, spec, var, W, f = ep
    if how is None or not _native(ep) or not _aware(ep):
        return W, f, _inst(ep)
    if _skipped(spec, W):
        g = (_off(spec, W, 1) - _off(spec, W, 0)) * MEG
        W2 = W + g if f else W - g
        return W2, 0, W2 - _off(spec, W2, 0) * MEG
    if isinstance(spec, int):
        return W, 0, _inst(ep)
    return W, f, _inst(ep)


def _canon_key(spec):
    return ("c", spec)


def _obj_key(ep):
    k, spec, var, W, f = ep
    if not _aware(ep):
        return None
    if var == "c":
        return _canon_key(spec)
    return ("x", spec, _native(ep))


def _canon_of(ep):
    """Key of the object instance() attaches to a stdlib endpoint."""
    k, spec, var, W, f = ep
    if var == "x" and _native(ep) and spec == 0:
        return _canon_key("UTC")          # datetime.timezone(0) has tzname 'UTC' -> pendulum.UTC
    return _canon_key(spec)


def _ids(A, B):
    """Integer identities (obj, canon) of the tzinfo objects of both endpoints, consistent within the case."""
    table = {None: 0, _canon_key("UTC"): 1}

    def idx(key):
        if key not in table:
            table[key] = 10 + len(table)
        return table[key]
    out = []
    for ep in (A, B):
        if not _aware(ep):
            out.append((0, 0))
        else:
            out.append((idx(_obj_key(ep)), idx(_canon_of(ep))))
    return out


def _fixed_flag(ep):
    k, spec, var, W, f = ep
    if not _aware(ep):
        return 0
    if var == "x" and _native(ep) and spec == 0:
        return 0
    return 1 if isinstance(spec, int) else 0


# ----------------------------------------------------------------------------- case generation
def _ep(kind, spec, var, W, f):
    if kind == "P" and spec is not None:
        W = _valid(spec, W)
    return [kind, spec, var, W, f]


def _zone_b(kind_pair, name, rnd, zs):
    """(spec_b, var_b, native_b) for a zone-pair kind, a being ('P', name, 'c')."""
    if kind_pair == "same-object":
        return name, "c", False
    if kind_pair == "same-name-pendulum":
        return name, "x", False
    if kind_pair == "same-name-native":
        return name, "x", True
    if kind_pair == "same-object-native":
        return name, "c", True
    if kind_pair == "different-zone":
        other = zs[rnd.randrange(len(zs))]
        return other, "c", rnd.random() < 0.25
    if kind_pair == "fixed-offset":
        return rnd.choice([0, 3600, -3600, 19800, 20700, -12600, 86340, -86340, 1, -1, 45 * 60, 14 * 3600]), rnd.choice("cx"), rnd.random() < 0.3
    return "UTC", "c", rnd.random() < 0.2


PAIR_KINDS = ["same-object", "same-name-pendulum", "same-name-native", "same-object-native", "different-zone", "fixed-offset", "utc"]


def _entry_for(k, A, B):
    """Pick an entry point that the operand kinds allow (round robin)."""
    for j in range(len(ENTRIES)):
        e = ENTRIES[(k + j) % len(ENTRIES)]
        if _allowed(e, A, B):
            return e
    return "interval0"


def _allowed(e, A, B):
    nat_a, nat_b = _native(A), _native(B)
    if e in ("interval0", "interval1"):
        # a naive stdlib datetime given directly to Interval() is made UTC-aware by __init__: kept out (see report), except with another one
        for x in (A, B):
            if x[0] == "N" and x[1] is None:
                return False
        return True
    if e in ("diff0", "diff1"):
        if nat_a:
            return False
        return not (B[0] == "N" and B[1] is None)
    if e == "sub":            # b - a
        if A[0] == "ND" or B[0] == "ND":
            return not nat_b
        return not (nat_a and nat_b)
    return not nat_b          # abs_sub / neg_sub: b must be pendulum (b.__sub__)


def _mk(stream, e, A, B):
    return {"stream": stream, "fn": e, "args": [A, B]}


def _render_b(spec, U):
    if isinstance(spec, int):
        return U + spec * MEG, 0
    w, f, _o = T.ref_render(T.ref_zone(spec), U)
    return w, f


def cases(tier, seed):
    rnd = random.Random(seed)
    out = []
    quick = tier != "thorough"
    zs = zones.pick_zones(rnd, 25 if quick else 90)
    if not quick:
        allz = list(zones.names())
    k = 0
    # ---- around transitions
    for name in (zs if quick else allz):
        deep = quick or name in zs
        trs = T.transition_probes(name, rnd, per_zone=(4 if quick else (12 if deep else 2)), rule_years=(2040, 9998))
        for (tt, o_pre, o_post) in trs:
            probes = [W for W in T.wall_probes(tt, o_pre, o_post) if LO_W < W < HI_W]
            if len(probes) < 2:
                continue
            pairs = [(probes[4], probes[4]), (probes[4], probes[5]), (probes[5], probes[4]), (probes[1], probes[-2]), (probes[-2], probes[1])]
            for _ in range(3 if quick else 5):
                pairs.append((rnd.choice(probes), rnd.choice(probes)))
            for (Wa, Wb) in pairs:
                for pk in PAIR_KINDS:
                    if not quick and not deep and rnd.random() < 0.6:
                        continue
                    spec_b, var_b, nat_b = _zone_b(pk, name, rnd, zs)
                    if pk in ("different-zone", "fixed-offset", "utc"):
                        Ua = _inst(["P", name, "c", _valid(name, Wa), rnd.randrange(2)])
                        wb, fb = _render_b(spec_b, Ua + (Wb - Wa) + rnd.choice([0, 0, 1, -1, 1800 * MEG, -7200 * MEG]))
                        folds = [(rnd.randrange(2), fb)]
                        if _repeated(name, Wa):
                            folds = [(0, fb), (1, fb)]
                        Wb_use = wb
                    else:
                        Wb_use = Wb
                        if _repeated(name, Wa) or _repeated(name, Wb):
                            folds = [(0, 0), (0, 1), (1, 0), (1, 1)]
                        else:
                            folds = [(rnd.randrange(2), rnd.randrange(2))]
                    if not (LO_W < Wb_use < HI_W):
                        continue
                    for (fa, fb) in folds:
                        A = _ep("P", name, "c", Wa, fa)
                        B = _ep("N" if nat_b else "P", spec_b, var_b, Wb_use, fb)
                        if rnd.random() < 0.5:
                            A, B = B, A
                        e = _entry_for(k, A, B)
                        k += 1
                        out.append(_mk("transition-" + pk, e, A, B))
    # ---- span classes
    n_span = 500 if quick else 6000
    classes = [("lt-1s", 1, MEG), ("lt-1day", MEG, DAY), ("lt-2^33s", DAY, B33), ("beyond-2^33s", B33, HI_W - LO_W)]
    for cname, lo, hi in classes:
        for _ in range(n_span):
            span = rnd.randrange(lo, hi)
            Ua = rnd.randrange(LO_W + DAY, HI_W - DAY - span)
            name = zs[rnd.randrange(len(zs))]
            pk = PAIR_KINDS[rnd.randrange(len(PAIR_KINDS))]
            spec_b, var_b, nat_b = _zone_b(pk, name, rnd, zs)
            wa, fa = _render_b(name, Ua)
            wb, fb = _render_b(spec_b, Ua + span)
            A = _ep("P", name, "c", wa, fa)
            B = _ep("N" if nat_b else "P", spec_b, var_b, wb, fb)
            if rnd.random() < 0.5:
                A, B = B, A
            out.append(_mk("span-" + cname, _entry_for(k, A, B), A, B))
            k += 1
    # ---- unit boundaries k*unit + {-1,0,1} us, and the 2^33 s border
    ks = []
    for unit in UNITS:
        kmax = (B33 - 2) // unit
        cand = [1, 2, 59, 60, 61, 3599, 3600, 3601, kmax, kmax - 1]
        p = 1
        while p <= kmax:
            cand += [p - 1, p, p + 1]
            p *= 2
        cand += [rnd.randrange(1, kmax) for _ in range(40 if quick else 1500)]
        for kk in cand:
            if 1 <= kk <= kmax:
                for d in (-1, 0, 1):
                    ks.append(kk * unit + d)
    for d in range(-3, 4):
        ks.append(B33 + d)
    ks += [2 ** j * MEG + d for j in (34, 35, 38) for d in (-1, 0, 1)] + [kk * 3600 * MEG - 1 for kk in (2 ** 24, 2 ** 25 + 1, 3 * 2 ** 24)]
    for span in ks:
        if not (0 < span < HI_W - LO_W - 2 * DAY):
            continue
        Ua = rnd.randrange(LO_W + DAY, HI_W - DAY - span)
        name = rnd.choice(["UTC", "Europe/Paris", "America/New_York", "Asia/Kolkata"])
        pk = rnd.choice(["same-object", "utc", "fixed-offset", "same-name-native"])
        spec_b, var_b, nat_b = _zone_b(pk, name, rnd, zs)
        wa, fa = _render_b(name, Ua)
        wb, fb = _render_b(spec_b, Ua + span)
        A = _ep("P", name, "c", wa, fa)
        B = _ep("N" if nat_b else "P", spec_b, var_b, wb, fb)
        if rnd.random() < 0.5:
            A, B = B, A
        out.append(_mk("unit-boundary", _entry_for(k, A, B), A, B))
        k += 1
    # ---- Date pairs
    for _ in range(300 if quick else 3000):
        da = rnd.randrange(0, 3652059)
        db = rnd.choice([da, da + 1, da - 1, rnd.randrange(0, 3652059), da + rnd.randrange(-400, 400)])
        if not (0 <= db < 3652059):
            continue
        A = ["D", None, "c", da * DAY, 0]
        B = ["ND" if rnd.random() < 0.25 else "D", None, "c", db * DAY, 0]
        out.append(_mk("date-pairs", _entry_for(k, A, B), A, B))
        k += 1
    for da, db in [(0, 3652058), (3652058, 0), (0, 0), (3652058, 3652058), (0, 1), (3652057, 3652058)]:
        A, B = ["D", None, "c", da * DAY, 0], ["D", None, "c", db * DAY, 0]
        for e in ("sub", "diff1", "interval1", "abs_sub"):
            out.append(_mk("date-pairs", e, A, B))
    # ---- naive pairs (wall difference; fold is irrelevant)
    for i in range(300 if quick else 3000):
        wa = rnd.randrange(0, T.MAX_WALL + 1)
        wb = rnd.choice([wa + rnd.randrange(-MEG, MEG), wa + rnd.randrange(-DAY, DAY), rnd.randrange(0, T.MAX_WALL + 1), wa])
        if not (0 <= wb <= T.MAX_WALL):
            continue
        A = ["P", None, "c", wa, rnd.randrange(2)]
        B = ["N" if rnd.random() < 0.3 else "P", None, "c", wb, rnd.randrange(2)]
        if rnd.random() < 0.5:
            A, B = B, A
        out.append(_mk("naive-pairs", _entry_for(k, A, B), A, B))
        k += 1
    for wa, wb in [(0, T.MAX_WALL), (T.MAX_WALL, 0), (0, 1), (T.MAX_WALL - 1, T.MAX_WALL)]:
        for e in ("sub", "diff1", "interval0", "neg_sub"):
            out.append(_mk("naive-pairs", e, ["P", None, "c", wa, 0], ["P", None, "c", wb, 1]))
    # ---- stdlib operands on skipped wall times (normalised by instance() in b - a / a - b)
    for name in zs[:12 if quick else 60]:
        for (tt, o_pre, o_post) in T.transition_probes(name, rnd, per_zone=2, rule_years=(2040,)):
            if o_post <= o_pre:
                continue
            pr = [W for W in T.wall_probes(tt, o_pre, o_post) if LO_W < W < HI_W]
            for W in pr[2:7]:
                for f in (0, 1):
                    N = ["N", name, "x", W, f]
                    P = _ep("P", rnd.choice([name, "UTC", 3600]), "c", W + rnd.randrange(-2 * 3600 * MEG, 2 * 3600 * MEG), rnd.randrange(2))
                    out.append(_mk("native-skipped", "sub", N, P))          # pendulum - native
                    out.append(_mk("native-skipped", "sub", P, N))          # native - pendulum
                    out.append(_mk("native-skipped", "interval0", P, N))    # used as is by __new__
    # ---- the first / last day of the range, same tzinfo object only (the cross-object path ends in C06's precise_diff)
    for off in (3600, -3600, 14 * 3600, -11 * 3600, 1):
        for base in (0, T.MAX_WALL - DAY + 1):
            for _ in range(4):
                wa = base + rnd.randrange(0, DAY)
                wb = base + rnd.randrange(0, DAY)
                A, B = ["P", off, "c", wa, 0], ["P", off, "c", wb, 0]
                out.append(_mk("edge-same-object", rnd.choice(["sub", "diff1", "interval0"]), A, B))
    for name in ("Asia/Tokyo", "America/New_York"):
        for base in (0, T.MAX_WALL - DAY + 1):
            for _ in range(3):
                A, B = ["P", name, "c", base + rnd.randrange(0, DAY), 0], ["P", name, "c", base + rnd.randrange(0, DAY), 0]
                out.append(_mk("edge-same-object", "sub", A, B))
    # ---- type errors
    w = 700000 * DAY + 12345678
    aw, nv, d = ["P", "Europe/Paris", "c", w, 0], ["P", None, "c", w + 5, 0], ["D", None, "c", 700000 * DAY, 0]
    for A, B in [(aw, nv), (nv, aw), (aw, ["N", None, "c", w, 0]), (["N", "UTC", "x", w, 0], nv)]:
        for e in ("sub", "interval0", "interval1"):
            if _allowed(e, A, B):
                out.append(_mk("type-errors", e, A, B))
    for A, B in [(aw, d), (d, aw), (nv, d), (d, nv)]:
        out.append(_mk("type-errors", "interval0", A, B))
        out.append(_mk("type-errors", "interval1", A, B))
    return out


def search_cases(seed):
    return cases("thorough", seed + 1)[::4]


def nontrivial(c):
    A, B = c["args"]
    return A != B


# ----------------------------------------------------------------------------- implementation
def _build(pendulum, zoneinfo, ep, cache):
    k, spec, var, W, f = ep
    y, mo, d, h, mi, s, us = T.fields_of(W)
    if k == "D":
        return pendulum.date(y, mo, d), None
    if k == "ND":
        return _dt.date(y, mo, d), None
    if spec is None:
        tz = None
    else:
        key = _obj_key(ep)
        tz = cache.get(key)
        if tz is None:
            if var == "c":
                tz = T.pzone(spec)
            elif k == "N":
                tz = _dt.timezone(_dt.timedelta(seconds=spec)) if isinstance(spec, int) else zoneinfo.ZoneInfo(spec)
            else:
                tz = pendulum.tz.timezone.FixedTimezone(spec) if isinstance(spec, int) else pendulum.tz.timezone.Timezone.no_cache(spec)
            cache[key] = tz
    if k == "N":
        return _dt.datetime(y, mo, d, h, mi, s, us, tzinfo=tz, fold=f), tz
    if tz is None:
        return pendulum.naive(y, mo, d, h, mi, s, us, fold=f), None
    return pendulum.datetime(y, mo, d, h, mi, s, us, tz=tz, fold=f), tz


def impl_run(cases):
    import zoneinfo

    import pendulum
    td = _dt.timedelta
    out = []
    keep = {}          # keeps every canonical tz object alive (zoneinfo caches weakly)
    for c in cases:
        e = c["fn"]
        A, B = c["args"]
        try:
            cache = {}
            for ep in (A, B):
                if _aware(ep) and ep[2] == "c":
                    cache[_obj_key(ep)] = keep.setdefault(_obj_key(ep), T.pzone(ep[1]))
            a, tza = _build(pendulum, zoneinfo, A, cache)
            b, tzb = _build(pendulum, zoneinfo, B, cache)
        except Exception as ex:  # noqa
            out.append([7, 0])
            continue
        # the objects are what the case says: wall fields, fold, identity of the tzinfo objects
        bad = False
        for ep, x in ((A, a), (B, b)):
            if T.wall_of(x) != ep[3] or (_is_dt(ep) and _aware(ep) and x.fold != ep[4] and not isinstance(ep[1], int)):
                bad = True
            if isinstance(x, pendulum.Date) == _native(ep):
                bad = True
        ia, ib = _ids(A, B)
        if _aware(A) and _aware(B) and ((a.tzinfo is b.tzinfo) != (ia[0] == ib[0])):
            bad = True
        if bad:
            out.append([7, 1])
            continue
        try:
            if e == "sub":
                r = b - a
            elif e == "diff0":
                r = a.diff(b, False)
            elif e == "diff1":
                r = a.diff(b)
            elif e == "interval0":
                r = pendulum.interval(a, b)
            elif e == "interval1":
                r = pendulum.interval(a, b, absolute=True)
            elif e == "abs_sub":
                r = abs(b - a)
            elif e == "neg_sub":
                r = -(b - a)
            else:
                out.append([9])
                continue
            if not isinstance(r, pendulum.Interval):
                out.append([7, 2])
                continue
            n = (td.days.__get__(r) * 86400 + td.seconds.__get__(r)) * MEG + td.microseconds.__get__(r)
            out.append([0, n, r.in_seconds(), r.in_minutes(), r.in_hours(), 1 if r.invert else 0])
        except Exception as ex:  # noqa
            out.append(T.exn_result(ex))
    return out


# ----------------------------------------------------------------------------- model
def _enc(ep, ids):
    k, spec, var, W, f = ep
    return [1 if _is_dt(ep) else 0, 1 if _native(ep) else 0, ids[0], ids[1], _fixed_flag(ep), W, f]


def _zenc(ep):
    k, spec, var, W, f = ep
    if not _aware(ep):
        return [0, 0]
    u = T.unix_of_wall(W)
    return T.zone_enc(spec, u - 90000, u + 90000)


def model_calls(c, backend):
    e = c["fn"]
    A, B = c["args"]
    ia, ib = _ids(A, B)
    za, zb = _zenc(A), _zenc(B)
    ea, eb = _enc(A, ia), _enc(B, ib)
    if e in ("diff0", "interval0"):
        return [("interval", za + zb + ea + eb + [0])]
    if e in ("diff1", "interval1"):
        return [("interval", za + zb + ea + eb + [1])]
    if e == "sub":                       # b - a
        if _native(B):                   # evaluated by a.__rsub__(b)
            return [("rsub", za + zb + ea + eb + [0])]
        return [("sub", zb + za + eb + ea + [0])]
    if e == "abs_sub":
        return [("abs_sub", zb + za + eb + ea + [0])]
    if e == "neg_sub":
        return [("neg_sub", zb + za + eb + ea + [0])]
    return None


def model_result(c, backend, outs):
    return outs[0]


def same(c, m, r):
    return m == r


# ----------------------------------------------------------------------------- the property (stdlib only, exact integers)
def _trunc_div(a, b):
    q = abs(a) // b
    return -q if a < 0 else q


def _expect(c):
    """(expected kind, signed elapsed microseconds, expected invert, Ua, Ub) from the stdlib reading of both endpoints."""
    e = c["fn"]
    A, B = c["args"]
    if _is_dt(A) != _is_dt(B):
        return ("raise", "ValueError")
    if _is_dt(A) and (_aware(A) != _aware(B)):
        return ("raise", "TypeError")
    how_a = "sub" if (e == "sub" and _native(A)) or (e in ("abs_sub", "neg_sub") and _native(A)) else None
    how_b = "sub" if (e == "sub" and _native(B)) else None
    _, _, Ua = _normalised(A, how_a)
    _, _, Ub = _normalised(B, how_b)
    delta = Ub - Ua
    if how_a is None and how_b is None and any(_native(x) and _aware(x) and _skipped(x[1], x[3]) for x in (A, B)):
        # a stdlib value on a skipped wall time used as is: CPython itself orders such values by wall clock against their instants,
        # and __init__ normalises them: the signed length is checked, the ordering (absolute / invert) is outside the statement
        if e in ("diff1", "interval1"):
            return ("ok", delta, None, Ua, Ub, True)
        return ("ok", delta, None, Ua, Ub)
    if e in ("diff1", "interval1", "abs_sub"):
        return ("ok", abs(delta), Ua > Ub, Ua, Ub)
    if e == "neg_sub":
        return ("ok", -delta, Ua < Ub, Ua, Ub)
    return ("ok", delta, Ua > Ub, Ua, Ub)


def oracle(c, backend, r):
    exp = _expect(c)
    e = c["fn"]
    if r[0] not in (0, 1):
        return f"harness could not build the case: {r}"
    if exp[0] == "raise":
        return None if r == [1, T.EXN[exp[1]]] else f"{e}: expected {exp[1]}, got {r}"
    _, delta, inv, Ua, Ub = exp[:5]
    if len(exp) > 5 and r[0] == 0 and abs(r[1]) == abs(delta):
        delta = r[1]
    if r[0] == 1:
        return f"{e}{_show(c)}: raised exception code {r[1]}; the elapsed time between the UTC instants is {delta} us"
    n, isec, imin, ihr, rinv = r[1:6]
    if abs(delta) < B33:
        if n != delta:
            return f"{e}{_show(c)}: length {n} us, exact elapsed time between the UTC instants is {delta} us (|span| < 2^33 s)"
        for nm, got, unit in (("in_seconds", isec, MEG), ("in_minutes", imin, 60 * MEG), ("in_hours", ihr, 3600 * MEG)):
            if got != _trunc_div(delta, unit):
                return f"{e}{_show(c)}: {nm}() = {got}, elapsed {delta} us truncated toward zero is {_trunc_div(delta, unit)}"
    else:
        if abs(n - delta) > 64:
            return f"{e}{_show(c)}: length {n} us deviates {n - delta} us from the elapsed time {delta} us (allowed 64 us)"
        for nm, got, unit in (("in_seconds", isec, MEG), ("in_minutes", imin, 60 * MEG), ("in_hours", ihr, 3600 * MEG)):
            lo, hi = _trunc_div(delta - 64, unit), _trunc_div(delta + 64, unit)
            if not (lo <= got <= hi):
                return f"{e}{_show(c)}: {nm}() = {got} outside [{lo}, {hi}] (elapsed {delta} us +- 64 us truncated)"
    if inv is not None and bool(rinv) != inv:
        return f"{e}{_show(c)}: invert = {bool(rinv)} but the start instant is {'after' if inv else 'not after'} the end instant (elapsed {Ub - Ua} us)"
    return None


def _show(c):
    A, B = c["args"]

    def one(ep):
        k, spec, var, W, f = ep
        return f"{k}:{spec}/{var}:{T.fields_of(W)}:fold={f}"
    return f"(a={one(A)}, b={one(B)})"


def _order_region(c):
    """Both endpoints aware datetimes that carry (before or after instance()) the same tzinfo object, and whose wall order differs from the order of their instants."""
    e = c["fn"]
    A, B = c["args"]
    if not (_is_dt(A) and _is_dt(B) and _aware(A) and _aware(B)):
        return False
    ia, ib = _ids(A, B)
    oa = ia[1] if _native(A) else ia[0]
    ob = ib[1] if _native(B) else ib[0]
    if not (ia[0] == ib[0] or oa == ob):
        return False
    how = "instance"
    Wa, _, Ua = _normalised(A, how)
    Wb, _, Ub = _normalised(B, how)
    return ((Wa > Wb) - (Wa < Wb)) != ((Ua > Ub) - (Ua < Ub))


def known(c, backend, r):
    e = c["fn"]
    A, B = c["args"]
    if r[0] == 0 and _order_region(c):
        return "same-tzinfo-wall-order"
    if r == [1, T.EXN["OverflowError"]] and _aware(A) and _aware(B) and _is_dt(A) and _is_dt(B):
        ia, ib = _ids(A, B)
        oa = ia[1] if (_native(A) and e != "interval0" and e != "interval1" and e[:4] != "diff") else ia[0]
        ob = ib[1] if (_native(B) and e != "interval0" and e != "interval1" and e[:4] != "diff") else ib[0]
        if oa == ob and not all(0 <= u <= T.MAX_WALL for u in (_inst(A), _inst(B))):
            return "edge-overflow-same-tzinfo"
    return None


LEVEL_TEXT = ("Machine-checked Coq theorems about the executable model of Interval.__new__/__init__, DateTime/Date.__sub__/__rsub__/diff and Duration(seconds=float): "
              "for EVERY pair of zones (any tz table), both folds and any wall values the microsecond delta computed by the code is the difference of the two UTC instants "
              "(wall - utcoffset with fold), whichever of the two CPython subtraction rules applies (same tzinfo object: offsets removed by hand; otherwise instants); for endpoints "
              "rendered from instants in well-formed zones it is the difference of those instants (PEP 495 round trip); swapping negates; naive / date pairs give the wall difference; "
              "the only exception is the OverflowError of the hand-made offset removal at the year-1/9999 edge (refuted witness + exact characterisation); absolute=True gives the magnitude "
              "except when both operands share the tzinfo object and their wall order differs from their instant order (refuted witness in a repeated hour + partial theorem outside that region). "
              "The float part (length exact below 2^33 s, within 64 us over the whole calendar, in_seconds/minutes/hours = truncation toward zero) is proved unconditionally: the float round-trip "
              "premises are theorems through Flocq's binary64 correctness (standard real-number axioms), the premise-carrying *_partial forms are kept, plus kernel computation on boundary families. The model is tied to /repo by correspondence on every transition kind x zone-pair kind x fold x entry point, both backends; "
              "the oracle recomputes the elapsed time with zoneinfo utcoffsets and exact integers.")
DESIGN_REF = "DESIGN.md section 4 C05, section 3.2, 3.3"
LEVEL_NOTE = ("Trusted: Coq kernel+VM; Spec/Zone.v as a model of zoneinfo and Spec/TdFloat.v as a model of CPython floats/timedelta (both validated on every run); the hand model "
              "Model/IntervalLen.v (validated by correspondence, both backends); the float premises Hrt/H64/Hsplit/Hdiv are proved (Flocq; real-number axioms of the standard library), so the length theorems hold unconditionally.")
TECHNIQUE = "Coq proof (lia over the zone model; float part through Flocq's binary64 correctness + vm_compute boundary families) + differential correspondence around every tz transition + stdlib integer oracle"


# ---- model = code theorems for the Interval construction (appended) ----
TRUSTED = [t for t in TRUSTED] + ["model_is_code_interval_new (+ _shape, _diff, _sub_datetime, _rsub_datetime, _date_diff, _date_sub_date): Interval.__new__ up to its delta, DateTime.diff / __sub__ / __rsub__ with a datetime operand, Date.diff / __sub__ with a date operand and pendulum.naive are translated from /repo on every run (Gen/IntervalGlue.v, tools/vlib/gens/g17_interval_glue.py) and Model/IntervalLen.v interval_new_delta is PROVED equal to the translated __new__ for every pair of well-formed objects (class-tagged objects of Model/IntervalObj.v: native date / native datetime / pendulum Date / pendulum DateTime) and both values of absolute; the `-` / diff entry points are proved to be 'normalise the operand (pendulum.naive with fold 1 / DateTime.instance / unchanged), then Interval(...)' over the translated pieces. By hand: the class-tagged object model and its native primitives (comparison, subtraction, utcoffset, constructors: tied to CPython by C11's spec_is_stdlib_* theorems), isinstance as tests on the class tag, datetime(...)/date(...) of interval.py = the native constructors, the tail Duration.__new__(cls, seconds=delta.total_seconds()) (Spec/TdFloat.v + Model/Duration.v, C09). STILL hand-written + pinned only: Interval.__init__ (endpoint normalisation through pendulum.instance, _invert, the absolute swap, precise_diff), the component properties, in_*, __contains__, as_duration, __abs__/__neg__, the link from norm_operand to normalise_operand/instance_ep of the model (canonical timezone object of a foreign tzinfo), interval_make / dt_sub as whole records"]
LEVEL_NOTE = LEVEL_NOTE + " " + "model_is_code_interval_new (+ _shape, _diff, _sub_datetime, _rsub_datetime, _date_diff, _date_sub_date): Interval.__new__ up to its delta, DateTime.diff / __sub__ / __rsub__ with a datetime operand, Date.diff / __sub__ with a date operand and pendulum.naive are translated from /repo on every run (Gen/IntervalGlue.v, tools/vlib/gens/g17_interval_glue.py) and Model/IntervalLen.v interval_new_delta is PROVED equal to the translated __new__ for every pair of well-formed objects (class-tagged objects of Model/IntervalObj.v: native date / native datetime / pendulum Date / pendulum DateTime) and both values of absolute; the `-` / diff entry points are proved to be 'normalise the operand (pendulum.naive with fold 1 / DateTime.instance / unchanged), then Interval(...)' over the translated pieces. By hand: the class-tagged object model and its native primitives (comparison, subtraction, utcoffset, constructors: tied to CPython by C11's spec_is_stdlib_* theorems), isinstance as tests on the class tag, datetime(...)/date(...) of interval.py = the native constructors, the tail Duration.__new__(cls, seconds=delta.total_seconds()) (Spec/TdFloat.v + Model/Duration.v, C09). STILL hand-written + pinned only: Interval.__init__ (endpoint normalisation through pendulum.instance, _invert, the absolute swap, precise_diff), the component properties, in_*, __contains__, as_duration, __abs__/__neg__, the link from norm_operand to normalise_operand/instance_ep of the model (canonical timezone object of a foreign tzinfo), interval_make / dt_sub as whole records" + "."


# ---- model = code theorems for Interval.__init__ / components (appended) ----
TRUSTED = [t for t in TRUSTED] + ["model_is_code_interval_init / _interval_init_shape / _interval_make / _instance_ep: Interval.__init__ is translated from /repo up to precise_diff (endpoint normalisation through the translated pendulum.instance -> DateTime.instance(tz=UTC) / pendulum.date, native rebuilds WITH fold, _invert, the absolute swap; its attribute stores become the returned tuple: recognised shape) and proved equal to the endpoint part of interval_make; interval_make as a WHOLE record = translated __new__ delta + duration_of_float_seconds + translated __init__; one endpoint = instance_ep (identity convention: 0 = None, pendulum.UTC = 1 = UTC_ID). Still hand-written + pinned: the link of the `-` operand normalisation to normalise_operand for a native AWARE operand carrying a FOREIGN tzinfo (zoneinfo key / utcoffset-derived fixed offset / tzname: _safe_timezone's non-pendulum branches are not translated; the object model only has pendulum timezone objects), __abs__, __neg__, __contains__, as_duration, _getstate, dt_sub / dt_rsub as whole records"]
LEVEL_NOTE = LEVEL_NOTE + " " + "model_is_code_interval_init / _interval_init_shape / _interval_make / _instance_ep: Interval.__init__ is translated from /repo up to precise_diff (endpoint normalisation through the translated pendulum.instance -> DateTime.instance(tz=UTC) / pendulum.date, native rebuilds WITH fold, _invert, the absolute swap; its attribute stores become the returned tuple: recognised shape) and proved equal to the endpoint part of interval_make; interval_make as a WHOLE record = translated __new__ delta + duration_of_float_seconds + translated __init__; one endpoint = instance_ep (identity convention: 0 = None, pendulum.UTC = 1 = UTC_ID). Still hand-written + pinned: the link of the `-` operand normalisation to normalise_operand for a native AWARE operand carrying a FOREIGN tzinfo (zoneinfo key / utcoffset-derived fixed offset / tzname: _safe_timezone's non-pendulum branches are not translated; the object model only has pendulum timezone objects), __abs__, __neg__, __contains__, as_duration, _getstate, dt_sub / dt_rsub as whole records" + "."


# ---- last batch of model = code theorems (appended) ----
TRUSTED = [t for t in TRUSTED] + ['model_is_code_normalise_operand / _dt_sub / _dt_rsub / _dt_sub_delta / _dt_rsub_delta / _interval_abs / _interval_neg / _neg_of_absolute_interval: the operand normalisation of the translated DateTime.__sub__ / __rsub__ IS normalise_operand of the model, dt_sub / dt_rsub as whole results = interval_make on the normalised operand, Interval.__abs__ / __neg__ translated (= ival_abs / ival_neg at the level of the delta; -i of an absolute Interval is not negated: read off the code). Still hand-written + pinned: __contains__ (Gen/IntervalRange.v py_contains is a separate translation), as_duration, _getstate, the native AWARE operand whose tzinfo is FOREIGN (its canonical object comes from C01 model_is_code_safe_timezone, not yet composed with these theorems)']
LEVEL_NOTE = LEVEL_NOTE + " " + 'model_is_code_normalise_operand / _dt_sub / _dt_rsub / _dt_sub_delta / _dt_rsub_delta / _interval_abs / _interval_neg / _neg_of_absolute_interval: the operand normalisation of the translated DateTime.__sub__ / __rsub__ IS normalise_operand of the model, dt_sub / dt_rsub as whole results = interval_make on the normalised operand, Interval.__abs__ / __neg__ translated (= ival_abs / ival_neg at the level of the delta; -i of an absolute Interval is not negated: read off the code). Still hand-written + pinned: __contains__ (Gen/IntervalRange.v py_contains is a separate translation), as_duration, _getstate, the native AWARE operand whose tzinfo is FOREIGN (its canonical object comes from C01 model_is_code_safe_timezone, not yet composed with these theorems)' + "."
