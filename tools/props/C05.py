"""C05 — an interval's length is the exact elapsed time between its endpoints."""
from __future__ import annotations

import datetime as _dt
import random

from vlib import tzcases as T
from vlib import zones

ID = "C05"
PROPS = "Props/C05.v"
VM_SUBSET = 120
RULE = ("ordered pairs of endpoints (a, b). transition-*: for each chosen zone (25 odd/representative zones in quick, every zone in thorough) and each sampled gap/overlap of its tz "
        "table (explicit + POSIX-rule years), pairs of wall probes {start-1s, start-1us, start, start+1us, middle, middle+0.5s, end-1us, end, end+1us, end+1s} x folds "
        "(all four combinations when a probe is repeated) x zone-pair kind {same Timezone object, same name through a second object (Timezone.no_cache / zoneinfo.ZoneInfo / "
        "datetime.timezone native operand), different zone (b = the rendering of a nearby instant in another zone), fixed offset, UTC} x entry point "
        "{b - a, a.diff(b, False), a.diff(b), interval(a, b), interval(a, b, absolute=True), abs(b - a), -(b - a), native - pendulum, pendulum - native}; "
        "span-*: random pairs by span class (< 1 s, < 1 day, < 2^33 s, up to years 1..9999) x zone-pair kind; unit-boundary: spans k*{1 s, 60 s, 3600 s} + {-1, 0, 1} us "
        "for k near powers of two and random, both signs; 2^33 s +- few us; date-pairs, naive-pairs, native operands on skipped wall times, year-1/9999 edges (same tzinfo "
        "object only), type errors. Pendulum endpoints are valid local times (skipped probes are moved past the gap); stdlib endpoints keep skipped wall times. "
        "foreign-*: endpoints whose tzinfo is NOT a pendulum Timezone / FixedTimezone -- pendulum DateTimes that CARRY a zoneinfo.ZoneInfo (attached by the constructor or by "
        "astimezone()), a datetime.timezone, a hand-written tzinfo subclass (no key / name) or a dateutil tz, and stdlib datetimes with the same objects -- as pairs {same object, "
        "two objects of one zone, foreign vs the pendulum zone of the same name (cached / no_cache), vs another pendulum zone / fixed offset / UTC, vs another foreign zone, "
        "pendulum endpoint vs stdlib endpoint sharing the object, two stdlib endpoints} placed around transitions (10 zones x 3 transitions x 7-8 probe pairs incl. +-1 day / 1 week "
        "across the change and both folds of a repeated hour x 23 pair kinds; dateutil: 7 zones, transitions 1975..2036, 6 kinds), random spans in three classes and fixed-offset pairs, "
        "every entry point; the harness checks in the staged interpreter that the object is not a pendulum zone and that its utcoffset() is the tz database's. "
        "non-trivial = distinct (entry, a, b, flag) with a != b.")
EXHAUSTIVE = {"quick": False, "thorough": False}
TRUSTED = [
    "zoneinfo.ZoneInfo / datetime.timezone utcoffset() (with fold) and exact integer arithmetic are the specification side of the oracle; no cross-zone == is used",
    "Spec/Zone.v as the model of zoneinfo's utcoffset() (validated at every probe by C02's zone-spec stream and here through every aware endpoint)",
    "Spec/TdFloat.v (SpecFloat binary64) as the meaning of timedelta.total_seconds(), timedelta(seconds=float), float / and int(): validated bit for bit by C09's tdfloat-* streams and here through every case",
    "float premises of the *_partial theorems (explicit hypotheses there, validated on every run because the model executes the real float pipeline and the oracle uses exact integers; "
    "they are THEOREMS — Props/C05.v float_premises_hold, Proofs/FloatRoundTrip*.v through Flocq — and every *_partial theorem is restated without premise): "
    "Hrt = timedelta(seconds=td.total_seconds()) == td for |td| < 2^33 s; H64 = the same round trip is within 64 us for |td| <= 3652059 days; C09's float_split_exact_on_D9; "
    "Hdiv60/Hdiv3600 = int(td.total_seconds() / unit) is the truncated quotient for |td| < 2^33 s",
    "identity of tzinfo objects is supplied by the harness as integers (pendulum.timezone(name) / fixed_timezone(off) / UTC are cached singletons; the harness keeps them alive and checks `is`)",
]
TRUSTED += [
    "Flocq (installed library) correctness theorems for binary64 operations, bridged to Coq's SpecFloat in coq/Proofs/FloatRoundTripBase.v",
    "standard-library axioms reported by Print Assumptions for the unconditional float theorems only (interval_length_exact, interval_length_exact_abs, interval_length_exact_naive_date, "
    "interval_length_64, swap_negates_length, in_seconds_minutes_hours_trunc, sub_native_same_length_exact, float_premises_hold): ClassicalDedekindReals.sig_not_dec, "
    "ClassicalDedekindReals.sig_forall_dec, FunctionalExtensionality.functional_extensionality_dep, Classical_Prop.classic (the real-number axioms Flocq and Reals rest on); "
    "the integer theorems and the *_partial forms are closed under the global context",
]
ASSUMPTIONS = [
    "endpoints are DateTimes that denote valid local times (pendulum never produces a skipped wall time); stdlib operands on a skipped wall time are first normalised by instance() as documented (C02)",
    "both UTC instants lie in years 1..9999, except the edge stream (same tzinfo object) where the model predicts the OverflowError of the hand-made offset removal (known finding)",
    "Interval.__init__'s precise_diff (C06) does not raise (true away from the year-1/9999 edges)",
    "CPython (non-PyPy) branch of duration.py",
]

MEG = T.MEG
DAY = T.US_DAY
B33 = 2 ** 33 * MEG
LO_W = 3 * DAY
HI_W = T.MAX_WALL - 3 * DAY
# tzinfo flavours of an endpoint (third field): "c" the cached pendulum zone, "x" a second object (pendulum no_cache zone / stdlib ZoneInfo(key) or
# datetime.timezone on a stdlib endpoint), and the FOREIGN ones, carried by pendulum DateTimes as well as by stdlib datetimes:
#   "z" zoneinfo.ZoneInfo.no_cache(name) / datetime.timezone(offset), attached through the DateTime constructor;  "a" the same object attached through
#   utc.astimezone(obj);  "y" a second such object of the same zone;  "w" a hand-written tzinfo subclass (no key / name);  "d" dateutil.tz.gettz(name)
FOREIGN = ("z", "a", "y", "w", "d")
KEYLESS = ("w", "d")
ENTRIES = ["sub", "diff0", "diff1", "interval0", "interval1", "abs_sub", "neg_sub"]
UNITS = (MEG, 60 * MEG, 3600 * MEG)


# ----------------------------------------------------------------------------- endpoints (stdlib side)
def _aware(ep):
    return ep[0] in ("P", "N") and ep[1] is not None


def _is_dt(ep):
    return ep[0] in ("P", "N")


def _native(ep):
    return ep[0] in ("N", "ND")


def _off(spec, W, f):
    if isinstance(spec, int):
        return spec
    return T.off_s(T.native(W, f, T.ref_zone(spec)))


def _skipped(spec, W):
    return (not isinstance(spec, int)) and spec is not None and _off(spec, W, 0) < _off(spec, W, 1)


def _repeated(spec, W):
    return (not isinstance(spec, int)) and spec is not None and _off(spec, W, 0) > _off(spec, W, 1)


def _valid(spec, W):
    """A wall value that denotes a valid local time: a skipped one is moved past the gap."""
    if _skipped(spec, W):
        return W + (_off(spec, W, 1) - _off(spec, W, 0)) * MEG
    return W


def _inst(ep):
    """UTC instant (microseconds since 0001-01-01) CPython assigns to the endpoint: wall - utcoffset() with fold."""
    k, spec, var, W, f = ep
    if not _aware(ep):
        return W
    return W - _off(spec, W, f) * MEG


def _normalised(ep, how):
    """(wall, fold, instant) of the endpoint after pendulum's operand normalisation (how: 'instance' | 'sub' | None).
    A stdlib value on a skipped wall time is moved by the gap as documented: its instant becomes wall - utcoffset(other fold)."""
    k, spec, var, W, f = ep
    if how is None or not _native(ep) or not _aware(ep):
        return W, f, _inst(ep)
    if _skipped(spec, W):
        g = (_off(spec, W, 1) - _off(spec, W, 0)) * MEG
        W2 = W + g if f else W - g
        return W2, 0, W2 - _off(spec, W2, 0) * MEG
    if isinstance(spec, int):
        return W, 0, _inst(ep)
    return W, f, _inst(ep)


def _canon_key(spec):
    return ("c", spec)


def _obj_key(ep):
    k, spec, var, W, f = ep
    if not _aware(ep):
        return None
    if var == "c":
        return _canon_key(spec)
    if var in FOREIGN:
        # a foreign tzinfo object (not a pendulum Timezone / FixedTimezone); pendulum and stdlib endpoints of one case share it
        return ("z" if var == "a" else var, spec)
    return ("x", spec, _native(ep))


def _canon_of(ep):
    """Key of the object instance() attaches to a stdlib endpoint."""
    k, spec, var, W, f = ep
    if var in ("x", "z", "y", "a") and _native(ep) and spec == 0:
        return _canon_key("UTC")          # datetime.timezone(0) has tzname 'UTC' -> pendulum.UTC
    if var in KEYLESS and _native(ep):
        # no `key`, no `localize`, tzname(None) != 'UTC': _safe_timezone takes utcoffset(dt) -> the cached FixedTimezone of that offset
        return _canon_key(_off(spec, W, f))
    return _canon_key(spec)


def _ids(A, B):
    """Integer identities (obj, canon) of the tzinfo objects of both endpoints, consistent within the case."""
    table = {None: 0, _canon_key("UTC"): 1}

    def idx(key):
        if key not in table:
            table[key] = 10 + len(table)
        return table[key]
    out = []
    for ep in (A, B):
        if not _aware(ep):
            out.append((0, 0))
        else:
            out.append((idx(_obj_key(ep)), idx(_canon_of(ep))))
    return out


def _fixed_flag(ep):
    k, spec, var, W, f = ep
    if not _aware(ep):
        return 0
    if var in ("x", "z", "y", "a") and _native(ep) and spec == 0:
        return 0
    if var in KEYLESS and _native(ep):
        return 1
    return 1 if isinstance(spec, int) else 0


# ----------------------------------------------------------------------------- case generation
def _ep(kind, spec, var, W, f):
    if spec is not None and (kind == "P" or var in KEYLESS):
        W = _valid(spec, W)          # keyless foreign zones (custom subclass, dateutil) read a skipped wall time in their own way: kept out
    return [kind, spec, var, W, f]


def _zone_b(kind_pair, name, rnd, zs):
    """(spec_b, var_b, native_b) for a zone-pair kind, a being ('P', name, 'c')."""
    if kind_pair == "same-object":
        return name, "c", False
    if kind_pair == "same-name-pendulum":
        return name, "x", False
    if kind_pair == "same-name-native":
        return name, "x", True
    if kind_pair == "same-object-native":
        return name, "c", True
    if kind_pair == "different-zone":
        other = zs[rnd.randrange(len(zs))]
        return other, "c", rnd.random() < 0.25
    if kind_pair == "fixed-offset":
        return rnd.choice([0, 3600, -3600, 19800, 20700, -12600, 86340, -86340, 1, -1, 45 * 60, 14 * 3600]), rnd.choice("cx"), rnd.random() < 0.3
    return "UTC", "c", rnd.random() < 0.2


PAIR_KINDS = ["same-object", "same-name-pendulum", "same-name-native", "same-object-native", "different-zone", "fixed-offset", "utc"]


def _entry_for(k, A, B):
    """Pick an entry point that the operand kinds allow (round robin)."""
    for j in range(len(ENTRIES)):
        e = ENTRIES[(k + j) % len(ENTRIES)]
        if _allowed(e, A, B):
            return e
    return "interval0"


def _allowed(e, A, B):
    nat_a, nat_b = _native(A), _native(B)
    if e in ("interval0", "interval1"):
        # a naive stdlib datetime given directly to Interval() is made UTC-aware by __init__: kept out (see report), except with another one
        for x in (A, B):
            if x[0] == "N" and x[1] is None:
                return False
        return True
    if e in ("diff0", "diff1"):
        if nat_a:
            return False
        return not (B[0] == "N" and B[1] is None)
    if e == "sub":            # b - a
        if A[0] == "ND" or B[0] == "ND":
            return not nat_b
        return not (nat_a and nat_b)
    return not nat_b          # abs_sub / neg_sub: b must be pendulum (b.__sub__)


def _mk(stream, e, A, B):
    return {"stream": stream, "fn": e, "args": [A, B]}


def _render_b(spec, U):
    if isinstance(spec, int):
        return U + spec * MEG, 0
    w, f, _o = T.ref_render(T.ref_zone(spec), U)
    return w, f


def cases(tier, seed):
    rnd = random.Random(seed)
    out = []
    quick = tier != "thorough"
    zs = zones.pick_zones(rnd, 25 if quick else 90)
    if not quick:
        allz = list(zones.names())
    k = 0
    # ---- around transitions
    for name in (zs if quick else allz):
        deep = quick or name in zs
        trs = T.transition_probes(name, rnd, per_zone=(4 if quick else (12 if deep else 2)), rule_years=(2040, 9998))
        for (tt, o_pre, o_post) in trs:
            probes = [W for W in T.wall_probes(tt, o_pre, o_post) if LO_W < W < HI_W]
            if len(probes) < 2:
                continue
            pairs = [(probes[4], probes[4]), (probes[4], probes[5]), (probes[5], probes[4]), (probes[1], probes[-2]), (probes[-2], probes[1])]
            for _ in range(3 if quick else 5):
                pairs.append((rnd.choice(probes), rnd.choice(probes)))
            for (Wa, Wb) in pairs:
                for pk in PAIR_KINDS:
                    if not quick and not deep and rnd.random() < 0.6:
                        continue
                    spec_b, var_b, nat_b = _zone_b(pk, name, rnd, zs)
                    if pk in ("different-zone", "fixed-offset", "utc"):
                        Ua = _inst(["P", name, "c", _valid(name, Wa), rnd.randrange(2)])
                        wb, fb = _render_b(spec_b, Ua + (Wb - Wa) + rnd.choice([0, 0, 1, -1, 1800 * MEG, -7200 * MEG]))
                        folds = [(rnd.randrange(2), fb)]
                        if _repeated(name, Wa):
                            folds = [(0, fb), (1, fb)]
                        Wb_use = wb
                    else:
                        Wb_use = Wb
                        if _repeated(name, Wa) or _repeated(name, Wb):
                            folds = [(0, 0), (0, 1), (1, 0), (1, 1)]
                        else:
                            folds = [(rnd.randrange(2), rnd.randrange(2))]
                    if not (LO_W < Wb_use < HI_W):
                        continue
                    for (fa, fb) in folds:
                        A = _ep("P", name, "c", Wa, fa)
                        B = _ep("N" if nat_b else "P", spec_b, var_b, Wb_use, fb)
                        if rnd.random() < 0.5:
                            A, B = B, A
                        e = _entry_for(k, A, B)
                        k += 1
                        out.append(_mk("transition-" + pk, e, A, B))
    # ---- span classes
    n_span = 500 if quick else 6000
    classes = [("lt-1s", 1, MEG), ("lt-1day", MEG, DAY), ("lt-2^33s", DAY, B33), ("beyond-2^33s", B33, HI_W - LO_W)]
    for cname, lo, hi in classes:
        for _ in range(n_span):
            span = rnd.randrange(lo, hi)
            Ua = rnd.randrange(LO_W + DAY, HI_W - DAY - span)
            name = zs[rnd.randrange(len(zs))]
            pk = PAIR_KINDS[rnd.randrange(len(PAIR_KINDS))]
            spec_b, var_b, nat_b = _zone_b(pk, name, rnd, zs)
            wa, fa = _render_b(name, Ua)
            wb, fb = _render_b(spec_b, Ua + span)
            A = _ep("P", name, "c", wa, fa)
            B = _ep("N" if nat_b else "P", spec_b, var_b, wb, fb)
            if rnd.random() < 0.5:
                A, B = B, A
            out.append(_mk("span-" + cname, _entry_for(k, A, B), A, B))
            k += 1
    # ---- unit boundaries k*unit + {-1,0,1} us, and the 2^33 s border
    ks = []
    for unit in UNITS:
        kmax = (B33 - 2) // unit
        cand = [1, 2, 59, 60, 61, 3599, 3600, 3601, kmax, kmax - 1]
        p = 1
        while p <= kmax:
            cand += [p - 1, p, p + 1]
            p *= 2
        cand += [rnd.randrange(1, kmax) for _ in range(40 if quick else 1500)]
        for kk in cand:
            if 1 <= kk <= kmax:
                for d in (-1, 0, 1):
                    ks.append(kk * unit + d)
    for d in range(-3, 4):
        ks.append(B33 + d)
    ks += [2 ** j * MEG + d for j in (34, 35, 38) for d in (-1, 0, 1)] + [kk * 3600 * MEG - 1 for kk in (2 ** 24, 2 ** 25 + 1, 3 * 2 ** 24)]
    for span in ks:
        if not (0 < span < HI_W - LO_W - 2 * DAY):
            continue
        Ua = rnd.randrange(LO_W + DAY, HI_W - DAY - span)
        name = rnd.choice(["UTC", "Europe/Paris", "America/New_York", "Asia/Kolkata"])
        pk = rnd.choice(["same-object", "utc", "fixed-offset", "same-name-native"])
        spec_b, var_b, nat_b = _zone_b(pk, name, rnd, zs)
        wa, fa = _render_b(name, Ua)
        wb, fb = _render_b(spec_b, Ua + span)
        A = _ep("P", name, "c", wa, fa)
        B = _ep("N" if nat_b else "P", spec_b, var_b, wb, fb)
        if rnd.random() < 0.5:
            A, B = B, A
        out.append(_mk("unit-boundary", _entry_for(k, A, B), A, B))
        k += 1
    # ---- Date pairs
    for _ in range(300 if quick else 3000):
        da = rnd.randrange(0, 3652059)
        db = rnd.choice([da, da + 1, da - 1, rnd.randrange(0, 3652059), da + rnd.randrange(-400, 400)])
        if not (0 <= db < 3652059):
            continue
        A = ["D", None, "c", da * DAY, 0]
        B = ["ND" if rnd.random() < 0.25 else "D", None, "c", db * DAY, 0]
        out.append(_mk("date-pairs", _entry_for(k, A, B), A, B))
        k += 1
    for da, db in [(0, 3652058), (3652058, 0), (0, 0), (3652058, 3652058), (0, 1), (3652057, 3652058)]:
        A, B = ["D", None, "c", da * DAY, 0], ["D", None, "c", db * DAY, 0]
        for e in ("sub", "diff1", "interval1", "abs_sub"):
            out.append(_mk("date-pairs", e, A, B))
    # ---- naive pairs (wall difference; fold is irrelevant)
    for i in range(300 if quick else 3000):
        wa = rnd.randrange(0, T.MAX_WALL + 1)
        wb = rnd.choice([wa + rnd.randrange(-MEG, MEG), wa + rnd.randrange(-DAY, DAY), rnd.randrange(0, T.MAX_WALL + 1), wa])
        if not (0 <= wb <= T.MAX_WALL):
            continue
        A = ["P", None, "c", wa, rnd.randrange(2)]
        B = ["N" if rnd.random() < 0.3 else "P", None, "c", wb, rnd.randrange(2)]
        if rnd.random() < 0.5:
            A, B = B, A
        out.append(_mk("naive-pairs", _entry_for(k, A, B), A, B))
        k += 1
    for wa, wb in [(0, T.MAX_WALL), (T.MAX_WALL, 0), (0, 1), (T.MAX_WALL - 1, T.MAX_WALL)]:
        for e in ("sub", "diff1", "interval0", "neg_sub"):
            out.append(_mk("naive-pairs", e, ["P", None, "c", wa, 0], ["P", None, "c", wb, 1]))
    # ---- stdlib operands on skipped wall times (normalised by instance() in b - a / a - b)
    for name in zs[:12 if quick else 60]:
        for (tt, o_pre, o_post) in T.transition_probes(name, rnd, per_zone=2, rule_years=(2040,)):
            if o_post <= o_pre:
                continue
            pr = [W for W in T.wall_probes(tt, o_pre, o_post) if LO_W < W < HI_W]
            for W in pr[2:7]:
                for f in (0, 1):
                    N = ["N", name, "x", W, f]
                    P = _ep("P", rnd.choice([name, "UTC", 3600]), "c", W + rnd.randrange(-2 * 3600 * MEG, 2 * 3600 * MEG), rnd.randrange(2))
                    out.append(_mk("native-skipped", "sub", N, P))          # pendulum - native
                    out.append(_mk("native-skipped", "sub", P, N))          # native - pendulum
                    out.append(_mk("native-skipped", "interval0", P, N))    # used as is by __new__
    # ---- the first / last day of the range, same tzinfo object only (the cross-object path ends in C06's precise_diff)
    for off in (3600, -3600, 14 * 3600, -11 * 3600, 1):
        for base in (0, T.MAX_WALL - DAY + 1):
            for _ in range(4):
                wa = base + rnd.randrange(0, DAY)
                wb = base + rnd.randrange(0, DAY)
                A, B = ["P", off, "c", wa, 0], ["P", off, "c", wb, 0]
                out.append(_mk("edge-same-object", rnd.choice(["sub", "diff1", "interval0"]), A, B))
    for name in ("Asia/Tokyo", "America/New_York"):
        for base in (0, T.MAX_WALL - DAY + 1):
            for _ in range(3):
                A, B = ["P", name, "c", base + rnd.randrange(0, DAY), 0], ["P", name, "c", base + rnd.randrange(0, DAY), 0]
                out.append(_mk("edge-same-object", "sub", A, B))
    # ---- type errors
    w = 700000 * DAY + 12345678
    aw, nv, d = ["P", "Europe/Paris", "c", w, 0], ["P", None, "c", w + 5, 0], ["D", None, "c", 700000 * DAY, 0]
    for A, B in [(aw, nv), (nv, aw), (aw, ["N", None, "c", w, 0]), (["N", "UTC", "x", w, 0], nv)]:
        for e in ("sub", "interval0", "interval1"):
            if _allowed(e, A, B):
                out.append(_mk("type-errors", e, A, B))
    for A, B in [(aw, d), (d, aw), (nv, d), (d, nv)]:
        out.append(_mk("type-errors", "interval0", A, B))
        out.append(_mk("type-errors", "interval1", A, B))
    # ---- endpoints whose tzinfo is FOREIGN (not a pendulum Timezone / FixedTimezone): pendulum DateTimes that carry one and stdlib datetimes
    out += _foreign_cases(rnd, zs, quick, k)
    return out


# (kind, var of a, (native a), what b is)   b: ("same", var, native) same zone name | ("other", var, native) another zone | ("fixed", var, native) | ("utc", var, native)
FOREIGN_KINDS = [
    ("same-object", "z", False, ("same", "z", False)),
    ("same-object-astimezone", "a", False, ("same", "a", False)),
    ("astimezone-vs-constructor", "a", False, ("same", "z", False)),
    ("second-object", "z", False, ("same", "y", False)),
    ("vs-pendulum-same-name", "z", False, ("same", "c", False)),
    ("vs-pendulum-no-cache", "a", False, ("same", "x", False)),
    ("vs-pendulum-other-zone", "z", False, ("other", "c", False)),
    ("vs-foreign-other-zone", "a", False, ("other", "z", False)),
    ("vs-datetime-timezone", "z", False, ("fixed", "z", False)),
    ("vs-pendulum-fixed", "z", False, ("fixed", "c", False)),
    ("vs-pendulum-utc", "a", False, ("utc", "c", False)),
    ("native-same-object", "z", False, ("same", "z", True)),
    ("native-second-object", "z", False, ("same", "x", True)),
    ("native-other-zone", "a", False, ("other", "z", True)),
    ("both-native-same-object", "z", True, ("same", "z", True)),
    ("both-native-second-object", "z", True, ("same", "y", True)),
    ("custom-same-object", "w", False, ("same", "w", False)),
    ("custom-vs-pendulum-same-name", "w", False, ("same", "c", False)),
    ("custom-vs-zoneinfo", "w", False, ("same", "z", False)),
    ("custom-vs-other-zone", "w", False, ("other", "c", False)),
    ("custom-native-same-object", "w", False, ("same", "w", True)),
    ("custom-both-native", "w", True, ("same", "w", True)),
    ("custom-fixed-vs-zone", "z", False, ("fixed", "w", False)),
]
DATEUTIL_KINDS = [
    ("dateutil-same-object", "d", False, ("same", "d", False)),
    ("dateutil-vs-pendulum-same-name", "d", False, ("same", "c", False)),
    ("dateutil-vs-zoneinfo", "d", False, ("same", "z", False)),
    ("dateutil-vs-other-zone", "d", False, ("other", "c", False)),
    ("dateutil-native-same-object", "d", False, ("same", "d", True)),
    ("dateutil-both-native", "d", True, ("same", "d", True)),
]
# zones whose compiled file every reader (zoneinfo, dateutil: 32-bit block, no POSIX rule) presents alike between 1975 and 2036
DATEUTIL_ZONES = ["Europe/Paris", "America/New_York", "Europe/London", "Australia/Lord_Howe", "America/St_Johns", "Asia/Kolkata", "America/Sao_Paulo"]
FIXED_OFFS = [0, 3600, -3600, 19800, 20700, -12600, 86340, -86340, 1, -1, 45 * 60, 14 * 3600]


def _foreign_pair(rnd, zs, name, kinddef, Wa, Wb, fa, fb):
    """Endpoints (A, B) of one foreign pair kind; Wa / Wb are wall probes of `name` (b is re-rendered when it lives in another zone)."""
    kind, var_a, nat_a, (where, var_b, nat_b) = kinddef
    if where == "same":
        spec_b, Wb_use = name, Wb
    else:
        if where == "other":
            spec_b = zs[rnd.randrange(len(zs))]
        elif where == "fixed":
            spec_b = rnd.choice(FIXED_OFFS)
        else:
            spec_b = "UTC"
        if var_b in ("w",) and spec_b == 0:
            spec_b = 3600
        Ua = _inst(["P", name, "c", _valid(name, Wa), fa])
        Wb_use, fb = _render_b(spec_b, Ua + (Wb - Wa) + rnd.choice([0, 0, 1, -1, 1800 * MEG, -7200 * MEG]))
    if not (LO_W < Wb_use < HI_W):
        return None
    if nat_a and not nat_b:
        return None
    A = _ep("N" if nat_a else "P", name, var_a, Wa, fa)
    B = _ep("N" if nat_b else "P", spec_b, var_b, Wb_use, fb)
    return A, B


def _foreign_cases(rnd, zs, quick, k):
    out = []

    def emit(stream, A, B):
        nonlocal k
        if rnd.random() < 0.5:
            A, B = B, A
        e = _entry_for(k, A, B)
        k += 1
        if e in ("interval0", "interval1") or not (_native(A) and _native(B)):
            out.append(_mk(stream, e, A, B))
        else:                                   # two stdlib datetimes only meet pendulum through Interval(...)
            out.append(_mk(stream, "interval0" if k % 2 else "interval1", A, B))

    def around(name, kinds, trs, n_rand):
        for (tt, o_pre, o_post) in trs:
            probes = [W for W in T.wall_probes(tt, o_pre, o_post) if LO_W < W < HI_W]
            if len(probes) < 10:
                continue
            day = rnd.choice([DAY, -DAY, 7 * DAY])
            pairs = [(probes[4], probes[5]), (probes[5], probes[4]), (probes[1], probes[-2]), (probes[0] - 43200 * MEG, probes[0] - 43200 * MEG + day),
                     (probes[0] - 3 * 3600 * MEG, probes[-1] + 5 * 3600 * MEG + 5)]
            for _ in range(n_rand):
                pairs.append((rnd.choice(probes), rnd.choice(probes)))
            for (Wa, Wb) in pairs:
                if not (LO_W < Wa < HI_W and LO_W < Wb < HI_W):
                    continue
                for kd in kinds:
                    if kd[3][0] == "same" and (_repeated(name, Wa) or _repeated(name, Wb)):
                        folds = [(0, 0), (0, 1), (1, 0), (1, 1)]
                    elif _repeated(name, Wa):
                        folds = [(0, 0), (1, 0)]
                    else:
                        folds = [(rnd.randrange(2), rnd.randrange(2))]
                    for (fa, fb) in folds:
                        pr = _foreign_pair(rnd, zs, name, kd, Wa, Wb, fa, fb)
                        if pr is not None:
                            emit("foreign-" + kd[0], pr[0], pr[1])

    zsel = zs[:10] if quick else zs[:40]
    for name in zsel:
        trs = T.transition_probes(name, rnd, per_zone=(2 if quick else 5), rule_years=(2040, 9998))
        if quick and len(trs) > 3:
            trs = rnd.sample(trs, 3)
        around(name, FOREIGN_KINDS, trs, 1 if quick else 2)
    for name in DATEUTIL_ZONES:
        trs = [t for t in T.transition_probes(name, rnd, per_zone=None, rule_years=()) if 5 * 365 * 86400 < t[0] < 66 * 365 * 86400]
        if len(trs) > (2 if quick else 10):
            trs = rnd.sample(trs, 2 if quick else 10)
        around(name, DATEUTIL_KINDS, trs, 1 if quick else 4)
    # random spans: both endpoints rendered from instants
    for cname, lo, hi in [("lt-1day", 1, DAY), ("lt-2^33s", DAY, B33), ("beyond-2^33s", B33, HI_W - LO_W)]:
        for _ in range(150 if quick else 2500):
            span = rnd.randrange(lo, hi)
            Ua = rnd.randrange(LO_W + DAY, HI_W - DAY - span)
            name = zs[rnd.randrange(len(zs))]
            kd = FOREIGN_KINDS[rnd.randrange(len(FOREIGN_KINDS))]
            wa, fa = _render_b(name, Ua)
            kind, var_a, nat_a, (where, var_b, nat_b) = kd
            spec_b = name if where == "same" else (zs[rnd.randrange(len(zs))] if where == "other" else (rnd.choice(FIXED_OFFS[1:]) if where == "fixed" else "UTC"))
            wb, fb = _render_b(spec_b, Ua + span)
            if not (LO_W < wa < HI_W and LO_W < wb < HI_W):
                continue
            emit("foreign-span-" + cname, _ep("N" if nat_a else "P", name, var_a, wa, fa), _ep("N" if nat_b else "P", spec_b, var_b, wb, fb))
    # two fixed-offset foreign objects (datetime.timezone / a hand-written fixed tzinfo): same object, two objects of one offset, two offsets
    for _ in range(160 if quick else 2000):
        span = rnd.choice([rnd.randrange(1, MEG), rnd.randrange(MEG, DAY), rnd.randrange(DAY, B33)])
        Ua = rnd.randrange(LO_W + DAY, HI_W - DAY - span)
        oa = rnd.choice(FIXED_OFFS[1:])
        ob = rnd.choice([oa, oa, rnd.choice(FIXED_OFFS[1:])])
        va = rnd.choice("zw")
        vb = va if ob == oa and rnd.random() < 0.7 else rnd.choice("zwc")
        nat_b = vb != "c" and rnd.random() < 0.3
        A = _ep("P", oa, va, Ua + oa * MEG, 0)
        B = _ep("N" if nat_b else "P", ob, vb, Ua + span + ob * MEG, 0)
        emit("foreign-fixed-pairs", A, B)
    return out


def search_cases(seed):
    return cases("thorough", seed + 1)[::4]


def nontrivial(c):
    A, B = c["args"]
    return A != B


# ----------------------------------------------------------------------------- implementation
def _build(pendulum, zoneinfo, ep, cache):
    k, spec, var, W, f = ep
    y, mo, d, h, mi, s, us = T.fields_of(W)
    if k == "D":
        return pendulum.date(y, mo, d), None
    if k == "ND":
        return _dt.date(y, mo, d), None
    if spec is None:
        tz = None
    else:
        key = _obj_key(ep)
        tz = cache.get(key)
        if tz is None:
            if var == "c":
                tz = T.pzone(spec)
            elif var in FOREIGN:
                tz = _foreign_tz(zoneinfo, spec, var)
            elif k == "N":
                tz = _dt.timezone(_dt.timedelta(seconds=spec)) if isinstance(spec, int) else zoneinfo.ZoneInfo(spec)
            else:
                tz = pendulum.tz.timezone.FixedTimezone(spec) if isinstance(spec, int) else pendulum.tz.timezone.Timezone.no_cache(spec)
            cache[key] = tz
    if k == "N":
        return _dt.datetime(y, mo, d, h, mi, s, us, tzinfo=tz, fold=f), tz
    if tz is None:
        return pendulum.naive(y, mo, d, h, mi, s, us, fold=f), None
    if var in FOREIGN:
        # a pendulum DateTime that CARRIES the foreign tzinfo (pendulum.datetime(tz=...) / instance() would convert it to a pendulum zone)
        if var == "a":
            U = _inst(ep)
            x = pendulum.DateTime(*T.fields_of(U), tzinfo=pendulum.UTC).astimezone(tz)
            if T.wall_of(x) == W and x.fold == f and x.tzinfo is tz:
                return x, tz
        return pendulum.DateTime(y, mo, d, h, mi, s, us, tzinfo=tz, fold=f), tz
    return pendulum.datetime(y, mo, d, h, mi, s, us, tz=tz, fold=f), tz


class _Wrapped(_dt.tzinfo):
    """A hand-written tzinfo: no `key`, no `name`, no `localize`; the rules are those of a stdlib zone (fold aware) or one fixed offset."""

    def __init__(self, inner):
        self._inner = inner

    def utcoffset(self, d):
        return None if d is None else self._inner.utcoffset(d)

    def dst(self, d):
        return None if d is None else self._inner.dst(d)

    def tzname(self, d):
        return None if d is None else self._inner.tzname(d)

    def __repr__(self):
        return f"_Wrapped({self._inner!r})"


def _foreign_tz(zoneinfo, spec, var):
    if isinstance(spec, int):
        base = _dt.timezone(_dt.timedelta(seconds=spec))
        return _Wrapped(base) if var in KEYLESS else base
    if var == "d":
        try:
            from dateutil import tz as _dutz
            got = _dutz.gettz(spec)
            if got is not None and not hasattr(got, "key") and not hasattr(got, "localize"):
                return got
        except Exception:  # noqa
            pass
        return _Wrapped(zoneinfo.ZoneInfo(spec))
    if var == "w":
        return _Wrapped(zoneinfo.ZoneInfo(spec))
    return zoneinfo.ZoneInfo.no_cache(spec)


def impl_run(cases):
    import zoneinfo

    import pendulum
    td = _dt.timedelta
    out = []
    keep = {}          # keeps every canonical tz object alive (zoneinfo caches weakly)
    for c in cases:
        e = c["fn"]
        A, B = c["args"]
        try:
            cache = {}
            for ep in (A, B):
                if _aware(ep) and ep[2] == "c":
                    cache[_obj_key(ep)] = keep.setdefault(_obj_key(ep), T.pzone(ep[1]))
            a, tza = _build(pendulum, zoneinfo, A, cache)
            b, tzb = _build(pendulum, zoneinfo, B, cache)
        except Exception as ex:  # noqa
            out.append([7, 0])
            continue
        # the objects are what the case says: wall fields, fold, identity of the tzinfo objects
        bad = False
        for ep, x in ((A, a), (B, b)):
            if T.wall_of(x) != ep[3] or (_is_dt(ep) and _aware(ep) and x.fold != ep[4] and not isinstance(ep[1], int)):
                bad = True
            if isinstance(x, pendulum.Date) == _native(ep):
                bad = True
            if _is_dt(ep) and _aware(ep) and ep[2] in FOREIGN:
                # the foreign object is what the case says: not a pendulum zone, and its utcoffset() is the one of the tz database
                if isinstance(x.tzinfo, (pendulum.tz.timezone.Timezone, pendulum.tz.timezone.FixedTimezone)):
                    bad = True
                if x.utcoffset() != td(seconds=_off(ep[1], ep[3], ep[4])):
                    bad = True
        ia, ib = _ids(A, B)
        if _aware(A) and _aware(B) and ((a.tzinfo is b.tzinfo) != (ia[0] == ib[0])):
            bad = True
        if bad:
            out.append([7, 1])
            continue
        try:
            if e == "sub":
                r = b - a
            elif e == "diff0":
                r = a.diff(b, False)
            elif e == "diff1":
                r = a.diff(b)
            elif e == "interval0":
                r = pendulum.interval(a, b)
            elif e == "interval1":
                r = pendulum.interval(a, b, absolute=True)
            elif e == "abs_sub":
                r = abs(b - a)
            elif e == "neg_sub":
                r = -(b - a)
            else:
                out.append([9])
                continue
            if not isinstance(r, pendulum.Interval):
                out.append([7, 2])
                continue
            n = (td.days.__get__(r) * 86400 + td.seconds.__get__(r)) * MEG + td.microseconds.__get__(r)
            out.append([0, n, r.in_seconds(), r.in_minutes(), r.in_hours(), 1 if r.invert else 0])
        except Exception as ex:  # noqa
            out.append(T.exn_result(ex))
    return out


# ----------------------------------------------------------------------------- model
def _enc(ep, ids):
    k, spec, var, W, f = ep
    return [1 if _is_dt(ep) else 0, 1 if _native(ep) else 0, ids[0], ids[1], _fixed_flag(ep), W, f]


def _zenc(ep):
    k, spec, var, W, f = ep
    if not _aware(ep):
        return [0, 0]
    u = T.unix_of_wall(W)
    if var in KEYLESS and _native(ep):
        return T.zone_enc(_off(spec, W, f), u - 90000, u + 90000)     # seen by pendulum only through utcoffset() at that point
    return T.zone_enc(spec, u - 90000, u + 90000)


def model_calls(c, backend):
    e = c["fn"]
    A, B = c["args"]
    ia, ib = _ids(A, B)
    za, zb = _zenc(A), _zenc(B)
    ea, eb = _enc(A, ia), _enc(B, ib)
    if e in ("diff0", "interval0"):
        return [("interval", za + zb + ea + eb + [0])]
    if e in ("diff1", "interval1"):
        return [("interval", za + zb + ea + eb + [1])]
    if e == "sub":                       # b - a
        if _native(B):                   # evaluated by a.__rsub__(b)
            return [("rsub", za + zb + ea + eb + [0])]
        return [("sub", zb + za + eb + ea + [0])]
    if e == "abs_sub":
        return [("abs_sub", zb + za + eb + ea + [0])]
    if e == "neg_sub":
        return [("neg_sub", zb + za + eb + ea + [0])]
    return None


def model_result(c, backend, outs):
    return outs[0]


def same(c, m, r):
    return m == r


# ----------------------------------------------------------------------------- the property (stdlib only, exact integers)
def _trunc_div(a, b):
    q = abs(a) // b
    return -q if a < 0 else q


def _expect(c):
    """(expected kind, signed elapsed microseconds, expected invert, Ua, Ub) from the stdlib reading of both endpoints."""
    e = c["fn"]
    A, B = c["args"]
    if _is_dt(A) != _is_dt(B):
        return ("raise", "ValueError")
    if _is_dt(A) and (_aware(A) != _aware(B)):
        return ("raise", "TypeError")
    how_a = "sub" if (e == "sub" and _native(A)) or (e in ("abs_sub", "neg_sub") and _native(A)) else None
    how_b = "sub" if (e == "sub" and _native(B)) else None
    _, _, Ua = _normalised(A, how_a)
    _, _, Ub = _normalised(B, how_b)
    delta = Ub - Ua
    if how_a is None and how_b is None and any(_native(x) and _aware(x) and _skipped(x[1], x[3]) for x in (A, B)):
        # a stdlib value on a skipped wall time used as is: CPython itself orders such values by wall clock against their instants,
        # and __init__ normalises them: the signed length is checked, the ordering (absolute / invert) is outside the statement
        if e in ("diff1", "interval1"):
            return ("ok", delta, None, Ua, Ub, True)
        return ("ok", delta, None, Ua, Ub)
    if e in ("diff1", "interval1", "abs_sub"):
        return ("ok", abs(delta), Ua > Ub, Ua, Ub)
    if e == "neg_sub":
        return ("ok", -delta, Ua < Ub, Ua, Ub)
    return ("ok", delta, Ua > Ub, Ua, Ub)


def oracle(c, backend, r):
    exp = _expect(c)
    e = c["fn"]
    if r[0] not in (0, 1):
        return f"harness could not build the case: {r}"
    if exp[0] == "raise":
        return None if r == [1, T.EXN[exp[1]]] else f"{e}: expected {exp[1]}, got {r}"
    _, delta, inv, Ua, Ub = exp[:5]
    if len(exp) > 5 and r[0] == 0 and abs(r[1]) == abs(delta):
        delta = r[1]
    if r[0] == 1:
        return f"{e}{_show(c)}: raised exception code {r[1]}; the elapsed time between the UTC instants is {delta} us"
    n, isec, imin, ihr, rinv = r[1:6]
    if abs(delta) < B33:
        if n != delta:
            return f"{e}{_show(c)}: length {n} us, exact elapsed time between the UTC instants is {delta} us (|span| < 2^33 s)"
        for nm, got, unit in (("in_seconds", isec, MEG), ("in_minutes", imin, 60 * MEG), ("in_hours", ihr, 3600 * MEG)):
            if got != _trunc_div(delta, unit):
                return f"{e}{_show(c)}: {nm}() = {got}, elapsed {delta} us truncated toward zero is {_trunc_div(delta, unit)}"
    else:
        if abs(n - delta) > 64:
            return f"{e}{_show(c)}: length {n} us deviates {n - delta} us from the elapsed time {delta} us (allowed 64 us)"
        for nm, got, unit in (("in_seconds", isec, MEG), ("in_minutes", imin, 60 * MEG), ("in_hours", ihr, 3600 * MEG)):
            lo, hi = _trunc_div(delta - 64, unit), _trunc_div(delta + 64, unit)
            if not (lo <= got <= hi):
                return f"{e}{_show(c)}: {nm}() = {got} outside [{lo}, {hi}] (elapsed {delta} us +- 64 us truncated)"
    if inv is not None and bool(rinv) != inv:
        return f"{e}{_show(c)}: invert = {bool(rinv)} but the start instant is {'after' if inv else 'not after'} the end instant (elapsed {Ub - Ua} us)"
    return None


def _show(c):
    A, B = c["args"]

    def one(ep):
        k, spec, var, W, f = ep
        return f"{k}:{spec}/{var}:{T.fields_of(W)}:fold={f}"
    return f"(a={one(A)}, b={one(B)})"


def _order_region(c):
    """Both endpoints aware datetimes that carry (before or after instance()) the same tzinfo object, and whose wall order differs from the order of their instants."""
    e = c["fn"]
    A, B = c["args"]
    if not (_is_dt(A) and _is_dt(B) and _aware(A) and _aware(B)):
        return False
    ia, ib = _ids(A, B)
    oa = ia[1] if _native(A) else ia[0]
    ob = ib[1] if _native(B) else ib[0]
    if not (ia[0] == ib[0] or oa == ob):
        return False
    how = "instance"
    Wa, _, Ua = _normalised(A, how)
    Wb, _, Ub = _normalised(B, how)
    return ((Wa > Wb) - (Wa < Wb)) != ((Ua > Ub) - (Ua < Ub))


def known(c, backend, r):
    e = c["fn"]
    A, B = c["args"]
    if r[0] == 0 and _order_region(c):
        return "same-tzinfo-wall-order"
    if r == [1, T.EXN["OverflowError"]] and _aware(A) and _aware(B) and _is_dt(A) and _is_dt(B):
        ia, ib = _ids(A, B)
        oa = ia[1] if (_native(A) and e != "interval0" and e != "interval1" and e[:4] != "diff") else ia[0]
        ob = ib[1] if (_native(B) and e != "interval0" and e != "interval1" and e[:4] != "diff") else ib[0]
        if oa == ob and not all(0 <= u <= T.MAX_WALL for u in (_inst(A), _inst(B))):
            return "edge-overflow-same-tzinfo"
    return None


LEVEL_TEXT = ("Machine-checked Coq theorems about the executable model of Interval.__new__/__init__, DateTime/Date.__sub__/__rsub__/diff and Duration(seconds=float): "
              "for EVERY pair of zones (any tz table), both folds and any wall values the microsecond delta computed by the code is the difference of the two UTC instants "
              "(wall - utcoffset with fold), whichever of the two CPython subtraction rules applies (same tzinfo object: offsets removed by hand; otherwise instants); for endpoints "
              "rendered from instants in well-formed zones it is the difference of those instants (PEP 495 round trip); swapping negates; naive / date pairs give the wall difference; "
              "the only exception is the OverflowError of the hand-made offset removal at the year-1/9999 edge (refuted witness + exact characterisation); absolute=True gives the magnitude "
              "except when both operands share the tzinfo object and their wall order differs from their instant order (refuted witness in a repeated hour + partial theorem outside that region). "
              "The float part (length exact below 2^33 s, within 64 us over the whole calendar, in_seconds/minutes/hours = truncation toward zero) is proved unconditionally: the float round-trip "
              "premises are theorems through Flocq's binary64 correctness (standard real-number axioms), the premise-carrying *_partial forms are kept, plus kernel computation on boundary families. The model is tied to /repo by correspondence on every transition kind x zone-pair kind x fold x entry point, both backends; "
              "the oracle recomputes the elapsed time with zoneinfo utcoffsets and exact integers.")
DESIGN_REF = "DESIGN.md section 4 C05, section 3.2, 3.3"
LEVEL_NOTE = ("Trusted: Coq kernel+VM; Spec/Zone.v as a model of zoneinfo and Spec/TdFloat.v as a model of CPython floats/timedelta (both validated on every run); the hand model "
              "Model/IntervalLen.v (validated by correspondence, both backends); the float premises Hrt/H64/Hsplit/Hdiv are proved (Flocq; real-number axioms of the standard library), so the length theorems hold unconditionally.")
TECHNIQUE = "Coq proof (lia over the zone model; float part through Flocq's binary64 correctness + vm_compute boundary families) + differential correspondence around every tz transition + stdlib integer oracle"


# ---- model = code theorems for the Interval construction (appended) ----
TRUSTED = [t for t in TRUSTED] + ["model_is_code_interval_new (+ _shape, _diff, _sub_datetime, _rsub_datetime, _date_diff, _date_sub_date): Interval.__new__ up to its delta, DateTime.diff / __sub__ / __rsub__ with a datetime operand, Date.diff / __sub__ with a date operand and pendulum.naive are translated from /repo on every run (Gen/IntervalGlue.v, tools/vlib/gens/g17_interval_glue.py) and Model/IntervalLen.v interval_new_delta is PROVED equal to the translated __new__ for every pair of well-formed objects (class-tagged objects of Model/IntervalObj.v: native date / native datetime / pendulum Date / pendulum DateTime) and both values of absolute; the `-` / diff entry points are proved to be 'normalise the operand (pendulum.naive with fold 1 / DateTime.instance / unchanged), then Interval(...)' over the translated pieces. By hand: the class-tagged object model and its native primitives (comparison, subtraction, utcoffset, constructors: tied to CPython by C11's spec_is_stdlib_* theorems), isinstance as tests on the class tag, datetime(...)/date(...) of interval.py = the native constructors, the tail Duration.__new__(cls, seconds=delta.total_seconds()) (Spec/TdFloat.v + Model/Duration.v, C09). STILL hand-written + pinned only: Interval.__init__ (endpoint normalisation through pendulum.instance, _invert, the absolute swap, precise_diff), the component properties, in_*, __contains__, as_duration, __abs__/__neg__, the link from norm_operand to normalise_operand/instance_ep of the model (canonical timezone object of a foreign tzinfo), interval_make / dt_sub as whole records"]
LEVEL_NOTE = LEVEL_NOTE + " " + "model_is_code_interval_new (+ _shape, _diff, _sub_datetime, _rsub_datetime, _date_diff, _date_sub_date): Interval.__new__ up to its delta, DateTime.diff / __sub__ / __rsub__ with a datetime operand, Date.diff / __sub__ with a date operand and pendulum.naive are translated from /repo on every run (Gen/IntervalGlue.v, tools/vlib/gens/g17_interval_glue.py) and Model/IntervalLen.v interval_new_delta is PROVED equal to the translated __new__ for every pair of well-formed objects (class-tagged objects of Model/IntervalObj.v: native date / native datetime / pendulum Date / pendulum DateTime) and both values of absolute; the `-` / diff entry points are proved to be 'normalise the operand (pendulum.naive with fold 1 / DateTime.instance / unchanged), then Interval(...)' over the translated pieces. By hand: the class-tagged object model and its native primitives (comparison, subtraction, utcoffset, constructors: tied to CPython by C11's spec_is_stdlib_* theorems), isinstance as tests on the class tag, datetime(...)/date(...) of interval.py = the native constructors, the tail Duration.__new__(cls, seconds=delta.total_seconds()) (Spec/TdFloat.v + Model/Duration.v, C09). STILL hand-written + pinned only: Interval.__init__ (endpoint normalisation through pendulum.instance, _invert, the absolute swap, precise_diff), the component properties, in_*, __contains__, as_duration, __abs__/__neg__, the link from norm_operand to normalise_operand/instance_ep of the model (canonical timezone object of a foreign tzinfo), interval_make / dt_sub as whole records" + "."


# ---- model = code theorems for Interval.__init__ / components (appended) ----
TRUSTED = [t for t in TRUSTED] + ["model_is_code_interval_init / _interval_init_shape / _interval_make / _instance_ep: Interval.__init__ is translated from /repo up to precise_diff (endpoint normalisation through the translated pendulum.instance -> DateTime.instance(tz=UTC) / pendulum.date, native rebuilds WITH fold, _invert, the absolute swap; its attribute stores become the returned tuple: recognised shape) and proved equal to the endpoint part of interval_make; interval_make as a WHOLE record = translated __new__ delta + duration_of_float_seconds + translated __init__; one endpoint = instance_ep (identity convention: 0 = None, pendulum.UTC = 1 = UTC_ID). Still hand-written + pinned: the link of the `-` operand normalisation to normalise_operand for a native AWARE operand carrying a FOREIGN tzinfo (zoneinfo key / utcoffset-derived fixed offset / tzname: _safe_timezone's non-pendulum branches are not translated; the object model only has pendulum timezone objects), __abs__, __neg__, __contains__, as_duration, _getstate, dt_sub / dt_rsub as whole records"]
LEVEL_NOTE = LEVEL_NOTE + " " + "model_is_code_interval_init / _interval_init_shape / _interval_make / _instance_ep: Interval.__init__ is translated from /repo up to precise_diff (endpoint normalisation through the translated pendulum.instance -> DateTime.instance(tz=UTC) / pendulum.date, native rebuilds WITH fold, _invert, the absolute swap; its attribute stores become the returned tuple: recognised shape) and proved equal to the endpoint part of interval_make; interval_make as a WHOLE record = translated __new__ delta + duration_of_float_seconds + translated __init__; one endpoint = instance_ep (identity convention: 0 = None, pendulum.UTC = 1 = UTC_ID). Still hand-written + pinned: the link of the `-` operand normalisation to normalise_operand for a native AWARE operand carrying a FOREIGN tzinfo (zoneinfo key / utcoffset-derived fixed offset / tzname: _safe_timezone's non-pendulum branches are not translated; the object model only has pendulum timezone objects), __abs__, __neg__, __contains__, as_duration, _getstate, dt_sub / dt_rsub as whole records" + "."


# ---- last batch of model = code theorems (appended) ----
TRUSTED = [t for t in TRUSTED] + ['model_is_code_normalise_operand / _dt_sub / _dt_rsub / _dt_sub_delta / _dt_rsub_delta / _interval_abs / _interval_neg / _neg_of_absolute_interval: the operand normalisation of the translated DateTime.__sub__ / __rsub__ IS normalise_operand of the model, dt_sub / dt_rsub as whole results = interval_make on the normalised operand, Interval.__abs__ / __neg__ translated (= ival_abs / ival_neg at the level of the delta; -i of an absolute Interval is not negated: read off the code). Still hand-written + pinned: __contains__ (Gen/IntervalRange.v py_contains is a separate translation), as_duration, _getstate, the native AWARE operand whose tzinfo is FOREIGN (its canonical object comes from C01 model_is_code_safe_timezone, not yet composed with these theorems)']
LEVEL_NOTE = LEVEL_NOTE + " " + 'model_is_code_normalise_operand / _dt_sub / _dt_rsub / _dt_sub_delta / _dt_rsub_delta / _interval_abs / _interval_neg / _neg_of_absolute_interval: the operand normalisation of the translated DateTime.__sub__ / __rsub__ IS normalise_operand of the model, dt_sub / dt_rsub as whole results = interval_make on the normalised operand, Interval.__abs__ / __neg__ translated (= ival_abs / ival_neg at the level of the delta; -i of an absolute Interval is not negated: read off the code). Still hand-written + pinned: __contains__ (Gen/IntervalRange.v py_contains is a separate translation), as_duration, _getstate, the native AWARE operand whose tzinfo is FOREIGN (its canonical object comes from C01 model_is_code_safe_timezone, not yet composed with these theorems)' + "."


# ---- foreign tzinfo objects (appended) ----
LEVEL_NOTE = LEVEL_NOTE + (" Foreign tzinfo objects (zoneinfo.ZoneInfo, datetime.timezone, hand-written subclass, dateutil) carried by pendulum DateTimes or stdlib datetimes are INSIDE the model: "
                           "an endpoint is (identity of its tzinfo object, tz table, wall, fold), whatever the class of the object; Proofs/C05Foreign.v proves that the delta and every observable of "
                           "the Interval are unchanged when the objects are replaced by others with the same utcoffset() rules and the same `is None` / `is` pattern "
                           "(length_independent_of_tzinfo_class, observed_interval_independent_of_tzinfo_class) and that two aware endpoints sharing one object give the difference of the instants, "
                           "not of the wall values (shared_tzinfo_object_delta_corrects_wall_difference). A keyless foreign object (custom subclass, dateutil) on a stdlib operand of `-` is modelled as "
                           "pendulum sees it: the cached FixedTimezone of its utcoffset() at that point (harness-side encoding, _safe_timezone's foreign branches are not translated). "
                           "Oracle-only part: that dateutil / the subclass answer the tz database's utcoffset() is checked per case in the staged interpreter.")
