"""C06 — Interval components are canonical and rebuild the end from the start."""
from __future__ import annotations

import calendar
import datetime as _dt
import json
import random
import zlib

ID = "C06"
PROPS = "Props/C06.v"
RULE = ("pd-shapes: every (start month/day, end month/day) of seed-rotated year pairs covering the leap patterns, with and without a "
        "time-of-day borrow (sampled to ~1e5 in quick, exhaustive over 6 year pairs in thorough); pd-month-arm / interval-month-arm: every shape of "
        "the region of the repaired finding exact-month-arm (day borrow equal to the month-length difference, start day not the end of the "
        "previous month) for four year pairs, with and without a time borrow (~10k, deterministic); random ordered pairs over years 1..9999 as "
        "naive / UTC / fixed-offset / Date operands; pd-subclass: pendulum.DateTime instances passed directly as both / only the second / only the "
        "first operand (region of the repaired finding rs-second-operand-subclass, its witness first); cross-zone pairs (different fixed offsets incl. :30/:45, month-boundary shifts); "
        "pendulum Interval objects (naive, UTC, fixed, Date, differently named zones) with a + (b - a), add(**components), the reversed interval, "
        "in_months; interval-second-occurrence: Intervals from a UTC / fixed-offset start to an end that is the SECOND occurrence of a repeated wall time in a "
        "DST zone (6 overlaps x 19 spans x 2 start zones; the region of the repaired finding interval-init-drops-fold, listed for C18); direct add()/add_duration with random signed components. "
        "HISTORIES (fn hist: one case = a list of constructions performed in order in ONE process, so a replay is self-contained; every step is judged by the oracle on "
        "its OWN operands, two steps with the same operands must report the same, and the whole history is run in the Gallina model Model/PdHistory.run_history): "
        "history-zone-twins (~500: the same two instants, within hours of a month boundary, written in 2-5 zones in seeded order — UTC, fixed offsets incl. :30/:45, named "
        "zones with and without DST, both ends on the same offset — as Intervals and as direct calls of pendulum.helpers.precise_diff, sometimes with a "
        "differently-named-zones pair in between; the witness UTC then +05:00, -03:30, Asia/Tokyo first), history-fold-twins (120: 6 overlaps x 10 spans x 2 start "
        "zones: one start and the FIRST and the SECOND occurrence of a repeated wall time as end, i.e. equal tzinfo object and wall fields, fold 0 / 1, in either order), "
        "history-wall-twins (250: equal wall fields read as naive / UTC / +05:00 / -03:30 / Asia/Tokyo / mixed zones, and as plain Dates when at midnight), "
        "history-same-elapsed / history-shared-endpoint (250: equal elapsed time from 3-5 different start days; one start with several ends; one end with several starts); "
        "the first step of every history is repeated at its end. "
        "TZINFO CLASSES (own generator): one zone NAME carried by tzinfo objects of different classes — pendulum Timezone, its base class zoneinfo.ZoneInfo, the pytz tzinfo "
        "of the zone, hand-written tzinfo subclasses answering only .key / only .name / only .zone (also for the fixed-offset names of FixedTimezone) — every ordered pair of "
        "classes, 16 zone names + 14 fixed offsets, a <= b k months apart on days next to a month end with local times within |offset| of midnight (so that the UTC calendar "
        "differs from the wall clock), the witness 2021-03-31T00:30+02:00 -> 2021-05-01T00:30+02:00 Timezone/ZoneInfo first: pd-tzclass (~2500 direct helper calls on natives, both "
        "directions + the pure-Python reference; ~10% straddle an offset change: correspondence only), interval-tzclass (~1500 Intervals between pendulum DateTimes that CARRY the "
        "foreign tzinfo — class constructor / astimezone() — with a + (b - a), add(**components), the reversed Interval, and the Interval built from the native endpoints when "
        "pendulum.instance maps both to the zone of that name), history-tzclass-twins (150: the same two wall times under 3-5 class pairs in one process). Oracle: same name and "
        "offset = the shared local calendar, whatever the classes. "
        "Each pd case calls the backend helper in both directions and the "
        "pure-Python helper as reference. A case is non-trivial when the two operands differ.")
EXHAUSTIVE = {"quick": False, "thorough": False}
TRUSTED = ["rustc/pyo3: rust/src/python/helpers.rs::precise_diff is modelled by hand in coq/Model/RustPreciseDiff.v",
           "CPython datetime comparison/subtraction/replace/+timedelta are named primitives in coq/Model/PdBase.v on Spec/Cal.v, validated by the correspondence",
           "Interval glue (component properties, DateTime.add for fixed offsets) is modelled by hand in coq/Model/PdInterval.v",
           "a process history is modelled as a straight-line program over immutable operands (coq/Model/PdHistory.run_history = map eval_step): that CPython performs "
           "the constructions of a history in order is trusted; that nothing else is carried from one construction to the next is CHECKED by the history-* streams on every run"]
ASSUMPTIONS = ["the elapsed Duration of an Interval is modelled exactly; the implementation goes through float total_seconds(), exact below 2^33 s "
               "(longer spans: only the PreciseDiff-derived components are compared and the float-derived ones are checked by the oracle)",
               "operands whose UTC instant is outside years 1..9999 are outside the model (CPython raises OverflowError when it shifts them)",
               "the equality exception of CPython for aware datetimes inside a DST gap is not modelled (no such operands are generated)"]
VM_SUBSET = 120

EXN = {1: "ValueError", 2: "TypeError", 3: "OverflowError", 5: "RuntimeError"}
TWO33 = (1 << 33) * 10**6


# ----------------------------------------------------------------------------- operands
# op = [kind, y, m, d, hh, mm, ss, us, tz]; kind "date"|"dt"; tz: None | ["utc"] | ["fixed", s] | ["putc"] | ["pfixed", s] | ["pzone", name, fold, offset]
#      | [k, name, fold, offset] with k in FOREIGN: a tzinfo that is NOT a pendulum class but answers the name `name` to _get_tzinfo_name / get_tz_name:
#        "zi" zoneinfo.ZoneInfo(name) (.key; pendulum's Timezone is a SUBCLASS of it), "pytz" the pytz tzinfo of the zone in force (.zone; a hand-written
#        tzinfo with .zone when pytz is not importable or reads another offset), "akey" / "aname" / "azone" a hand-written tzinfo subclass whose only
#        name attribute is key / name / zone (name may also be a fixed-offset name such as "+05:30", the name of pendulum's FixedTimezone)
FOREIGN = ("zi", "pytz", "akey", "aname", "azone")
def tz_offset(tz):
    if tz is None or tz[0] in ("utc", "putc"):
        return 0
    if tz[0] in ("fixed", "pfixed"):
        return tz[1]
    return tz[3]


def tz_name(tz):
    if tz is None or tz[0] in ("utc", "fixed"):
        return None
    if tz[0] == "putc":
        return "UTC"
    if tz[0] == "pfixed":
        s = tz[1]
        sign = "-" if s < 0 else "+"
        s = abs(s)
        return f"{sign}{s // 3600:02d}:{s % 3600 // 60:02d}"
    return tz[1]


def tz_obj_id(tz):
    if tz is None:
        return 0
    if tz[0] == "pzone":
        return zlib.crc32(("pzone" + tz[1]).encode()) % 10**9 + 1
    if tz[0] in FOREIGN:     # one object per (class, name); pytz keeps one tzinfo object per offset of a zone
        return zlib.crc32((tz[0] + tz[1] + (str(tz[3]) if tz[0] == "pytz" else "")).encode()) % 10**9 + 1
    return zlib.crc32(json.dumps(tz).encode()) % 10**9 + 1


def name_id(n):
    return 0 if n is None else zlib.crc32(n.encode()) % 10**9 + 1


def _is_foreign(op):
    return op[0] == "dt" and op[8] is not None and op[8][0] in FOREIGN


def enc(op):
    kind, y, m, d, hh, mm, ss, us, tz = op
    if kind == "date":
        return [y, m, d, 0, 0, 0, 0, 0, 0, 0, 0, 0]
    return [y, m, d, hh, mm, ss, us, tz_offset(tz), int(tz is not None), name_id(tz_name(tz)), tz_obj_id(tz), 1]


def wall_us(op):
    kind, y, m, d, hh, mm, ss, us, tz = op
    return ((_dt.date(y, m, d).toordinal() - 1) * 86400 + hh * 3600 + mm * 60 + ss) * 10**6 + us


def instant_us(op):
    return wall_us(op) - tz_offset(op[8]) * 10**6


def fields_of(w):
    days, t = divmod(w, 86400 * 10**6)
    if not (0 <= days < 3652059):
        return None
    dd = _dt.date.fromordinal(days + 1)
    s, us = divmod(t, 10**6)
    return [dd.year, dd.month, dd.day, s // 3600, s // 60 % 60, s % 60, us]


def comparable(a, b):
    return a[0] == b[0] and ((a[8] is None) == (b[8] is None))


def key(a, b, x):
    """the number CPython compares for operands a, b"""
    if x[0] == "date":
        return _dt.date(x[1], x[2], x[3]).toordinal()
    if a[8] is not None and b[8] is not None and tz_obj_id(a[8]) != tz_obj_id(b[8]):
        return instant_us(x)
    return wall_us(x)


def in_model_domain(op):
    return op[0] == "date" or op[8] is None or 0 <= instant_us(op) < 3652059 * 86400 * 10**6


# ----------------------------------------------------------------------------- case generation
def _rand_time(rnd):
    r = rnd.random()
    if r < 0.15:
        return [0, 0, 0, 0]
    if r < 0.3:
        return [23, 59, 59, 999999]
    if r < 0.4:
        return [rnd.choice([0, 23]), rnd.choice([0, 59]), rnd.choice([0, 59]), rnd.choice([0, 1, 999999])]
    return [rnd.randrange(24), rnd.randrange(60), rnd.randrange(60), rnd.randrange(10**6)]


def _rand_date(rnd, lo=1, hi=9999):
    y = rnd.randrange(lo, hi + 1)
    m = rnd.randrange(1, 13)
    dim = calendar.monthrange(y, m)[1]
    d = rnd.choice([1, 2, dim - 1, dim, rnd.randrange(1, dim + 1), rnd.randrange(1, dim + 1)])
    return [y, m, d]


OFFSETS = [3600, 7200, -3600, -18000, 19800, 20700, -12600, 43200, -39600, 50400, 1800, -1800, 86340, -86340, 3661, -3661, 60, -60, 1, -1]


def _order(a, b):
    if comparable(a, b) and key(a, b, a) > key(a, b, b):
        return b, a
    return a, b


def _mk(kind, ymd, t, tz):
    return [kind] + ymd + (t if kind == "dt" else [0, 0, 0, 0]) + [tz if kind == "dt" else None]


def cases(tier, seed):
    rnd = random.Random(seed * 7919 + 6)
    out = []
    quick = tier == "quick"
    # ---- enumerated shapes: every (m1,d1) x (m2,d2) for year pairs, with/without time borrow (naive datetimes, direct calls)
    pairs_all = [(2019, 2019), (2020, 2020), (2019, 2020), (2020, 2021), (2023, 2025), (2096, 2104), (1900, 1900), (2000, 2000), (1896, 1904), (1, 2), (9998, 9999)]
    k = seed % len(pairs_all)
    pairs = (pairs_all[k:] + pairs_all[:k])[: (3 if quick else 6)]
    shapes = []
    for (y1, y2) in pairs:
        for m1 in range(1, 13):
            for d1 in range(1, calendar.monthrange(y1, m1)[1] + 1):
                for m2 in range(1, 13):
                    for d2 in range(1, calendar.monthrange(y2, m2)[1] + 1):
                        if (y1, m1, d1) <= (y2, m2, d2):
                            shapes.append((y1, m1, d1, y2, m2, d2))
    if quick:
        # all month-end/month-start shapes, plus a seeded sample of the rest
        edge = [s for s in shapes if s[2] >= 28 or s[2] <= 2 or s[5] >= 28 or s[5] <= 2]
        rest = [s for s in shapes if not (s[2] >= 28 or s[2] <= 2 or s[5] >= 28 or s[5] <= 2)]
        shapes = rnd.sample(edge, min(len(edge), 45000)) + rnd.sample(rest, min(len(rest), 15000))
    for (y1, m1, d1, y2, m2, d2) in shapes:
        borrow = rnd.random() < 0.5
        t1, t2 = _rand_time(rnd), _rand_time(rnd)
        if (t2 < t1) != borrow:
            t1, t2 = t2, t1
        if (y1, m1, d1) == (y2, m2, d2) and t2 < t1:
            t1, t2 = t2, t1
        kind = "date" if rnd.random() < 0.08 else "dt"
        tz = rnd.choice([None, None, ["utc"], ["fixed", rnd.choice(OFFSETS)]])
        out.append({"stream": "pd-shapes", "fn": "pd", "args": [_mk(kind, [y1, m1, d1], t1, tz), _mk(kind, [y2, m2, d2], t2, tz)]})
    # ---- the region of the (repaired) finding exact-month-arm, deterministic and complete for four year pairs: every shape with a day
    #      borrow whose borrowed day difference equals dim(end month) - dim(month before) while the start day is not the last day of
    #      that month before — with and without a time-of-day borrow; the two historical witnesses first.  Every tenth shape also as an Interval.
    arm = [((2021, 5, 2), [0, 0, 0, 0], (2021, 6, 1), [0, 0, 0, 0]), ((2021, 1, 30), [0, 0, 0, 0], (2021, 2, 27), [0, 0, 0, 0])]
    for (y1, y2) in [(2019, 2019), (2020, 2020), (2019, 2020), (2020, 2021)]:
        for m1 in range(1, 13):
            for d1 in range(1, calendar.monthrange(y1, m1)[1] + 1):
                for m2 in range(1, 13):
                    for d2 in range(1, calendar.monthrange(y2, m2)[1] + 1):
                        if (y1, m1, d1) < (y2, m2, d2):
                            for t1, t2 in (([0, 0, 0, 0], [0, 0, 0, 0]), ([12, 30, 15, 500], [12, 30, 15, 499])):
                                if _month_arm_region([y1, m1, d1] + t1, [y2, m2, d2] + t2):
                                    arm.append(((y1, m1, d1), t1, (y2, m2, d2), t2))
    for i, (s1, t1, s2, t2) in enumerate(arm):
        kind = "date" if (t1 == t2 and i % 7 == 3) else "dt"
        tz = [None, ["utc"], None, ["fixed", 3600]][i % 4] if kind == "dt" else None
        out.append({"stream": "pd-month-arm", "fn": "pd", "args": [_mk(kind, list(s1), list(t1), tz), _mk(kind, list(s2), list(t2), tz)]})
        if i < 2 or i % 10 == 0:
            tzp = [None, ["putc"], ["pfixed", 3600]][i % 3] if kind == "dt" else None
            out.append({"stream": "interval-month-arm", "fn": "iv", "args": [_mk(kind, list(s1), list(t1), tzp), _mk(kind, list(s2), list(t2), tzp)]})
    # ---- random pairs over years 1..9999
    n = 15000 if quick else 200000
    for _ in range(n):
        kind = rnd.choice(["dt", "dt", "dt", "date"])
        tz = rnd.choice([None, ["utc"], ["fixed", rnd.choice(OFFSETS)], ["putc"], ["pfixed", rnd.choice(OFFSETS[:14])]])
        a = _mk(kind, _rand_date(rnd), _rand_time(rnd), tz)
        if rnd.random() < 0.5:
            ymd = _rand_date(rnd)
        else:   # close in time: a few days / months apart
            o = min(3652059, max(1, _dt.date(*a[1:4]).toordinal() + rnd.choice([0, 0, 1, -1, 27, 28, 29, 30, 31, 59, 365, 366, rnd.randrange(-800, 800)])))
            dd = _dt.date.fromordinal(o)
            ymd = [dd.year, dd.month, dd.day]
        b = _mk(kind, ymd, _rand_time(rnd), tz)
        a, b = _order(a, b)
        out.append({"stream": "pd-random", "fn": "pd", "args": [a, b]})
    # ---- cross-zone (direct calls): different offsets / names; month-boundary shifts
    n = 12000 if quick else 150000
    for _ in range(n):
        def tzr():
            return rnd.choice([["utc"], ["fixed", rnd.choice(OFFSETS)], ["putc"], ["pfixed", rnd.choice(OFFSETS[:14])], ["pfixed", 3600], ["pzone_fixed"]])
        ta, tb = tzr(), tzr()
        ta = ["pzone", "Etc/GMT-1", 0, 3600] if ta == ["pzone_fixed"] else ta
        tb = ["pzone", "Etc/GMT-1", 0, 3600] if tb == ["pzone_fixed"] else tb
        ymd = _rand_date(rnd, 2, 9998)
        a = _mk("dt", ymd, _rand_time(rnd), ta)
        o = min(3652059 - 400, max(400, _dt.date(*ymd).toordinal() + rnd.choice([0, 0, 1, 28, 29, 30, 31, 32, 59, 60, 61, 365, rnd.randrange(0, 1200)])))
        dd = _dt.date.fromordinal(o)
        if rnd.random() < 0.4:
            dd = dd.replace(day=rnd.choice([1, calendar.monthrange(dd.year, dd.month)[1]]))
        b = _mk("dt", [dd.year, dd.month, dd.day], _rand_time(rnd), tb)
        a, b = _order(a, b)
        out.append({"stream": "pd-cross-zone", "fn": "pd", "args": [a, b]})
    # ---- DST zones (direct calls on natives carrying pendulum timezones): model needs only the offsets (stdlib zoneinfo)
    try:
        import zoneinfo
        zs = ["Europe/Paris", "America/Toronto", "Australia/Lord_Howe", "Asia/Kolkata", "America/St_Johns"]
        for _ in range(2000 if quick else 20000):
            def zop():
                z = rnd.choice(zs)
                y = rnd.randrange(1975, 2037)
                m = rnd.randrange(1, 13)
                d = rnd.randrange(1, calendar.monthrange(y, m)[1] + 1)
                t = [rnd.randrange(4, 24), rnd.randrange(60), rnd.randrange(60), rnd.randrange(10**6)]   # away from gaps/folds (<= 03:00 local)
                off = _dt.datetime(y, m, d, *t, tzinfo=zoneinfo.ZoneInfo(z)).utcoffset()
                return _mk("dt", [y, m, d], t, ["pzone", z, 0, off.days * 86400 + off.seconds])
            a = zop()
            b = zop()
            if rnd.random() < 0.6:
                b[8] = list(a[8])
                off = _dt.datetime(*b[1:8], tzinfo=zoneinfo.ZoneInfo(b[8][1])).utcoffset()
                b[8][3] = off.days * 86400 + off.seconds
            a, b = _order(a, b)
            out.append({"stream": "pd-dst-zones", "fn": "pd", "args": [a, b]})
    except Exception:  # noqa
        pass
    # ---- the same instant written in two zones (often on different local dates)
    for _ in range(200):
        off = rnd.choice(OFFSETS[:14])
        ymd = _rand_date(rnd, 2, 9998)
        t = _rand_time(rnd)
        a = _mk("dt", ymd, t, ["utc"])
        f = fields_of(wall_us(a) + off * 10**6)
        b = _mk("dt", f[:3], f[3:], rnd.choice([["pfixed", off], ["fixed", off]]))
        out.append({"stream": "pd-equal-instants", "fn": "pd", "args": [a, b]})
    # ---- datetime SUBCLASS instances (pendulum.DateTime) passed directly to the helper — the region of the (repaired) finding
    #      rs-second-operand-subclass: the compiled helper tested its second operand with is_exact_type_of and ignored the time of day
    #      of a subclass instance.  sub = 1: both operands are pendulum.DateTime, 2: only the second, 3: only the first (each case calls
    #      the helper in both directions).  The historical witness first; same-day pairs (time-of-day only) are over-represented.
    #      (The second loop has its own generator so that the other streams of a seed are what they were before the repair.)
    out.append({"stream": "pd-subclass", "fn": "pd", "sub": 1,
                "args": [_mk("dt", [2021, 1, 1], [10, 0, 0, 0], ["putc"]), _mk("dt", [2021, 1, 1], [12, 30, 0, 0], ["putc"])]})
    for _ in range(300):
        tz = rnd.choice([None, ["putc"], ["pfixed", 3600]])
        a = _mk("dt", _rand_date(rnd, 1900, 2100), _rand_time(rnd), tz)
        b = _mk("dt", _rand_date(rnd, 1900, 2100), _rand_time(rnd), tz)
        a, b = _order(a, b)
        out.append({"stream": "pd-subclass", "fn": "pd", "args": [a, b], "sub": 1})
    rnd2 = random.Random(seed * 7919 + 606)
    for i in range(300):
        tz = rnd2.choice([None, ["putc"], ["pfixed", 3600]])
        a = _mk("dt", _rand_date(rnd2, 1900, 2100), _rand_time(rnd2), tz)
        ymd = a[1:4] if rnd2.random() < 0.3 else _rand_date(rnd2, 1900, 2100)
        b = _mk("dt", ymd, _rand_time(rnd2), tz)
        a, b = _order(a, b)
        out.append({"stream": "pd-subclass", "fn": "pd", "args": [a, b], "sub": 1 + i % 3})
    for _ in range(200):
        a = _mk(rnd.choice(["dt", "date"]), _rand_date(rnd, 1900, 2100), _rand_time(rnd), rnd.choice([None, ["utc"]]))
        b = _mk(rnd.choice(["dt", "date"]), _rand_date(rnd, 1900, 2100), _rand_time(rnd), rnd.choice([None, ["utc"]]))
        out.append({"stream": "pd-mixed-kinds", "fn": "pd", "args": [a, b]})
    # ---- Interval objects
    n = 12000 if quick else 120000
    for i in range(n):
        kind = rnd.choice(["dt", "dt", "dt", "date"])
        r = rnd.random()
        if r < 0.25:
            ta = tb = None
        elif r < 0.5:
            ta = tb = ["putc"]
        elif r < 0.75:
            ta = tb = ["pfixed", rnd.choice(OFFSETS[:14])]
        else:
            ta = rnd.choice([["putc"], ["pfixed", rnd.choice(OFFSETS[:14])], ["pzone", "Etc/GMT-1", 0, 3600], ["pfixed", 3600]])
            tb = rnd.choice([["putc"], ["pfixed", rnd.choice(OFFSETS[:14])], ["pzone", "Etc/GMT-1", 0, 3600], ["pfixed", 3600]])
        span_long = rnd.random() < 0.15
        ymd = _rand_date(rnd, 2, 9998) if span_long else _rand_date(rnd, 1800, 2200)
        a = _mk(kind, ymd, _rand_time(rnd), ta)
        if span_long:
            ymd2 = _rand_date(rnd, 2, 9998)
        else:
            o = _dt.date(*ymd).toordinal() + rnd.choice([0, 1, 27, 28, 29, 30, 31, 32, 58, 59, 60, 61, 89, 90, 91, 92, 364, 365, 366, 367, rnd.randrange(0, 3000), rnd.randrange(0, 90000)])
            dd = _dt.date.fromordinal(o)
            if rnd.random() < 0.3:
                dd = dd.replace(day=rnd.choice([1, calendar.monthrange(dd.year, dd.month)[1]]))
            ymd2 = [dd.year, dd.month, dd.day]
        b = _mk(kind, ymd2, _rand_time(rnd), tb)
        a, b = _order(a, b)
        out.append({"stream": "interval-long" if span_long else "interval", "fn": "iv", "args": [a, b]})
    # ---- add() / add_duration with random signed components
    for _ in range(6000 if quick else 60000):
        kind = rnd.choice(["dt", "dt", "date"])
        a = _mk(kind, _rand_date(rnd, 100, 9900), _rand_time(rnd), rnd.choice([None, ["putc"], ["pfixed", rnd.choice(OFFSETS[:14])]]))
        def c(lim):
            return rnd.choice([0, 0, 1, -1, rnd.randrange(-lim, lim + 1)])
        comps = [c(80), c(30), c(60), c(400), 0, 0, 0, 0] if kind == "date" else [c(80), c(30), c(60), c(400), c(100), c(200), c(5000), c(3 * 10**6)]
        out.append({"stream": "add", "fn": "add", "args": [a, comps]})
    # ---- Interval objects whose END is the SECOND occurrence of a repeated wall time (end of DST) and whose start is in UTC / a fixed offset:
    #      differently named zones, so the statement applies (the two instants expressed in UTC).  This is the region of the repaired finding
    #      interval-init-drops-fold (listed for C18): Interval.__init__ rebuilt the natives it hands to precise_diff without fold=, the end was
    #      read as the first occurrence and years..seconds were off by the overlap.  The model hands precise_diff the operands with their own
    #      offsets, which is what the repaired code does.  (Own generator: the other streams of a seed are what they were.)
    rnd3 = random.Random(seed * 7919 + 6606)
    for z, f, off in SECOND_OCCURRENCES:
        try:
            import zoneinfo
            chk = _dt.datetime(*f, tzinfo=_dt.timezone.utc).astimezone(zoneinfo.ZoneInfo(z))
            if chk.fold != 1 or chk.utcoffset() != _dt.timedelta(seconds=off):
                continue
        except Exception:  # noqa
            continue
        tu = wall_us(["dt"] + f + [0, None])            # the UTC wall of the instant
        for span in [1, 45, 1800, 3600, 4200, 86399, 86400, 90000, 3 * 86400 + 5, 31 * 86400, 400 * 86400] + [rnd3.randrange(1, 40 * 86400) for _ in range(8)]:
            for ta in (["putc"], ["pfixed", rnd3.choice(OFFSETS[:14])]):
                us = rnd3.choice([0, 0, 1, 999999, rnd3.randrange(10**6)])
                fb = fields_of(tu + off * 10**6 + us)
                fa = fields_of(tu - span * 10**6 + tz_offset(ta) * 10**6 + rnd3.choice([0, 0, rnd3.randrange(10**6)]))
                a = _mk("dt", fa[:3], fa[3:], ta)
                b = _mk("dt", fb[:3], fb[3:], ["pzone", z, 1, off])
                out.append({"stream": "interval-second-occurrence", "fn": "iv", "args": [a, b]})
    history_cases(random.Random(seed * 7919 + 66006), 1 if quick else 10, out)
    tzclass_cases(random.Random(seed * 7919 + 660006), 1 if quick else 6, out)     # own generator: the other streams of a seed are what they were
    return out


# ----------------------------------------------------------------------------- histories
# A history is ONE case: args = [[kind, a, b], ...], kind "iv" (a pendulum Interval is built from the two operands and observed exactly as
# in an "iv" case) or "pd" (the helper pendulum.helpers.precise_diff — the one Interval uses — is called on the native operands, as in a "pd" case).
# impl_run performs the steps in order in one process; every step is judged by the oracle on its OWN operands and the whole history is run in
# the Gallina model (Model/PdHistory.run_history).  The histories are made of TWINS: operands that some plausible key would not tell apart
# although the decomposition differs (equal instants in another zone; equal wall fields with another fold / tz / kind; equal elapsed time;
# a shared endpoint), in seeded order, with the first step repeated at the end.
H_NAMED = ["Asia/Kolkata", "Asia/Tokyo", "America/Phoenix", "Asia/Kathmandu", "Europe/Paris", "America/Toronto", "America/St_Johns",
           "Australia/Lord_Howe", "Pacific/Chatham", "Africa/Nairobi", "America/Sao_Paulo", "Etc/GMT-1"]
H_OFFS = [18000, -12600, 32400, -28800, 19800, -10800, 20700, 3600, -3600, 43200, -39600, 50400, 1800, -1800]
_DAY = 86400 * 10**6


def _zi(name):
    import zoneinfo
    return zoneinfo.ZoneInfo(name)


def _write(u, spec):
    """the UTC instant u (wall microseconds of its UTC fields) as an operand in the zone `spec`; None if it cannot be written unambiguously"""
    if spec[0] == "putc":
        f = fields_of(u)
        return None if f is None else _mk("dt", f[:3], f[3:], ["putc"])
    if spec[0] == "pfixed":
        f = fields_of(u + spec[1] * 10**6)
        return None if f is None else _mk("dt", f[:3], f[3:], ["pfixed", spec[1]])
    f = fields_of(u)
    if f is None or not (1972 <= f[0] <= 2036):
        return None
    try:
        z = _zi(spec[1])
        loc = _dt.datetime(*f, tzinfo=_dt.timezone.utc).astimezone(z)
        o0 = loc.replace(fold=0).utcoffset()
        o1 = loc.replace(fold=1).utcoffset()
    except Exception:  # noqa
        return None
    if o0 != o1 or o0.microseconds:      # a repeated wall time: not generated here (history-fold-twins does that on purpose)
        return None
    return _mk("dt", [loc.year, loc.month, loc.day], [loc.hour, loc.minute, loc.second, loc.microsecond],
               ["pzone", spec[1], 0, o0.days * 86400 + o0.seconds])


def _h_spec(rnd):
    r = rnd.random()
    if r < 0.2:
        return ["putc"]
    if r < 0.65:
        return ["pfixed", rnd.choice(H_OFFS)]
    return ["pzone", rnd.choice(H_NAMED)]


def _month_edge_instant(rnd, lo=1975, hi=2034):
    """a UTC instant within a few hours of a month boundary (so that an offset moves it into the other month), or anywhere"""
    y, m = rnd.randrange(lo, hi + 1), rnd.randrange(1, 13)
    dim = calendar.monthrange(y, m)[1]
    r = rnd.random()
    if r < 0.45:
        d, hh = dim, rnd.randrange(12, 24)
    elif r < 0.8:
        d, hh = 1, rnd.randrange(0, 12)
    else:
        d, hh = rnd.randrange(1, dim + 1), rnd.randrange(24)
    t = [hh] + rnd.choice([[0, 0, 0], [30, 0, 0], [59, 59, 999999], [rnd.randrange(60), rnd.randrange(60), rnd.randrange(10**6)]])
    return wall_us(_mk("dt", [y, m, d], t, None))


def _later_instant(rnd, u):
    """an instant after u: whole months later at a month edge, the same time of day or one that borrows"""
    f = fields_of(u)
    k = rnd.choice([1, 1, 1, 2, 3, 6, 11, 12, 13, 24, 0])
    mm = f[1] - 1 + k
    y, m = f[0] + mm // 12, mm % 12 + 1
    dim = calendar.monthrange(y, m)[1]
    d = rnd.choice([min(f[2], dim), dim, 1, min(f[2], dim), rnd.randrange(1, dim + 1)])
    t = rnd.choice([f[3:], f[3:], _rand_time(rnd), [f[3], 0, 0, 0]])
    v = wall_us(_mk("dt", [y, m, d], list(t), None))
    if v <= u:
        v = u + rnd.choice([1, 3600 * 10**6, _DAY, 28 * _DAY, 31 * _DAY + 1])
    return v


def history_cases(rnd, scale, out):
    def emit(stream, steps, repeat=True):
        steps = [s for s in steps if s is not None and s[1] is not None and s[2] is not None]
        if len(steps) < 2:
            return
        if repeat:
            steps = steps + [list(steps[0])]
        out.append({"stream": stream, "fn": "hist", "args": steps})

    def step(kind, a, b):
        if a is None or b is None:
            return None
        a, b = _order(a, b)
        return [kind, a, b]

    # ---- the same two instants written in several zones (the witness of DESIGN §13 first: UTC, then +05:00 / -03:30 / named zones)
    ua = wall_us(_mk("dt", [2021, 2, 28], [22, 0, 0, 0], None))
    ub = wall_us(_mk("dt", [2021, 3, 31], [22, 0, 0, 0], None))
    for order in ([["putc"], ["pfixed", 18000], ["pfixed", -12600], ["pzone", "Asia/Tokyo"]],
                  [["pzone", "Asia/Kolkata"], ["putc"], ["pfixed", -28800]], [["pfixed", 18000], ["putc"]]):
        emit("history-zone-twins", [step("iv", _write(ua, z), _write(ub, z)) for z in order])
    for i in range(500 * scale):
        u = _month_edge_instant(rnd)
        v = _later_instant(rnd, u)
        specs = [["putc"]] if rnd.random() < 0.7 else []
        while len(specs) < rnd.choice([2, 3, 3, 4, 5]):
            z = _h_spec(rnd)
            if z not in specs:
                specs.append(z)
        rnd.shuffle(specs)
        steps = []
        for z in specs:
            a, b = _write(u, z), _write(v, z)
            if a is None or b is None or tz_offset(a[8]) != tz_offset(b[8]):
                continue        # named zone: not writable, or the pair straddles an offset change (outside the statement)
            kind = "pd" if rnd.random() < 0.15 else "iv"
            steps.append(step(kind, a, b))
            if kind == "pd" and rnd.random() < 0.5:
                steps.append(step("iv", a, b))
        if rnd.random() < 0.2 and steps:      # a pair in differently named zones between the twins (decomposed in UTC)
            z1, z2 = rnd.choice(specs), rnd.choice(specs)
            steps.insert(rnd.randrange(len(steps) + 1), step("iv", _write(u, z1), _write(v, z2)))
        emit("history-zone-twins", steps)
    # ---- the two occurrences of a repeated wall time as END of an Interval that starts in UTC / a fixed offset (differently named zones:
    #      the statement applies, UTC frame): same start, ends that carry the same tzinfo object and the same wall fields, fold 0 / 1
    for z, f, off in SECOND_OCCURRENCES:
        try:
            loc = _dt.datetime(*f, tzinfo=_dt.timezone.utc).astimezone(_zi(z))
            o0 = loc.replace(fold=0).utcoffset()
            if loc.fold != 1 or loc.utcoffset() != _dt.timedelta(seconds=off) or o0 == loc.utcoffset():
                continue
            off0 = o0.days * 86400 + o0.seconds
        except Exception:  # noqa
            continue
        tu = wall_us(["dt"] + f + [0, None])
        for span in [1, 1800, 3600, 4200, 86400, 31 * 86400, 3 * 86400 + 5] + [rnd.randrange(1, 40 * 86400) for _ in range(3 * scale)]:
            for ta in (["putc"], ["pfixed", rnd.choice(H_OFFS)]):
                fw = fields_of(tu + off * 10**6)
                e1 = _mk("dt", fw[:3], fw[3:], ["pzone", z, 1, off])        # second occurrence: instant tu
                e0 = _mk("dt", fw[:3], fw[3:], ["pzone", z, 0, off0])       # first occurrence: instant tu + off - off0
                start = _write(tu - span * 10**6 - (off0 - off) * 10**6, ta)
                pair = [step("iv", start, e0), step("iv", start, e1)]
                if rnd.random() < 0.5:
                    pair.reverse()
                if rnd.random() < 0.3:
                    pair.insert(1, ["pd", start, e0])
                emit("history-fold-twins", pair)
    # ---- equal wall fields under different readings: naive / UTC / a fixed offset / a named zone / Date (midnight) / mixed zones
    for i in range(250 * scale):
        midnight = rnd.random() < 0.4
        u = _month_edge_instant(rnd)
        v = _later_instant(rnd, u)
        if midnight:
            u, v = u // _DAY * _DAY, v // _DAY * _DAY + (_DAY if v // _DAY == u // _DAY else 0)
        fa, fb = fields_of(u), fields_of(v)
        readings = [[None, None], [["putc"], ["putc"]], [["pfixed", 18000], ["pfixed", 18000]], [["pfixed", -12600], ["pfixed", -12600]],
                    [["pfixed", 3600], ["putc"]], [["putc"], ["pfixed", -28800]], [["pzone", "Asia/Tokyo", 0, 32400], ["pzone", "Asia/Tokyo", 0, 32400]]]
        rnd.shuffle(readings)
        steps = []
        for ta, tb in readings[:rnd.choice([3, 4, 5])]:
            if ta is not None and ta[0] == "pzone" and not (1972 <= fa[0] and fb[0] <= 2036):
                continue
            steps.append(step("iv", _mk("dt", fa[:3], fa[3:], ta), _mk("dt", fb[:3], fb[3:], tb)))
        if midnight:
            steps.insert(rnd.randrange(len(steps) + 1), step("iv", _mk("date", fa[:3], [0, 0, 0, 0], None), _mk("date", fb[:3], [0, 0, 0, 0], None)))
        emit("history-wall-twins", steps)
    # ---- equal elapsed time from different starts / a shared start or end (a key made of the length, or of one endpoint only)
    for i in range(250 * scale):
        tz = rnd.choice([None, ["putc"], ["pfixed", rnd.choice(H_OFFS)]])
        kind = "date" if rnd.random() < 0.15 else "dt"
        u = _month_edge_instant(rnd, 1900, 2100)
        E = rnd.choice([28, 29, 30, 31, 59, 365, 366, rnd.randrange(1, 800)]) * _DAY + (0 if kind == "date" else rnd.choice([0, 0, 1, 3600 * 10**6, rnd.randrange(_DAY)]))
        steps = []
        mode = rnd.choice(["elapsed", "elapsed", "start", "end"])
        for sh in [0] + rnd.sample([1, 2, 3, 27, 28, 29, 30, 31, 59, 60, 365, 366, 730], rnd.choice([2, 3, 4])):
            if mode == "elapsed":
                x, y = u + sh * _DAY, u + sh * _DAY + E
            elif mode == "start":
                x, y = u, u + E + sh * _DAY
            else:
                x, y = u - sh * _DAY, u + E
            fx, fy = fields_of(x), fields_of(y)
            steps.append(step("iv" if rnd.random() < 0.85 else "pd", _mk(kind, fx[:3], fx[3:], tz), _mk(kind, fy[:3], fy[3:], tz)))
        emit("history-same-elapsed" if mode == "elapsed" else "history-shared-endpoint", steps)


# ----------------------------------------------------------------------------- one zone NAME carried by tzinfo objects of different CLASSES
# precise_diff decides "same timezone" by comparing the NAMES that _get_tzinfo_name (Python) / get_tz_name (Rust) read from the two tzinfo
# objects (.key, else .name, else .zone) — not their identity and not their class: Timezone("Europe/Paris") (a subclass of ZoneInfo),
# zoneinfo.ZoneInfo("Europe/Paris"), the pytz tzinfo of Europe/Paris and any tzinfo that answers that name are the SAME zone, and the pair is
# decomposed on the shared wall clock.  The operands below are a <= b in one named zone with one offset whose two tzinfo objects are of
# different classes (every ordered pair of {pendulum, ZoneInfo, pytz, hand-written .key / .name / .zone}), with local times within |offset| of
# midnight next to a month end, so that a decomposition on the UTC calendar (what "different zones" means) gives other components.
TZC_ZONES = ["Europe/Paris", "America/New_York", "Asia/Kolkata", "Asia/Tokyo", "Australia/Lord_Howe", "America/St_Johns", "Pacific/Chatham",
             "America/Sao_Paulo", "Etc/GMT-1", "Etc/GMT+5", "Pacific/Kiritimati", "Pacific/Pago_Pago", "Asia/Kathmandu", "Europe/Paris",
             "America/New_York", "UTC"]
TZC_KINDS = ["pzone", "zi", "pytz", "akey", "aname", "azone"]


def _pfixed_name(s):
    return tz_name(["pfixed", s])


def _tzc_local(rnd, z, ym=None, like=None):
    """wall fields + offset of an unambiguous, existing local time of zone z (a named zone, or an int = fixed offset in seconds): a day next to a
    month boundary and a time of day within |offset| of midnight on the side where the UTC date is another one (or the time `like`, or any)"""
    y, m = ym if ym is not None else (rnd.randrange(1975, 2035), rnd.randrange(1, 13))
    dim = calendar.monthrange(y, m)[1]
    d = rnd.choice([dim, dim, 1, 1, dim - 1, 2, min(dim, rnd.choice([28, 29, 30, 31])), rnd.randrange(1, dim + 1)])
    if isinstance(z, int):
        off0 = z
    else:
        o = _dt.datetime(y, m, d, 12, tzinfo=_zi(z)).utcoffset()
        off0 = o.days * 86400 + o.seconds
    r = rnd.random()
    if like is not None and r < 0.3:
        t = list(like)
    else:
        if r < 0.8 and off0 > 0:
            sod = rnd.randrange(0, min(off0, 86400))
        elif r < 0.8 and off0 < 0:
            sod = rnd.randrange(max(0, 86400 + off0), 86400)
        else:
            sod = rnd.randrange(86400)
        if rnd.random() < 0.3:
            sod = sod // 1800 * 1800
        t = [sod // 3600, sod // 60 % 60, sod % 60, rnd.choice([0, 0, 1, 999999, rnd.randrange(10**6)])]
    if isinstance(z, int):
        return [y, m, d] + t, z
    try:
        zz = _zi(z)
        loc = _dt.datetime(y, m, d, *t, tzinfo=zz)
        o0, o1 = loc.utcoffset(), loc.replace(fold=1).utcoffset()
        if o0 != o1 or o0.microseconds:
            return None         # repeated (or skipped) wall time
        back = (loc.replace(tzinfo=None) - o0).replace(tzinfo=_dt.timezone.utc).astimezone(zz)
        if back.replace(tzinfo=None) != loc.replace(tzinfo=None):
            return None         # skipped wall time
    except Exception:  # noqa
        return None
    return [y, m, d] + t, o0.days * 86400 + o0.seconds


def _tzc_pair(rnd, z):
    """(fields a, offset a, fields b, offset b), a before b on the wall clock, k whole months apart give or take the month edge"""
    A = _tzc_local(rnd, z)
    if A is None:
        return None
    k = rnd.choice([1, 1, 1, 2, 3, 6, 11, 12, 13, 0, 25])
    mm = A[0][1] - 1 + k
    y2, m2 = A[0][0] + mm // 12, mm % 12 + 1
    if not 1972 <= y2 <= 2036:
        return None
    B = _tzc_local(rnd, z, (y2, m2), like=A[0][3:])
    if B is None or A[0] == B[0]:
        return None
    if B[0] < A[0]:
        A, B = B, A
    return A[0], A[1], B[0], B[1]


def _tzc_tz(kind, z, off):
    if isinstance(z, int):
        return ["pfixed", z] if kind == "pzone" else [{"zi": "akey", "pytz": "azone"}.get(kind, kind), _pfixed_name(z), 0, z]
    return [kind, z, 0, off]


def _tzc_kinds(rnd):
    ka, kb = rnd.choice(TZC_KINDS), rnd.choice(TZC_KINDS)
    r = rnd.random()
    if r < 0.45:
        ka, kb = rnd.choice([("pzone", "zi"), ("zi", "pzone"), ("pzone", kb if kb != "pzone" else "pytz"), (ka if ka != "pzone" else "akey", "pzone")])
    elif r < 0.9 and ka == kb:
        kb = TZC_KINDS[(TZC_KINDS.index(ka) + 1 + rnd.randrange(5)) % 6]
    return ka, kb


def tzclass_cases(rnd, scale, out):
    def op(f, kind, z, off):
        return _mk("dt", f[:3], f[3:], _tzc_tz(kind, z, off))

    # the witnesses first: 31 Mar 00:30+02:00 -> 1 May 00:30+02:00 (wall clock: 1 month 1 day; on the UTC calendar 30 Mar 22:30 -> 30 Apr 22:30: 1 month)
    wit = [("Europe/Paris", [2021, 3, 31, 0, 30, 0, 0], [2021, 5, 1, 0, 30, 0, 0], 7200),
           ("America/New_York", [2023, 1, 30, 21, 15, 10, 0], [2023, 2, 28, 22, 45, 30, 0], -18000)]
    for z, fa, fb, off in wit:
        for ka, kb in (("pzone", "zi"), ("zi", "pzone"), ("pytz", "pzone"), ("aname", "akey")):
            out.append({"stream": "pd-tzclass", "fn": "pd", "args": [op(fa, ka, z, off), op(fb, kb, z, off)]})
            out.append({"stream": "interval-tzclass", "fn": "iv", "args": [op(fa, ka, z, off), op(fb, kb, z, off)]})
    n_pd, n_iv, n_h = 2500 * scale, 1500 * scale, 150 * scale
    made = {"pd": 0, "iv": 0, "hist": 0}
    guard = 0
    while (made["pd"] < n_pd or made["iv"] < n_iv or made["hist"] < n_h) and guard < 40 * (n_pd + n_iv + n_h):
        guard += 1
        z = rnd.choice(TZC_ZONES) if rnd.random() < 0.85 else rnd.choice(H_OFFS)
        P = _tzc_pair(rnd, z)
        if P is None:
            continue
        fa, oa, fb, ob = P
        ka, kb = _tzc_kinds(rnd)
        a, b = op(fa, ka, z, oa), op(fb, kb, z, ob)
        if tz_obj_id(a[8]) == tz_obj_id(b[8]) and oa != ob:
            continue
        a, b = _order(a, b)
        r = rnd.random()
        if oa != ob:
            # the pair straddles an offset change: outside the statement (the oracle is silent), kept for the correspondence of the direct calls only
            if made["pd"] < n_pd and r < 0.3:
                out.append({"stream": "pd-tzclass", "fn": "pd", "args": [a, b]})
                made["pd"] += 1
            continue
        if made["pd"] < n_pd and (r < 0.55 or made["iv"] >= n_iv):
            out.append({"stream": "pd-tzclass", "fn": "pd", "args": [a, b]})
            made["pd"] += 1
        elif made["iv"] < n_iv and (r < 0.93 or made["hist"] >= n_h):
            out.append({"stream": "interval-tzclass", "fn": "iv", "args": [a, b]})
            made["iv"] += 1
        elif made["hist"] < n_h:
            # class twins: the SAME two wall times of the same zone, carried by other class pairs, one after the other in one process
            combos = [("pzone", "pzone"), ("zi", "pzone"), ("pzone", "zi"), ("zi", "zi"), ("pytz", "pzone"), ("pzone", "pytz"), ("akey", "aname"),
                      ("azone", "pzone"), ("pzone", "aname"), ("pytz", "zi"), (ka, kb)]
            rnd.shuffle(combos)
            steps = []
            for k1, k2 in combos[:rnd.choice([3, 4, 5])]:
                x, y = _order(op(fa, k1, z, oa), op(fb, k2, z, ob))
                # (an Interval step whose START carries a foreign tzinfo is the business of interval-tzclass — Model/PdForeign.v is not part of
                # the history model — so such a pair is observed through the helper here)
                steps.append(["pd" if (rnd.random() < 0.25 or _is_foreign(x)) else "iv", x, y])
            steps.append([steps[0][0], list(steps[0][1]), list(steps[0][2])])
            out.append({"stream": "history-tzclass-twins", "fn": "hist", "args": steps})
            made["hist"] += 1


# UTC instants (zone, UTC fields, offset in force) inside the SECOND occurrence of a repeated wall time; pendulum.datetime(..., tz=zone) builds the
# local fields with its default fold=1, i.e. as this second occurrence
SECOND_OCCURRENCES = [("Europe/Paris", [2012, 10, 28, 1, 20, 0], 3600), ("Europe/Paris", [1996, 10, 27, 1, 0, 0], 3600), ("America/New_York", [2021, 11, 7, 6, 10, 0], -18000),
                      ("America/St_Johns", [1996, 10, 27, 2, 55, 0], -12600), ("Australia/Lord_Howe", [2021, 4, 3, 15, 5, 0], 37800),
                      ("Pacific/Chatham", [2012, 3, 31, 14, 30, 0], 45900)]


def search_cases(seed):
    cs = cases("thorough", seed)
    return [c for c in cs if c["fn"] == "hist"] + [c for c in cs if c["fn"] in ("pd", "iv")][:400000]


def nontrivial(c):
    if c["fn"] == "hist":
        return len(c["args"]) >= 2 and any(s[1] != s[2] for s in c["args"])
    return c["fn"] == "add" or c["args"][0] != c["args"][1]


# ----------------------------------------------------------------------------- implementation side
def impl_run(cases):
    import os
    import pendulum
    from pendulum import _helpers as H
    backend = H
    if os.environ.get("PENDULUM_EXTENSIONS") == "1":
        from pendulum import _pendulum as backend   # noqa
        import pendulum.helpers as hh
        assert hh.precise_diff is backend.precise_diff, "the compiled helper is not the one in use"
    tzcache = {}

    def tzobj(tz):
        if tz is None:
            return None
        k = json.dumps(tz[:2] if tz[0] == "pzone" else tz)
        if k not in tzcache:
            if tz[0] == "utc":
                tzcache[k] = _dt.timezone.utc
            elif tz[0] == "fixed":
                tzcache[k] = _dt.timezone(_dt.timedelta(seconds=tz[1]))
            elif tz[0] == "putc":
                tzcache[k] = pendulum.UTC
            elif tz[0] == "pfixed":
                tzcache[k] = pendulum.tz.fixed_timezone(tz[1])
            else:
                tzcache[k] = pendulum.timezone(tz[1])
        return tzcache[k]

    class AttrTz(_dt.tzinfo):
        """a tzinfo of a class of its own that answers one name attribute (key / name / zone) and otherwise reads the rules of `base`"""
        def __init__(self, attr, name, base):
            setattr(self, attr, name)
            self._b = base

        def utcoffset(self, d):
            return self._b.utcoffset(d)

        def dst(self, d):
            return self._b.dst(d)

        def tzname(self, d):
            return self._b.tzname(d)

        def fromutc(self, d):
            r = self._b.fromutc(_dt.datetime(d.year, d.month, d.day, d.hour, d.minute, d.second, d.microsecond, tzinfo=self._b))
            return _dt.datetime(r.year, r.month, r.day, r.hour, r.minute, r.second, r.microsecond, tzinfo=self, fold=r.fold)

    def foreign_tz(op):
        """the tzinfo object of an operand whose tz kind is in FOREIGN (never a pendulum class); its utcoffset() for the operand is tz[3]"""
        import zoneinfo
        kind, name, _fold, off = op[8]
        fixed = name[0] in "+-"
        if kind == "zi":
            return zoneinfo.ZoneInfo(name)
        if kind == "pytz" and not fixed:
            k = "pytz:" + name
            try:
                if k not in tzcache:
                    import pytz
                    tzcache[k] = pytz.timezone(name)
                loc = tzcache[k].localize(_dt.datetime(*op[1:8]), is_dst=False)
                if loc.utcoffset() == _dt.timedelta(seconds=off) and hasattr(loc.tzinfo, "zone") and loc.tzinfo.zone == name:
                    return loc.tzinfo
            except Exception:  # noqa
                pass
        attr = {"akey": "key", "aname": "name", "azone": "zone", "pytz": "zone"}[kind]
        k = json.dumps([kind, name, off if (kind == "pytz" or fixed) else None])
        if k not in tzcache:
            tzcache[k] = AttrTz(attr, name, _dt.timezone(_dt.timedelta(seconds=off)) if fixed else zoneinfo.ZoneInfo(name))
        return tzcache[k]

    def is_foreign(op):
        return op[0] == "dt" and op[8] is not None and op[8][0] in FOREIGN

    def native(op):
        kind, y, m, d, hh_, mm, ss, us, tz = op
        if kind == "date":
            return _dt.date(y, m, d)
        if is_foreign(op):
            r = _dt.datetime(y, m, d, hh_, mm, ss, us, tzinfo=foreign_tz(op), fold=tz[2])
            if r.utcoffset() != _dt.timedelta(seconds=tz[3]) or isinstance(r.tzinfo, (pendulum.tz.Timezone, pendulum.tz.FixedTimezone)):
                raise RuntimeError("operand not built as described")
            return r
        fold = tz[2] if tz is not None and tz[0] == "pzone" else 0
        return _dt.datetime(y, m, d, hh_, mm, ss, us, tzinfo=tzobj(tz), fold=fold)

    def pend(op):
        kind, y, m, d, hh_, mm, ss, us, tz = op
        if kind == "date":
            return pendulum.Date(y, m, d)
        if tz is None:
            return pendulum.naive(y, m, d, hh_, mm, ss, us)
        if is_foreign(op):
            # a pendulum DateTime that CARRIES the foreign tzinfo: the class constructor and astimezone() keep it (pendulum.datetime(tz=),
            # instance(), in_tz(), replace() would convert it to a pendulum zone); both ways must give the same object
            n = native(op)
            r1 = pendulum.DateTime(y, m, d, hh_, mm, ss, us, tzinfo=n.tzinfo, fold=tz[2])
            u = n.replace(tzinfo=None) - n.utcoffset()
            r2 = pendulum.datetime(u.year, u.month, u.day, u.hour, u.minute, u.second, u.microsecond, tz="UTC").astimezone(n.tzinfo)
            if (type(r1) is not pendulum.DateTime or r1.tzinfo is not n.tzinfo or r1.utcoffset() != n.utcoffset()
                    or [r1.year, r1.month, r1.day, r1.hour, r1.minute, r1.second, r1.microsecond] != op[1:8]):
                raise RuntimeError("operand not built as described")
            # astimezone() keeps a ZoneInfo / hand-written tzinfo and converts a pytz one to the pendulum zone (not always to the right
            # fields: pytz static zones, outside this property): its value is used only when it is the operand described
            ok2 = (type(r2) is pendulum.DateTime and r2.tzinfo is n.tzinfo
                   and [r2.year, r2.month, r2.day, r2.hour, r2.minute, r2.second, r2.microsecond, r2.utcoffset()] == op[1:8] + [n.utcoffset()])
            return r2 if (us % 2 and ok2) else r1
        if tz[0] == "pzone":
            return pendulum.datetime(y, m, d, hh_, mm, ss, us, tz=tzobj(tz), fold=tz[2])
        return pendulum.datetime(y, m, d, hh_, mm, ss, us, tz=tzobj(tz))

    def flds(x):
        if isinstance(x, _dt.datetime):
            return [0, x.year, x.month, x.day, x.hour, x.minute, x.second, x.microsecond]
        return [0, x.year, x.month, x.day, 0, 0, 0, 0]

    def comps(iv):
        return [iv.years, iv.months, iv.weeks, iv.remaining_days, iv.hours, iv.minutes, iv.remaining_seconds, iv.microseconds,
                iv.in_months(), iv.in_days()]

    def tup(p):
        return [p.years, p.months, p.days, p.hours, p.minutes, p.seconds, p.microseconds, p.total_days]

    def guarded(f):
        try:
            return f()
        except Exception as e:  # noqa
            return [1, type(e).__name__] + [0] * 6

    def run_pd(a, sub, helper):
        x = (pend if sub in (1, 3) else native)(a[0])
        y = (pend if sub in (1, 2) else native)(a[1])
        r1 = tup(helper(x, y))
        r2 = tup(helper(y, x))
        try:
            r3 = tup(H.precise_diff(x, y))
        except Exception:  # noqa
            r3 = [0] * 8
        return [0] + [int(v) for v in r1 + r2 + r3]

    def run_iv(a):
        x, y = pend(a[0]), pend(a[1])
        iv = y - x
        iv2 = pendulum.interval(x, y)
        cc = comps(iv)
        if comps(iv2) != cc:
            return [1, "IntervalCtorDiffers"]
        reb = guarded(lambda: flds(x + iv))
        if x.__class__ is pendulum.Date:
            add = guarded(lambda: flds(x.add(years=cc[0], months=cc[1], weeks=cc[2], days=cc[3])))
        else:
            add = guarded(lambda: flds(x.add(years=cc[0], months=cc[1], weeks=cc[2], days=cc[3], hours=cc[4], minutes=cc[5],
                                             seconds=cc[6], microseconds=cc[7])))
        rev = comps(x - y)
        if is_foreign(a[0]) or is_foreign(a[1]):
            # the same two endpoints handed over as native datetimes (Interval converts them itself) must report the same components
            # (only when Interval's own conversion, pendulum.instance, maps each tzinfo to the pendulum zone of the SAME name: it does so for .key
            # and for pytz; a hand-written tzinfo with .name / .zone becomes a fixed offset named after the offset — outside this comparison)
            try:
                iv3 = pendulum.interval(native(a[0]), native(a[1]))
                names = [iv3.start.timezone_name, iv3.end.timezone_name]
            except Exception:  # noqa
                iv3 = None
            if iv3 is not None and names == [tz_name(a[0][8]), tz_name(a[1][8])] and comps(iv3) != cc:
                return [1, "IntervalFromNativesDiffers"]
        return [0] + cc + reb + add + rev

    def run_hist(steps):
        """the steps of one history, in order, in this process; the canonical result of every step"""
        import pendulum.helpers as hh_
        res = []
        for kind, a, b in steps:
            try:
                res.append(run_iv([a, b]) if kind == "iv" else run_pd([a, b], 0, hh_.precise_diff))
            except Exception as e:  # noqa
                res.append([1, type(e).__name__])
        return [0] + res

    out = []
    for c in cases:
        fn, a = c["fn"], c["args"]
        try:
            if fn == "pd":
                out.append(run_pd(a, c.get("sub", 0), backend.precise_diff))
            elif fn == "iv":
                out.append(run_iv(a))
            elif fn == "hist":
                out.append(run_hist(a))
            elif fn == "add":
                from pendulum.helpers import add_duration
                x = pend(a[0])
                y_, mo, w, d, h, mi, s, us = a[1]
                if a[0][0] == "date":
                    r = guarded(lambda: flds(x.add(years=y_, months=mo, weeks=w, days=d)))
                    r2 = guarded(lambda: flds(add_duration(_dt.date(*a[0][1:4]), years=y_, months=mo, weeks=w, days=d)))
                else:
                    r = guarded(lambda: flds(x.add(years=y_, months=mo, weeks=w, days=d, hours=h, minutes=mi, seconds=s, microseconds=us)))
                    r2 = guarded(lambda: flds(add_duration(_dt.datetime(*a[0][1:8]), years=y_, months=mo, weeks=w, days=d, hours=h, minutes=mi,
                                                           seconds=s, microseconds=us)))
                out.append([0] + r + r2)
            else:
                out.append([9])
        except Exception as e:  # noqa
            out.append([1, type(e).__name__])
    return out


# ----------------------------------------------------------------------------- model side
def _sub(c, i):
    """step i of a history as a single case"""
    kind, a, b = c["args"][i]
    return {"stream": c["stream"], "fn": kind, "args": [a, b]}


def model_calls(c, backend):
    fn, a = c["fn"], c["args"]
    if fn == "hist":
        flat = []
        for kind, x, y in a:
            flat += [1 if kind == "iv" else 2] + enc(x) + enc(y)
        return [(f"{backend}_history", flat)]
    if fn == "pd":
        A, B = enc(a[0]), enc(a[1])
        if backend == "py":
            return [("py_precise_diff", A + B), ("py_precise_diff", B + A)]
        # no "exact type" input: the compiled helper tests both operands with is_type_of (subclass instances are datetimes)
        return [("rs_precise_diff", A + B), ("rs_precise_diff", B + A)]
    if fn == "iv":
        A, B = enc(a[0]), enc(a[1])
        # a start that carries a non-pendulum tzinfo goes through the `self.tz is None` route of DateTime.add (Model/PdForeign.v)
        reb = "_rebuild_fs" if _is_foreign(a[0]) else "_rebuild"
        return [(f"{backend}_interval", A + B), (backend + reb, A + B), (f"{backend}_interval", B + A)]
    if fn == "add":
        A = enc(a[0])
        naive = list(A)
        naive[7:11] = [0, 0, 0, 0]
        return [("dt_add", A + a[1]), ("add_duration", naive + a[1])]


def _exn(o):
    return [1, EXN.get(o[1], "Exception")]


def model_result(c, backend, outs):
    fn = c["fn"]
    if fn == "hist":
        o = outs[0]
        if not o or o[0] != 0:
            return ["bad-call"] + o
        lists, i = [], 1
        while i < len(o):
            lists.append(o[i + 1:i + 1 + o[i]])
            i += 1 + o[i]
        res, j = [0], 0
        for k in range(len(c["args"])):
            sub = _sub(c, k)
            n = 3 if sub["fn"] == "iv" else 2
            res.append(model_result(sub, backend, lists[j:j + n]))
            j += n
        return res
    if any(o == [3] for o in outs):
        return ["outside-model"]
    if fn == "pd":
        if outs[0][0] == 1:
            return _exn(outs[0])
        if outs[1][0] == 1:
            return _exn(outs[1])
        return [0] + outs[0][1:] + outs[1][1:]
    if fn == "iv":
        if outs[0][0] == 1:
            return _exn(outs[0])
        reb = outs[1] if outs[1][0] == 0 else _exn(outs[1]) + [0] * 6
        return [0] + outs[0][1:] + reb + reb + outs[2][1:]
    if fn == "add":
        r = []
        for o in outs:
            r += o if o[0] == 0 else _exn(o) + [0] * 6
        return [0] + r


def _elapsed(c):
    a, b = c["args"]
    if a[0] == "date":
        return (wall_us(b) - wall_us(a))
    return instant_us(b) - instant_us(a) if a[8] is not None else wall_us(b) - wall_us(a)


def same(c, m, r):
    if m == ["outside-model"]:
        return True
    fn = c["fn"]
    if fn == "hist":
        return (bool(r) and r[0] == 0 and m[0] == 0 and len(r) == len(m) == len(c["args"]) + 1
                and all(same(_sub(c, k), m[k + 1], r[k + 1]) for k in range(len(c["args"]))))
    if fn == "pd":
        if r and r[0] == 0 and m[0] == 0:
            return r[:17] == m
        return r[:2] == m[:2]
    if fn == "iv" and r and r[0] == 0 and m[0] == 0 and abs(_elapsed(c)) >= TWO33:
        # float-derived components (remaining_seconds, microseconds) and what is rebuilt from them are left to the oracle
        keep = [1, 2, 3, 4, 5, 6, 9, 10]
        return [r[i] for i in keep] == [m[i] for i in keep] and [r[26 + i] for i in keep] == [m[26 + i] for i in keep]
    if fn in ("iv", "add") and r and r[0] == 0 and m[0] == 0:
        # exception payload: compare class only
        return r == m
    return r[:2] == m[:2]


# ----------------------------------------------------------------------------- the property itself (stdlib only)
def _my_add(kind, f, comps):
    """independent add: year/month shift with end-of-month clamping, then days and time (stdlib arithmetic)"""
    y, mo, d, h, mi, s, us = comps
    mm = f[1] - 1 + mo + 12 * y
    ny, nm = f[0] + mm // 12, mm % 12 + 1
    if not (1 <= ny <= 9999):
        return None
    nd = min(f[2], calendar.monthrange(ny, nm)[1])
    try:
        if kind == "date":
            r = _dt.date(ny, nm, nd) + _dt.timedelta(days=d)
            return [r.year, r.month, r.day, 0, 0, 0, 0]
        r = _dt.datetime(ny, nm, nd, *f[3:7]) + _dt.timedelta(days=d, hours=h, minutes=mi, seconds=s, microseconds=us)
        return [r.year, r.month, r.day, r.hour, r.minute, r.second, r.microsecond]
    except OverflowError:
        return None


def _frames(c):
    """the (start, end) field lists the decomposition must connect: local fields for the same zone and offset, UTC otherwise"""
    a, b = c["args"]
    kind = a[0]
    fa, fb = a[1:8], b[1:8]
    if kind == "dt" and a[8] is not None:
        na, nb = tz_name(a[8]), tz_name(b[8])
        if na is not None and na == nb:
            if tz_offset(a[8]) != tz_offset(b[8]):
                return kind, None, None, "straddles an offset change: outside the statement"
        else:   # differently named (or unnamed stdlib tzinfo): the two instants expressed in UTC
            return kind, fields_of(instant_us(a)), fields_of(instant_us(b)), "utc"
    return kind, fa, fb, "local"


RANGES = [(0, 10**4), (0, 11), (0, 30), (0, 23), (0, 59), (0, 59), (0, 999999)]


def _check(c, backend, r):
    """returns None or (tag, message)"""
    fn, a = c["fn"], c["args"]
    if fn == "add":
        if r[0] != 0:
            return ("raised", f"raised {r[1]}")
        kind = a[0][0]
        exp = _my_add(kind, a[0][1:8], [a[1][0], a[1][1], a[1][2] * 7 + a[1][3]] + a[1][4:])
        for nm, got in (("add", r[1:9]), ("add_duration", r[9:17])):
            if exp is None:
                if got[0] == 0 and not (a[0][8] is not None):
                    return ("add", f"{nm}{a} returned {got[1:]} where the stdlib arithmetic overflows")
            elif got[0] != 0 or got[1:] != exp:
                if got[0] != 0 and a[0][8] is not None and a[0][8][0] == "pfixed":
                    continue   # the UTC detour of add() may overflow near the range ends
                return ("add", f"{nm}{a} = {got}, stdlib arithmetic says {exp}")
        return None
    x, y = a
    if not comparable(x, y):
        return None          # outside the statement (exceptions are covered by the correspondence)
    if r[0] != 0:
        if not (in_model_domain(x) and in_model_domain(y)):
            return None
        return ("raised", f"raised {r[1]} on {a}")
    if key(x, y, x) > key(x, y, y):
        return None          # generator orders the operands; nothing to say otherwise
    kind, fa, fb, frame = _frames(c)
    if fa is None or fb is None:
        return None
    if fn == "pd":
        comps = r[1:8]
        if r[17:25] != r[1:9]:
            return ("rs-eq-py", f"precise_diff{a}{_subnote(c)}: backend {backend} reports {r[1:9]}, the pure-Python helper {r[17:25]}")
        for (lo, hi), v, nm in zip(RANGES, comps, ("years", "months", "days", "hours", "minutes", "seconds", "microseconds")):
            if not lo <= v <= hi:
                return ("ranges", f"precise_diff{a}: {nm} = {v} outside {lo}..{hi} ({comps})")
        exp = _my_add(kind, fa, comps)
        if exp != fb:
            return ("rebuild", f"precise_diff{a} = {comps}; start + components = {exp} but the end is {fb} ({frame} frame)")
        if r[9:17] != [-v for v in r[1:9]]:
            return ("negation", f"precise_diff reversed {r[9:17]} is not the negation of {r[1:9]}")
        return None
    if fn == "iv":
        cc, reb, add, rev = r[1:11], r[11:19], r[19:27], r[27:37]
        E = _elapsed(c)
        secs = E // 10**6
        if [cc[6], cc[7]] != [secs % 60, E % 10**6]:
            return ("float-part", f"interval{a}: remaining_seconds/microseconds = {cc[6:8]}, exact elapsed time gives {[secs % 60, E % 10**6]}")
        days = cc[2] * 7 + cc[3]
        comps = [cc[0], cc[1], days, cc[4], cc[5], cc[6], cc[7]]
        for (lo, hi), v, nm in zip(RANGES, comps, ("years", "months", "weeks*7+remaining_days", "hours", "minutes", "remaining_seconds", "microseconds")):
            if not lo <= v <= hi:
                return ("ranges", f"interval{a}: {nm} = {v} outside {lo}..{hi} ({cc})")
        if not (0 <= cc[3] <= 6 and cc[2] >= 0):
            return ("ranges", f"interval{a}: weeks/remaining_days = {cc[2:4]}")
        exp = _my_add(kind, fa, comps)
        if exp != fb:
            return ("rebuild", f"interval{a} = {cc}; start + components = {exp} but the end is {fb} ({frame} frame)")
        if cc[8] != 12 * cc[0] + cc[1]:
            return ("in_months", f"in_months = {cc[8]} but 12*years+months = {12 * cc[0] + cc[1]}")
        if rev[:9] != [-v for v in cc[:9]] or rev[9] != -cc[9]:
            return ("negation", f"reversed interval {rev} is not the negation of {cc}")
        if frame == "local":
            if reb != [0] + list(b_fields(y)):
                return ("rebuild-impl", f"a + (b - a) = {reb} but b is {b_fields(y)} (components {cc})")
            if add != [0] + list(b_fields(y)):
                return ("rebuild-impl", f"a.add(**components) = {add} but b is {b_fields(y)} (components {cc})")
        return None
    return None


def _subnote(c):
    s = c.get("sub", 0)
    return "" if not s else " [%s passed as pendulum.DateTime]" % {1: "both operands", 2: "second operand", 3: "first operand"}[s]


def b_fields(op):
    return op[1:8] if op[0] == "dt" else op[1:4] + [0, 0, 0, 0]


def _hist_failures(c, backend, r):
    """[(step index or None, tag, message, step as a single case, its result)] for the steps of a history that violate the property: every
    step is judged on its own operands, and two steps with the same kind and operands must report the same"""
    if not r or r[0] != 0 or len(r) != len(c["args"]) + 1:
        return [(None, "raised", f"the history did not run: {r}", None, None)]
    out, seen = [], {}
    for k in range(len(c["args"])):
        sub, rk = _sub(c, k), r[k + 1]
        t = _check(sub, backend, rk)
        if t is None:
            key_ = json.dumps(c["args"][k])
            if key_ in seen and r[seen[key_] + 1] != rk:
                t = ("repeat", f"the same operands reported {r[seen[key_] + 1]} at step {seen[key_]} and {rk} now")
            seen.setdefault(key_, k)
        if t is not None:
            out.append((k, t[0], t[1], sub, rk))
    return out


def oracle(c, backend, r):
    if c["fn"] == "hist":
        f = _hist_failures(c, backend, r)
        if not f:
            return None
        k, _tag, msg, sub, _rk = f[0]
        if k is None:
            return msg
        return (f"step {k} of a history of {len(c['args'])} constructions in one process ({sub['fn']}): {msg}"
                + (f" [{len(f) - 1} more failing step(s)]" if len(f) > 1 else ""))
    t = _check(c, backend, r)
    return None if t is None else t[1]


# ----------------------------------------------------------------------------- known findings (tight predicates on the input)
def _dim(y, m):
    if y < 1:
        return 31 if m in (1, 3, 5, 7, 8, 10, 12) else 30 if m != 2 else 29
    return calendar.monthrange(y, m)[1]


def _python_frame(c):
    """the operand fields precise_diff works on: UTC when the tz names differ/are unknown or the local dates coincide, else local"""
    a, b = c["args"]
    fa, fb = a[1:8], b[1:8]
    if a[0] == "dt" and a[8] is not None and b[8] is not None:
        na, nb = tz_name(a[8]), tz_name(b[8])
        if not (na is not None and na == nb) or fa[:3] == fb[:3]:
            fa, fb = fields_of(instant_us(a)), fields_of(instant_us(b))
    return fa, fb


def _month_arm_region(fa, fb):
    """day borrow, d_diff == dim(end month) - dim(month before) and the start day is not the last day of that month before"""
    if fa is None or fb is None:
        return False
    beta = 1 if fb[3:] < fa[3:] else 0
    D = fb[2] - fa[2] - beta
    if D >= 0:
        return False
    py, pm = (fb[0] - 1, 12) if fb[1] == 1 else (fb[0], fb[1] - 1)
    dlm, dimc = _dim(py, pm), _dim(fb[0], fb[1])
    return D == dimc - dlm and fa[2] != dlm


def _rs_shift_irregular(c):
    """Rust's manual offset arithmetic leaves an un-normalised field tuple (second/minute 60, hour 24, day 0 or past the month end)"""
    a, b = c["args"]
    if a[0] != "dt" or a[8] is None or b[8] is None:
        return False
    na, nb = tz_name(a[8]), tz_name(b[8])
    same = na is not None and na == nb
    td0 = a[1:4] == b[1:4]

    def tq(x, y):
        q = abs(x) // y
        return q if x >= 0 else -q
    for op in (a, b):
        off = tz_offset(op[8])
        if not ((not same and off != 0) or td0) or off == 0:
            continue
        hh, mm, ss, dd = op[4], op[5], op[6], op[3]
        hh -= tq(off, 3600)
        off -= tq(off, 3600) * 3600
        mm -= tq(off, 60)
        off -= tq(off, 60) * 60
        ss -= off
        if ss < 0:
            ss += 60; mm -= 1
        elif ss > 60:
            ss -= 60; mm += 1
        if mm < 0:
            mm += 60; hh -= 1
        elif mm > 60:
            mm -= 60; hh += 1
        if hh < 0:
            hh += 24; dd -= 1
        elif hh > 24:
            hh -= 24; dd += 1
        if ss == 60 or mm == 60 or hh == 24 or dd < 1 or dd > _dim(op[1], op[2]):
            return True
    return False


def known(c, backend, r):
    if c["fn"] == "hist":
        # a history is excused only when EVERY failing step, taken as a single case, is the same listed finding
        f = _hist_failures(c, backend, r)
        ids = {known(sub, backend, rk) if k is not None and tag != "repeat" else None for k, tag, _m, sub, rk in f}
        return ids.pop() if len(ids) == 1 else None
    t = _check(c, backend, r)
    if t is None:
        return None
    tag = t[0]
    fn = c["fn"]
    # (repaired) the compiled helper ignored the time of day of a datetime-subclass instance in second position; every pd case calls the
    # helper in both directions, so any case with a subclass operand reaches it.  Status `fixed`: a reproduction is reported as a VIOLATION.
    if fn == "pd" and c.get("sub") and backend == "rs" and tag in ("rs-eq-py", "ranges", "rebuild", "negation") and c["args"][1][0] == "dt":
        return "rs-second-operand-subclass"
    if fn == "iv" and tag == "float-part" and abs(_elapsed(c)) >= TWO33:
        return "interval-float-seconds"
    if (fn == "pd" and backend == "rs" and tag == "rs-eq-py" and c["args"][0][0] == "dt" and c["args"][0][8] is not None
            and instant_us(c["args"][0]) == instant_us(c["args"][1]) and c["args"][0][1:4] != c["args"][1][1:4]
            and r[1:8] == r[17:24] == [0] * 7):
        return "rs-equal-instants-total-days"
    if fn in ("pd", "iv") and backend == "rs" and tag in ("rs-eq-py", "ranges", "rebuild", "rebuild-impl", "negation") and _rs_shift_irregular(c):
        return "rs-cross-zone-shift"
    # (repaired, listed for C18) Interval.__init__ rebuilt its natives without fold=: an endpoint that is the second occurrence of a repeated wall
    # time was decomposed with the offset of the first.  Status `fixed`: a reproduction is reported as a VIOLATION.
    if fn == "iv" and tag in ("ranges", "rebuild", "rebuild-impl", "negation") and any(
            op[0] == "dt" and op[8] is not None and op[8][0] == "pzone" and op[8][2] == 1 for op in c["args"]):
        return "interval-init-drops-fold"
    # DateTime.add on a start that carries a non-pendulum tzinfo (self.tz is None) with a non-zero offset and NO unit of variable length:
    # moved to UTC, never moved back (Model/PdForeign.v; iv_rebuild_foreign_start_refuted / _partial)
    if (fn == "iv" and tag == "rebuild-impl" and _is_foreign(c["args"][0]) and tz_offset(c["args"][0][8]) != 0 and r[1:5] == [0, 0, 0, 0]
            and r[11] == 0 and r[12:19] == fields_of(wall_us(c["args"][1]) - tz_offset(c["args"][0][8]) * 10**6)):
        return "add-foreign-tzinfo-time-units"
    if fn in ("pd", "iv") and tag in ("rebuild", "rebuild-impl"):
        fa, fb = _python_frame(c)
        if _month_arm_region(fa, fb):
            return "exact-month-arm"
    return None


LEVEL_TEXT = ("Machine-checked Coq theorems about the pure-Python precise_diff (translated from /repo on every run) and the hand model of the Rust "
              "precise_diff: component ranges, rebuilding the end with add_duration (translated) at full strength — a + (b - a) = b for every "
              "ordered pair of datetimes with zero offset (naive, UTC) or dates, every year 1..9999, both backends (pd_rebuild, pd_rust_rebuild; "
              "finding exact-month-arm is repaired, its region is now an ordinary deterministic stream), the same through the hand model of the "
              "Interval component properties and DateTime.add / Date.add (iv_rebuild, iv_rust_rebuild), in_months, and equality of the two "
              "backends on that domain; finding rs-second-operand-subclass is repaired: the Rust model has no exact-type input any more, the "
              "pd_rust_* theorems hold for datetime subclass instances in either position (pd_rust_former_subclass_witness) and direct calls "
              "with pendulum.DateTime operands are an ordinary stream; the remaining Rust-only cross-zone defect is characterised by a "
              "refuted theorem. Finding interval-init-drops-fold (listed for C18: Interval.__init__ rebuilt the natives it hands to precise_diff without fold=) is "
              "repaired: the Interval model, which hands precise_diff each operand with its own offset, is now what the code does for either occurrence of a "
              "repeated wall time, and intervals ending on a second occurrence are an ordinary stream (interval-second-occurrence). "
              "Process histories (Model/PdHistory.v, Proofs/C06History.v): components_independent_of_history / history_prefix_stable (what an Interval reports is the same at every "
              "position of every history of the model, which the history-* streams compare step by step with one interpreter building the same Intervals in order); the counter-model "
              "run_memo (a memo in front of precise_diff) is proved transparent when its key separates all twelve operand fields (memo_with_faithful_key_is_transparent, "
              "memo_keyed_by_all_fields_is_transparent) and NOT transparent when looked up with CPython's ==/hash (memo_keyed_by_equality_refuted: the same two instants in UTC and at "
              "+05:00; memo_keyed_by_equality_order_dependent; memo_keyed_by_equality_conflates_folds: fold 0 / 1 of a repeated wall time).")
DESIGN_REF = "DESIGN.md section 4 C06"
LEVEL_NOTE = ("Tzinfo classes: INSIDE the model (an operand carries a name id and an object id; a class pair = one name id, two object ids: dispatch entries "
              "py/rs_precise_diff, _interval, _rebuild, _history, and _rebuild_fs = Model/PdForeign.v for a start whose tzinfo is not a pendulum class); no oracle-only stream. "
              "Trusted: Coq kernel+VM, the translator, the primitives of Model/PdBase.v as a model of CPython datetime, the hand models of the Rust helper "
              "and of the Interval glue (validated by correspondence every run), extraction+driver (cross-checked with vm_compute). "
              "Process histories: the model run_history is stateless by construction and is compared with one interpreter performing the same constructions in order (history-* "
              "streams, inside the model: dispatch entries py_history / rs_history; no oracle-only stream); the oracle judges every step on its own operands.")
TECHNIQUE = ("Coq proof (lia over the borrow chain and the month-length branch; rebuild by calendar lemmas over Spec/Cal: ymd2ord linear in the day, "
             "one-month step) over translated code; differential correspondence; stdlib oracle")


# ---- model = code theorems for Interval.__init__ / components (appended) ----
TRUSTED = [t for t in TRUSTED] + ['model_is_code_interval_components: the Interval properties years, months, weeks, remaining_days, hours, minutes and in_years, in_months, in_weeks, in_days are translated from /repo on every run (Gen/IntervalGlue.v) and proved equal to Model/PdInterval.v iv_components (an Interval read through its PreciseDiff and Duration._days; Duration._sign checked by shape). The two values Interval.__init__ hands to precise_diff are the 4th/5th components of the translated __init__ (C05 model_is_code_interval_init); precise_diff itself is Gen/PreciseDiff.v (Python backend) / Model/RustPreciseDiff.v (compiled backend, hand model) as before']
LEVEL_NOTE = LEVEL_NOTE + " " + 'model_is_code_interval_components: the Interval properties years, months, weeks, remaining_days, hours, minutes and in_years, in_months, in_weeks, in_days are translated from /repo on every run (Gen/IntervalGlue.v) and proved equal to Model/PdInterval.v iv_components (an Interval read through its PreciseDiff and Duration._days; Duration._sign checked by shape). The two values Interval.__init__ hands to precise_diff are the 4th/5th components of the translated __init__ (C05 model_is_code_interval_init); precise_diff itself is Gen/PreciseDiff.v (Python backend) / Model/RustPreciseDiff.v (compiled backend, hand model) as before' + "."
