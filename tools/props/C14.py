"""C14 — pickle, copy and deepcopy reproduce every pendulum value exactly."""
from __future__ import annotations

import datetime as _dt
import itertools
import math
import random
import zoneinfo

from vlib import tzcases as T
from vlib import zones

ID = "C14"
PROPS = "Props/C14.v"
RULE = ("one case = one value x one route (pickle protocol 0..5, copy.copy, copy.deepcopy). DateTime: for each chosen zone (quick: 60 incl. ODD_ZONES, "
        "thorough: all) its gaps/overlaps (explicit table + POSIX-rule years) probed inside and just outside the repeated/skipped wall interval with fold 0 and 1, "
        "random wall times, naive values incl. 0001-01-01 / 9999-12-31T23:59:59.999999, UTC, fixed offsets (named and unnamed); Date: boundaries + random; "
        "standard-library (foreign) tzinfos - datetime.timezone.utc, datetime.timezone(+-offset incl. sub-minute and +-23:59:59), zoneinfo.ZoneInfo(key) - on DateTime "
        "(pinned 2013-10-27T02:30, random walls, ZoneInfo gaps/overlaps with fold 0 and 1), Time and Interval endpoints, observed through utcoffset / instant / tzinfo "
        "type and offset-or-key; Time: boundaries x fold x tzinfo; Duration and AbsoluteDuration: EVERY subset of the 8 components (years months weeks days hours minutes seconds "
        "microseconds) with all-positive, all-negative and mixed signs; Interval: forward / inverted / absolute, DateTime endpoints (same zone, two zones, fixed, "
        "naive, ambiguous endpoints with fold 0/1) and Date endpoints; Timezone (every chosen zone) and FixedTimezone objects; the generated MRO / resolution tables "
        "against the live classes. non-trivial = distinct (value, route).")
EXHAUSTIVE = {"quick": False, "thorough": False}
TRUSTED = ["the pickle / copy / copyreg protocol of CPython and the native reducers of datetime.date / timedelta / tzinfo / zoneinfo.ZoneInfo as stated at the top of "
           "coq/Model/Pickle.v (the model interprets what __reduce_ex__ / __deepcopy__ hand to the protocol; the protocol itself is not modelled further)",
           "tools/vlib/gens/g60_pickle.py reads the class bodies (method resolution, state tuples, keyword lists, constructor parameters) into Gen/Reduce.v; "
           "its native-class table is compared with the live classes on every run (tables stream)",
           "Spec/Zone.v as the meaning of a Timezone's offset (validated by C02); Model/Duration.v as Duration.__new__ (validated by C09 and again here)"]
ASSUMPTIONS = ["CPython with the C datetime module (timedelta.__reduce__ uses the native fields, not Duration's overriding attributes)",
               "aware DateTime cases stay 3 days away from year 1 / 9999 (utcoffset arithmetic would overflow); naive ones cover the full range",
               "Duration theorems about deepcopy carry C09's float premise float_split_exact_on_D9 (validated on every run by C09's and this check's dur-* streams)"]
VM_SUBSET = 120

ROUTES = list(range(8))           # 0..5 pickle protocols, 6 copy.copy, 7 copy.deepcopy
CLASSES = ["Date", "DateTime", "Time", "Duration", "AbsoluteDuration", "Interval", "Timezone", "FixedTimezone"]
PROTO = ["__reduce_ex__", "__reduce__", "__copy__", "__deepcopy__", "__getstate__", "__setstate__", "__getnewargs__",
         "__getnewargs_ex__", "__getinitargs__", "__new__", "__init__"]
COMPONENTS = ["years", "months", "weeks", "days", "hours", "minutes", "seconds", "microseconds"]
MAGN = {"years": 30, "months": 40, "weeks": 60, "days": 40, "hours": 50, "minutes": 100, "seconds": 10000, "microseconds": 2000000}
_KEY = None


def key_index(name):
    global _KEY
    if _KEY is None:
        _KEY = {n: i for i, n in enumerate(zones.names())}
    return _KEY[name]


# ----------------------------------------------------------------------------- cases
def _routes(out, stream, fn, value):
    for r in ROUTES:
        out.append({"stream": stream, "fn": fn, "args": [r] + value})


def _dur_values(rnd, reps):
    vals = []
    for mask in range(256):
        comps = [COMPONENTS[i] for i in range(8) if mask >> i & 1]
        for rep in range(reps):
            for sign in ("+", "-", "mixed"):
                v = {}
                for c in comps:
                    x = rnd.randrange(1, MAGN[c] + 1)
                    if rep == 0 and c in ("weeks", "years", "months", "days"):
                        x = rnd.randrange(1, 4)
                    s = 1 if sign == "+" else -1 if sign == "-" else rnd.choice((1, -1))
                    v[c] = s * x
                vals.append(v)
    return vals


def _dur_args(v):
    # order of the model entry point: days seconds microseconds milliseconds minutes hours weeks years months
    return [v.get("days", 0), v.get("seconds", 0), v.get("microseconds", 0), 0, v.get("minutes", 0), v.get("hours", 0),
            v.get("weeks", 0), v.get("years", 0), v.get("months", 0)]


def cases(tier, seed):
    rnd = random.Random(seed)
    out = []
    thorough = tier == "thorough"
    zs = list(zones.names()) if thorough else zones.pick_zones(rnd, 60)
    lo, hi = T.US_DAY * 3, T.MAX_WALL - T.US_DAY * 3
    # --- DateTime around every chosen gap / overlap
    for name in zs:
        trs = T.transition_probes(name, rnd, per_zone=(20 if thorough else 5))
        for (tt, o_pre, o_post) in trs:
            a = (tt + T.EPOCH_S + min(o_pre, o_post)) * T.MEG
            b = (tt + T.EPOCH_S + max(o_pre, o_post)) * T.MEG
            probes = [a - 1, a, (a + b) // 2 + 250001, b - 1, b]
            if not thorough:
                probes = [a - 1, a, (a + b) // 2 + 250001, b - 1] if o_post < o_pre else [a, b - 1]
            for W in probes:
                if not lo < W < hi:
                    continue
                for f in (0, 1):
                    _routes(out, "dt-overlap" if o_post < o_pre else "dt-gap", "dt", [W, f, name])
    # --- ordinary times
    fixed = [["F", 0, None], ["F", 3600, None], ["F", -3600 * 5 - 1800, "foo"], ["F", 20700, None], ["F", -86340, None], ["F", 86399, "x y"], ["F", 1, None],
             ["F", -59, None], ["F", 45 * 60, "+00:45"]]
    for _ in range(400 if thorough else 60):
        W = rnd.randrange(lo, hi)
        for f in (0, 1):
            _routes(out, "dt-named", "dt", [W, f, zs[rnd.randrange(len(zs))]])
    for W in [0, 1, T.MAX_WALL, T.MAX_WALL - 1, 735000 * T.US_DAY + 9045000001] + [rnd.randrange(0, T.MAX_WALL) for _ in range(20)]:
        for f in (0, 1):
            _routes(out, "dt-naive", "dt", [W, f, None])
    for fz in fixed + ["UTC"]:
        for _ in range(3):
            W = rnd.randrange(lo, hi)
            for f in (0, 1):
                _routes(out, "dt-fixed", "dt", [W, f, fz])
    # --- Date
    ords = [1, 2, 59, 60, 365, 366, 3652059, 3652058, 730120, 730179, 730180, 735000] + [rnd.randrange(1, 3652060) for _ in range(300 if thorough else 40)]
    for n in ords:
        _routes(out, "date", "date", [n])
    # --- Time
    tods = [0, 1, 999999, 1000000, 86399999999, 43200000000, 3600000000 * 2 + 30 * 60000000 + 1000005] + [rnd.randrange(0, 86400000000) for _ in range(40 if thorough else 8)]
    for t in tods:
        for f in (0, 1):
            for tz in (None, "Europe/Paris", "UTC", ["F", 3600, None], ["F", -12600, "foo"]):
                _routes(out, "time", "time", [t, f, tz])
    # --- Duration / AbsoluteDuration: every subset of components
    for v in _dur_values(rnd, 6 if thorough else 1):
        _routes(out, "dur-subsets", "dur", [0] + _dur_args(v))
    for v in _dur_values(rnd, 3 if thorough else 1)[::1 if thorough else 2]:
        _routes(out, "absdur-subsets", "dur", [1] + _dur_args(v))
    for v in ({}, {"weeks": 2, "days": 3}, {"years": 1, "months": 2, "days": 3}, {"days": -3, "hours": -5, "microseconds": -7},
              {"years": 6, "months": -73}, {"days": 6, "hours": 23, "minutes": 59, "seconds": 59, "microseconds": 999999}, {"days": 7},
              {"days": -7}, {"weeks": -1, "days": 6}, {"seconds": 86400 * 7 - 1}, {"microseconds": -1}, {"microseconds": 1}):
        _routes(out, "dur-pinned", "dur", [0] + _dur_args(v))
        _routes(out, "absdur-pinned", "dur", [1] + _dur_args(v))
    # --- magnitudes beyond the float-exact domain of Duration.__new__ (C09's D9)
    big = [{"years": 1000, "microseconds": 1}, {"days": 200000, "microseconds": 1}, {"years": 300, "days": 3, "microseconds": 7},
           {"days": 699996, "microseconds": 5}, {"years": -300, "days": -3, "microseconds": -7}, {"days": 999999999, "hours": 23, "microseconds": 999999},
           {"days": -999999999}, {"years": 2000000, "months": 11, "microseconds": 123457}]
    for _ in range(200 if thorough else 24):
        v = {"days": rnd.choice((1, -1)) * rnd.randrange(100000, 900000000), "seconds": rnd.randrange(-90000, 90000), "microseconds": rnd.randrange(-999999, 1000000)}
        if rnd.random() < 0.5:
            v = {"years": rnd.choice((1, -1)) * rnd.randrange(100, 3000), "months": rnd.randrange(-20, 20), "days": rnd.randrange(-6, 7),
                 "seconds": rnd.randrange(-90000, 90000), "microseconds": rnd.randrange(-999999, 1000000)}
        big.append(v)
    for v in big:
        _routes(out, "dur-large", "dur", [0] + _dur_args(v))
    # --- Interval
    ivs = []
    amb = []          # ambiguous (zone, W) pairs
    for name in zs:
        for (tt, o_pre, o_post) in T.transition_probes(name, rnd, per_zone=(4 if thorough else 1)):
            if o_post < o_pre:
                a = (tt + T.EPOCH_S + o_post) * T.MEG
                b = (tt + T.EPOCH_S + o_pre) * T.MEG
                if lo + 800 * T.US_DAY < a < hi - 800 * T.US_DAY:
                    amb.append((name, (a + b) // 2))
    rnd.shuffle(amb)
    for name, W in amb[: (600 if thorough else 40)]:
        other = W + rnd.choice((-1, 1)) * rnd.randrange(1, 700 * T.US_DAY)
        other_zone = zs[rnd.randrange(len(zs))]
        for f in (0, 1):
            ivs.append([[1, W, f, name], [1, other, rnd.randrange(2), name]])
            ivs.append([[1, other, rnd.randrange(2), other_zone], [1, W, f, name]])
            ivs.append([[1, W, f, name], [1, W + rnd.choice((-1, 1)) * rnd.randrange(0, 1800 * T.MEG), 1 - f, name]])     # both inside / near the overlap
    for _ in range(200 if thorough else 25):
        W1, W2 = rnd.randrange(lo, hi), rnd.randrange(lo, hi)
        if rnd.random() < 0.5:
            W2 = W1 + rnd.randrange(-400 * T.US_DAY, 400 * T.US_DAY)
            W2 = min(max(W2, lo + 1), hi - 1)
        z1, z2 = zs[rnd.randrange(len(zs))], zs[rnd.randrange(len(zs))]
        ivs.append([[1, W1, rnd.randrange(2), z1], [1, W2, rnd.randrange(2), z2]])
        ivs.append([[1, W1, rnd.randrange(2), None], [1, W2, rnd.randrange(2), None]])
        ivs.append([[1, W1, 0, rnd.choice(fixed)], [1, W2, 0, rnd.choice(fixed)]])
        ivs.append([[1, W1, 0, "UTC"], [1, W2, 0, z2]])
        ivs.append([[0, W1 // T.US_DAY + 1], [0, W2 // T.US_DAY + 1]])
    ivs.append([[0, 1], [0, 3652059]])
    ivs.append([[0, 730120], [0, 730120]])
    ivs.append([[1, 0, 0, None], [1, T.MAX_WALL, 0, None]])
    ivs.append([[1, 735000 * T.US_DAY, 0, "UTC"], [1, 735000 * T.US_DAY, 0, "UTC"]])
    for e1, e2 in ivs:
        for ab in (0, 1):
            _routes(out, "iv-date" if e1[0] == 0 else "iv-dt", "iv", [ab, e1, e2])
    # --- standard-library ("foreign") tzinfo: ["S", off] = datetime.timezone(timedelta(seconds=off)) (off 0: timezone.utc), ["Z", key] = zoneinfo.ZoneInfo(key).
    #     DateTime.tz / .timezone are None for these.  Own generator so that the streams above stay what they were for a given seed.
    rf = random.Random(seed * 7919 + 14)
    std = [["S", 0], ["S", 3600], ["S", -3661], ["S", 20700], ["S", 86399], ["S", -86399]]
    W0230 = 63518437800 * T.MEG          # 2013-10-27T02:30:00, repeated in Europe/Paris
    for fz in std + [["Z", "Europe/Paris"], ["Z", "UTC"]]:
        for f in (0, 1):
            _routes(out, "dt-foreign-pinned", "dt", [W0230, f, fz])
    for fz in std:
        for _ in range(8 if thorough else 2):
            W = rf.randrange(lo, hi)
            for f in (0, 1):
                _routes(out, "dt-foreign-offset", "dt", [W, f, fz])
    zf = list(zs) if thorough else rf.sample(list(zs), 14)
    for name in zf:
        W = rf.randrange(lo, hi)
        _routes(out, "dt-foreign-zoneinfo", "dt", [W, rf.randrange(2), ["Z", name]])
        for (tt, o_pre, o_post) in T.transition_probes(name, rf, per_zone=(4 if thorough else 1)):
            a = (tt + T.EPOCH_S + min(o_pre, o_post)) * T.MEG
            b = (tt + T.EPOCH_S + max(o_pre, o_post)) * T.MEG
            for W in ((a + b) // 2 + 250001, a - 1):
                if lo < W < hi:
                    for f in (0, 1):
                        _routes(out, "dt-foreign-zoneinfo", "dt", [W, f, ["Z", name]])
    for t in tods[:5]:
        for f in (0, 1):
            for tz in (["S", 0], ["S", -3661], ["S", 86399], ["Z", "Europe/Paris"]):
                _routes(out, "time-foreign", "time", [t, f, tz])
    ivf = []
    for _ in range(40 if thorough else 6):
        W1 = rf.randrange(lo + 800 * T.US_DAY, hi - 800 * T.US_DAY)
        W2 = W1 + rf.randrange(-400 * T.US_DAY, 400 * T.US_DAY)
        z1, z2 = zs[rf.randrange(len(zs))], zs[rf.randrange(len(zs))]
        ivf.append([[1, W1, rf.randrange(2), ["Z", z1]], [1, W2, 0, ["Z", z1]]])          # the same ZoneInfo object at both ends
        ivf.append([[1, W1, 0, ["Z", z1]], [1, W2, 0, ["Z", z2]]])
        ivf.append([[1, W1, 0, ["Z", z1]], [1, W2, 0, z1]])                                # ZoneInfo(key) against Timezone(key)
        ivf.append([[1, W1, 0, rf.choice(std)], [1, W2, 0, rf.choice(std)]])
        ivf.append([[1, W1, 0, ["S", 0]], [1, W2, 0, "UTC"]])
    ivf.append([[1, W0230, 1, ["Z", "Europe/Paris"]], [1, W0230 + 5400 * T.MEG, 0, ["Z", "Europe/Paris"]]])
    for e1, e2 in ivf:
        for ab in (0, 1):
            _routes(out, "iv-foreign", "iv", [ab, e1, e2])
    # --- Timezone / FixedTimezone objects
    for name in zs:
        _routes(out, "tz-named", "tz", [name])
    for fz in fixed + [["F", 0, ""], ["F", 7200, "UTC"], ["F", 359999, None], ["F", -360000, None], ["F", 3599, None], ["F", -3661, None]]:
        _routes(out, "tz-fixed", "tz", [fz])
    # --- generated tables vs the live classes
    for i in range(len(CLASSES)):
        out.append({"stream": "tables", "fn": "tables", "args": [i]})
    return out


def search_cases(seed):
    return cases("quick", seed + 1)


def nontrivial(c):
    return True


# ----------------------------------------------------------------------------- implementation side
def fcode(x):
    x = float(x)
    if x != x:
        return [6, 0, 0]
    if x == math.inf:
        return [4, 0, 0]
    if x == -math.inf:
        return [5, 0, 0]
    if x == 0:
        return [1, 0, 0] if math.copysign(1.0, x) < 0 else [0, 0, 0]
    m, e = math.frexp(abs(x))
    m = int(m * 2 ** 53)
    e -= 53
    if e < -1074:
        m >>= (-1074 - e)
        e = -1074
    return [3 if x < 0 else 2, m, e]


def _mk_tz(spec):
    import pendulum
    from pendulum.tz.timezone import FixedTimezone, Timezone
    if spec is None:
        return None
    if isinstance(spec, str):
        return Timezone(spec)
    if spec[0] == "S":
        return _dt.timezone.utc if spec[1] == 0 else _dt.timezone(_dt.timedelta(seconds=spec[1]))
    if spec[0] == "Z":
        return zoneinfo.ZoneInfo(spec[1])
    _, off, name = spec
    return FixedTimezone(off, name) if name is not None else FixedTimezone(off)


def _tz_obs(tz):
    from pendulum.tz.timezone import FixedTimezone, Timezone
    if tz is None:
        return [0]
    if type(tz) is Timezone:
        return [1, key_index(tz.name)]
    if type(tz) is FixedTimezone:
        nm = tz.name
        return [2, tz.offset, len(nm)] + [ord(ch) for ch in nm]
    if type(tz) is _dt.timezone:
        o = tz.utcoffset(None)
        us = (o.days * 86400 + o.seconds) * T.MEG + o.microseconds
        return [3, us // T.MEG] if us % T.MEG == 0 else [7, 3]
    if type(tz) is zoneinfo.ZoneInfo:
        return [4, key_index(tz.key)] if tz.key is not None else [7, 4]
    return [7]


def _dt_core(d):
    o = T.off_s(d)
    W = T.wall_of(d)
    if o is None:
        inst = W
    else:
        u = _dt.datetime(d.year, d.month, d.day, d.hour, d.minute, d.second, d.microsecond, tzinfo=d.tzinfo, fold=d.fold).astimezone(_dt.timezone.utc)
        inst = T.wall_of(u)
    return [d.year, d.month, d.day, d.hour, d.minute, d.second, d.microsecond, d.fold] + ([1, o] if o is not None else [0, 0]) + [inst] + _tz_obs(d.tzinfo)


def _dt_extra(d):
    return [str(d.timezone_name), str(d.offset), d.isoformat(), str(d.tzname()), d.int_timestamp if d.tzinfo is not None else 0,
            str(d.is_utc()) if d.tzinfo is not None else "", type(d.tz).__name__]


def _date_core(d):
    return [d.year, d.month, d.day]


def _ep_core(e):
    import pendulum
    return ([1] + _dt_core(e)) if isinstance(e, pendulum.DateTime) else ([0] + _date_core(e))


def _time_core(t):
    h, mi, s, us = t.hour, t.minute, t.second, t.microsecond
    return [h, mi, s, us, t.fold] + _tz_obs(t.tzinfo)


def _dur_core(d):
    from pendulum.duration import AbsoluteDuration
    return [1 if type(d) is AbsoluteDuration else 0, d.years, d.months, d.weeks, d.remaining_days, d.hours, d.minutes, d.remaining_seconds, d.microseconds,
            d.seconds, 1 if d.invert else 0, _dt.timedelta.days.__get__(d), _dt.timedelta.seconds.__get__(d), _dt.timedelta.microseconds.__get__(d)] + fcode(d.total_seconds())


def _dur_extra(d):
    # repr() is left out on purpose: it prints `days=` according to the private _days (see the report)
    return [d.in_words(locale="en"), d.total_days().hex(), d.in_days(), d.in_hours(), d.in_weeks(), d.days, str(d.as_timedelta())]


def _iv_core(i):
    return [1 if i._absolute else 0, 1 if i.invert else 0, _dt.timedelta.days.__get__(i), _dt.timedelta.seconds.__get__(i), _dt.timedelta.microseconds.__get__(i)] \
        + _ep_core(i.start) + _ep_core(i.end)


def _iv_extra(i):
    return [i.years, i.months, i.weeks, i.remaining_days, i.hours, i.minutes, i.remaining_seconds, i.microseconds, i.days, i.in_days(), i.in_months(),
            i.total_seconds().hex(), repr(i), type(i.start).__name__, type(i.end).__name__]


def _tz_extra(tz):
    probes = [_dt.datetime(2021, 1, 15, 12), _dt.datetime(2021, 7, 15, 12), _dt.datetime(1950, 3, 1), _dt.datetime(2013, 10, 27, 2, 30), _dt.datetime(2013, 10, 27, 2, 30, fold=1)]
    out = [tz.name, repr(tz), str(tz.utcoffset(None))]
    for p in probes:
        try:
            out.append(str(tz.utcoffset(p)) + "/" + str(tz.tzname(p)) + "/" + str(tz.dst(p)))
        except Exception as e:  # noqa
            out.append(type(e).__name__)
    if hasattr(tz, "offset"):
        out.append(tz.offset)
    return out


def _mk_ep(e):
    import pendulum
    if e[0] == 0:
        d = _dt.date.fromordinal(e[1])
        return pendulum.Date(d.year, d.month, d.day)
    _, W, f, tzs = e
    y, mo, d, h, mi, s, us = T.fields_of(W)
    return pendulum.DateTime(y, mo, d, h, mi, s, us, tzinfo=_mk_tz(tzs), fold=f)


def _build(fn, a):
    import pendulum
    from pendulum.duration import AbsoluteDuration
    if fn == "dt":
        return _mk_ep([1] + a), _dt_core, _dt_extra, True
    if fn == "date":
        return _mk_ep([0] + a), _date_core, (lambda d: [str(d), d.toordinal()]), True
    if fn == "time":
        t, f, tzs = a
        s = t // T.MEG
        v = pendulum.Time(s // 3600, s // 60 % 60, s % 60, t % T.MEG, tzinfo=_mk_tz(tzs), fold=f)
        return v, _time_core, (lambda x: [x.isoformat(), str(x.utcoffset()), repr(x)]), True
    if fn == "dur":
        ab, days, seconds, us, ms, mi, h, w, y, mo = a
        cls = AbsoluteDuration if ab else pendulum.Duration
        v = cls(days=days, seconds=seconds, microseconds=us, milliseconds=ms, minutes=mi, hours=h, weeks=w, years=y, months=mo)
        return v, _dur_core, _dur_extra, True
    if fn == "iv":
        ab, e1, e2 = a
        return pendulum.Interval(_mk_ep(e1), _mk_ep(e2), absolute=bool(ab)), _iv_core, _iv_extra, True
    if fn == "tz":
        return _mk_tz(a[0]), _tz_obs, _tz_extra, False
    raise ValueError(fn)


def _tables(i):
    import pendulum
    from pendulum.duration import AbsoluteDuration
    from pendulum.tz.timezone import FixedTimezone, Timezone
    cls = [pendulum.Date, pendulum.DateTime, pendulum.Time, pendulum.Duration, AbsoluteDuration, pendulum.Interval, Timezone, FixedTimezone][i]
    mro = [c.__name__ for c in cls.__mro__]
    res = []
    for m in PROTO:
        res.append(m + "=" + next((c.__name__ for c in cls.__mro__ if m in vars(c)), ""))
    return ",".join(mro) + ",|" + ";".join(res) + ";"


def impl_run(cases):
    import copy
    import pickle
    out = []
    for c in cases:
        fn, a = c["fn"], c["args"]
        try:
            if fn == "tables":
                out.append([0, _tables(a[0])])
                continue
            r = a[0]
            v, core, extra, want_eq = _build(fn, a[1:])
            co, eo = core(v), extra(v)
        except Exception as ex:  # noqa
            out.append([2, type(ex).__name__, str(ex)[:200]])
            continue
        try:
            if r < 6:
                w = pickle.loads(pickle.dumps(v, r))
            elif r == 6:
                w = copy.copy(v)
            else:
                w = copy.deepcopy(v)
        except Exception as ex:  # noqa
            out.append([1, 0, 0, co, [T.EXN.get(type(ex).__name__, 14)], eo, [type(ex).__name__ + ": " + str(ex)[:160]]])
            continue
        try:
            eq = 1 if (w == v and not (w != v)) else 0
            out.append([0, 1 if type(w) is type(v) else 0, eq if want_eq else 1, co, core(w), eo, extra(w)])
        except Exception as ex:  # noqa
            out.append([3, type(ex).__name__, str(ex)[:200]])
    return out


# ----------------------------------------------------------------------------- model side
def _tz_enc(spec, lo_w, hi_w):
    """tzspec integers; lo_w / hi_w: wall microseconds spanned by the values that live in this zone."""
    if spec is None:
        return [0]
    if isinstance(spec, str):
        return [1, key_index(spec)] + T.zone_enc(spec, T.unix_of_wall(lo_w) - 90000, T.unix_of_wall(hi_w) + 90000)
    if spec[0] == "S":
        return [4, spec[1]]
    if spec[0] == "Z":
        return [5, key_index(spec[1])] + T.zone_enc(spec[1], T.unix_of_wall(lo_w) - 90000, T.unix_of_wall(hi_w) + 90000)
    _, off, name = spec
    if not name:
        return [3, off]          # FixedTimezone(off): the model computes the default name
    return [2, off, len(name)] + [ord(ch) for ch in name]


def _zone_of(tzs):
    """The tz-database key behind a tz spec (Timezone(key) or ZoneInfo(key)), else None."""
    if isinstance(tzs, str):
        return tzs
    if isinstance(tzs, (list, tuple)) and tzs and tzs[0] == "Z":
        return tzs[1]
    return None


def _is_foreign(tzs):
    return isinstance(tzs, (list, tuple)) and bool(tzs) and tzs[0] in ("S", "Z")


def _ep_enc(e, span):
    if e[0] == 0:
        return [0, e[1]]
    _, W, f, tzs = e
    lo, hi = span.get(_zone_of(tzs), (W, W))
    return [1, W, f] + _tz_enc(tzs, lo, hi)


def model_calls(c, backend):
    fn, a = c["fn"], c["args"]
    if fn == "tables":
        return [("tables", [a[0]])]
    r, v = a[0], a[1:]
    if fn == "dt":
        W, f, tzs = v
        body = [W, f] + _tz_enc(tzs, W, W)
    elif fn == "date":
        body = [v[0]]
    elif fn == "time":
        t, f, tzs = v
        body = [t, f] + _tz_enc(tzs, 735000 * T.US_DAY, 735000 * T.US_DAY)
    elif fn == "dur":
        body = list(v)
    elif fn == "iv":
        ab, e1, e2 = v
        span = {}
        for e in (e1, e2):
            if e[0] == 1 and _zone_of(e[3]) is not None:
                zn = _zone_of(e[3])
                lo, hi = span.get(zn, (e[1], e[1]))
                span[zn] = (min(lo, e[1]), max(hi, e[1]))
        body = [ab] + _ep_enc(e1, span) + _ep_enc(e2, span)
    elif fn == "tz":
        body = _tz_enc(v[0], 735000 * T.US_DAY, 735000 * T.US_DAY)
    else:
        return None
    return [(fn, [8] + body), (fn, [r] + body)]


def model_result(c, backend, outs):
    if c["fn"] == "tables":
        o = outs[0]
        return [0, "".join(chr(x) for x in o[1:])] if o and o[0] == 0 else o
    return outs


def same(c, m, r):
    if c["fn"] == "tables":
        return m == r
    if r[0] not in (0, 1):
        return False
    mo, mc = m
    if mo[0] != 0 or mo[1:] != r[3]:
        return False
    if r[0] == 1:
        return mc == [1] + r[4]
    return mc[0] == 0 and mc[1:] == r[4]


# ----------------------------------------------------------------------------- the property (stdlib only)
def _ref_tz(spec):
    if spec is None:
        return None
    if _zone_of(spec) is not None:
        return zoneinfo.ZoneInfo(_zone_of(spec))
    return _dt.timezone(_dt.timedelta(seconds=spec[1]))


def _ref_dt_core(W, f, tzs):
    """What the stdlib says a datetime with these fields / fold / zone is: fields, fold, offset, UTC instant."""
    tz = _ref_tz(tzs)
    n = T.native(W, f, tz)
    if tz is None:
        return list(T.fields_of(W)) + [f, 0, 0, W]
    o = T.off_s(n)
    return list(T.fields_of(W)) + [f, 1, o, W - o * T.MEG]


def _ref_ep_core(e):
    if e[0] == 0:
        d = _dt.date.fromordinal(e[1])
        return [0, d.year, d.month, d.day]
    return [1] + _ref_dt_core(e[1], e[2], e[3])


def _ref_td(v):
    ab, days, seconds, us, ms, mi, h, w, y, mo = v
    ym = 0 if ab else y * 365 + mo * 30
    td = _dt.timedelta(days=days + ym, seconds=seconds, microseconds=us, milliseconds=ms, minutes=mi, hours=h, weeks=w)
    return [td.days, td.seconds, td.microseconds]


def _diffs(c, r):
    """List of human-readable reasons why the copy is distinguishable from the original (empty = property holds for this case)."""
    fn, a = c["fn"], c["args"]
    if fn == "tables":
        return []
    if r[0] in (2, 3):
        return [f"harness could not build/observe the value: {r[1:]}"]
    why = []
    route = a[0]
    rn = f"pickle protocol {route}" if route < 6 else ("copy.copy" if route == 6 else "copy.deepcopy")
    st, ty, eq, co, cc, eo, ec = r
    # the original must itself be what the stdlib says these fields denote (independent reading of the case)
    if fn == "dt":
        ref = _ref_dt_core(a[1], a[2], a[3])
        if co[:11] != ref:
            why.append(f"original DateTime observes {co[:11]}, the stdlib gives {ref} for the same fields/fold/zone")
    if fn == "dur":
        if co[11:14] != _ref_td(a[1:]):
            why.append(f"original Duration has native value {co[11:14]}, timedelta gives {_ref_td(a[1:])}")
    if fn == "iv":
        ab = a[1]
        # endpoints of the original are the given ones (possibly swapped when absolute)
        e1, e2 = _ref_ep_core(a[2]), _ref_ep_core(a[3])
        got = co[5:]
        n1 = 12 + _tzlen(got, 12) if got[0] == 1 else 4
        g = (_cut(got[:n1]), _cut(got[n1:]))
        if g not in ((_cut(e1), _cut(e2)), (_cut(e2), _cut(e1))) or (not ab and g != (_cut(e1), _cut(e2))):
            why.append(f"original Interval endpoints {g} are not the given ones {(e1, e2)}")
    if st == 1:
        why.append(f"{rn} raised {ec[0]}")
        return why
    if not ty:
        why.append(f"{rn} returned an object of another type")
    if not eq:
        why.append(f"{rn}: copy != original")
    if cc != co:
        why.append(f"{rn}: accessors differ: original {co} copy {cc}")
    elif ec != eo:
        why.append(f"{rn}: accessors differ: original {eo} copy {ec}")
    return why


def oracle(c, backend, r):
    if c["fn"] == "tables":
        return None
    d = _diffs(c, r)
    return "; ".join(d)[:900] if d else None


def _offsets_differ(W, tzs):
    if _zone_of(tzs) is None:
        return False
    tz = zoneinfo.ZoneInfo(_zone_of(tzs))
    return T.off_s(T.native(W, 0, tz)) != T.off_s(T.native(W, 1, tz))


def known(c, backend, r):
    fn, a = c["fn"], c["args"]
    if fn == "tables" or r[0] not in (0, 1):
        return None
    route = a[0]
    st, ty, eq, co, cc, eo, ec = r
    if fn == "dt":
        W, f, tzs = a[1:]
        # (repaired: `fix: DateTime.__deepcopy__ keeps a tzinfo that is not a pendulum timezone`) __deepcopy__ passed tzinfo=self.tz, which is
        # None for a standard-library tzinfo: the deep copy is the NAIVE datetime with the same fields and fold
        if route == 7 and _is_foreign(tzs) and st == 0 and ty and not eq:
            if cc == _ref_dt_core(W, f, None) + [0]:
                return "deepcopy-foreign-tzinfo-naive"
            return None
        # pickle / copy.copy rebuild from _getstate(), which has no fold: the copy is exactly the fold=0 reading of the same fields
        if route <= 6 and f == 1 and st == 0 and ty and eq:
            exp = _ref_dt_core(W, 0, tzs) + co[11:]
            if cc == exp:
                return "datetime-pickle-fold-instant" if _offsets_differ(W, tzs) else "datetime-pickle-fold-attr"
        return None
    if fn == "time":
        t, f, tzs = a[1:]
        if f == 1 and st == 0 and ty and eq and cc == co[:4] + [0] + co[5:]:
            return "time-copy-fold-attr"
        return None
    if fn == "dur":
        ab, days, seconds, us, ms, mi, h, w, y, mo = a[1:]
        if st != 0 or not ty:
            return None
        if route <= 6 and (y != 0 or mo != 0):
            # timedelta.__reduce__ keeps the native value only: same (days, seconds, microseconds) and total, years = months = 0
            if cc[1:3] == [0, 0] and cc[11:14] == co[11:14] and cc[0] == co[0] and eq and (ab == 0 or cc[3:11] == co[3:11]):
                return "duration-pickle-drops-years-months"
            return None
        if route == 7 and ab == 0:
            # exact integer split of the part R of the native value that excludes years / months (what the accessors should be)
            N = (co[11] * 86400 + co[12]) * T.MEG + co[13]
            R = N - (y * 365 + mo * 30) * 86400 * T.MEG
            sg = -1 if R < 0 else 1
            it, micro = abs(R) // T.MEG, abs(R) % T.MEG * sg
            ds = it // 86400
            exact = [ds // 7 * sg, ds % 7 * sg, it % 86400 * sg, micro]
            if [co[3], co[4], co[9], co[8]] != exact:
                # the ORIGINAL's components do not add up to its value (float resolution of Duration.__new__ beyond 2^32 s, C09):
                # __deepcopy__ rebuilds from them, so the copy is another timedelta even apart from the weeks
                if cc[1:3] == co[1:3] and abs(N) >= 2 ** 32 * T.MEG:
                    return "duration-deepcopy-inexact-components"
                return None
            if co[3] != 0:
                # Duration.__deepcopy__ omits weeks: everything else identical, native value smaller by weeks * 7 days
                if cc[3] == 0 and cc[1:3] == co[1:3] and cc[4:10] == co[4:10] and cc[11] == co[11] - 7 * co[3] and cc[12:14] == co[12:14]:
                    return "duration-deepcopy-drops-weeks"
            return None
        if route == 7 and ab == 1 and (co[3] != 0 or co[10] == 1):
            # AbsoluteDuration through Duration.__deepcopy__: weeks omitted, sign (invert) lost, components otherwise identical
            if cc[3] == 0 and cc[10] == 0 and cc[1:3] == co[1:3] and cc[4:10] == co[4:10]:
                return "absoluteduration-deepcopy-sign-weeks"
            return None
        return None
    if fn == "iv":
        ab, e1, e2 = a[1:]
        if route == 7:
            if st == 1 and cc == [T.EXN["TypeError"]] and "unexpected keyword argument 'days'" in ec[0]:
                return "interval-deepcopy-typeerror"
            return None
        if route <= 5 and st == 0 and ty:
            # consequence of the DateTime finding: an endpoint with fold=1 comes back with fold=0
            folds = [e[2] for e in (e1, e2) if e[0] == 1]
            if any(folds):
                exp = []
                for e in (e1, e2):
                    exp.append(_ref_ep_core([e[0], e[1], 0, e[3]] if e[0] == 1 else e))
                got = cc[5:]
                # compare endpoint cores without the zone observation tails
                n1 = 12 + _tzlen(got, 12) if got[0] == 1 else 4
                g1, g2 = got[:n1], got[n1:]
                cands = [(_cut(exp[0]), _cut(exp[1])), (_cut(exp[1]), _cut(exp[0]))]
                if (_cut(g1), _cut(g2)) in cands and cc[0] == co[0]:
                    return "interval-pickle-endpoint-fold"
        return None
    return None


def _cut(core):
    return core[:12] if core[0] == 1 else core


def _tzlen(core, i):
    k = core[i]
    if k == 0:
        return 1
    if k == 1:
        return 2
    if k == 2:
        return 3 + core[i + 2]
    if k in (3, 4):
        return 2
    return 1


LEVEL_TEXT = ("Machine-checked Coq theorems over the protocol model (Model/Pickle.v interpreting the argument lists generated from the class bodies): for every "
              "route (pickle 0..5, copy, deepcopy) Date, Timezone and FixedTimezone values are rebuilt identically; DateTime.__deepcopy__ rebuilds identically for EVERY "
              "tzinfo, including standard-library ones (datetime.timezone, zoneinfo.ZoneInfo: DateTime.tz is None for them) - full strength since the repair of "
              "deepcopy-foreign-tzinfo-naive (__deepcopy__ passed tzinfo=self.tz and returned a naive copy); every route keeps such a tzinfo; "
              "pickle/copy of a DateTime rebuild exactly the fold=0 reading of the same fields (so: identical when fold=0, same instant and offset whenever the wall "
              "time is unique in the zone; REFUTED with fold=1 on a repeated wall time: Europe/Paris 2013-10-27T02:30+01:00 comes back +02:00); Time likewise loses "
              "fold on every route; Duration pickle/copy preserve the native timedelta value always and all components exactly when years=months=0 (REFUTED otherwise), "
              "Duration.__deepcopy__ drops weeks (exact on weeks=0 within C09's float premise; REFUTED for weeks=2,days=3); Interval copy.copy is the identity on every "
              "constructed Interval, pickle is the identity when no endpoint has fold=1 (REFUTED otherwise), copy.deepcopy of an Interval ALWAYS raises TypeError. "
              "The model is tied to /repo by regeneration of the argument lists and by correspondence on real objects over all 8 routes, both backends.")
DESIGN_REF = "DESIGN.md section 4 C14"
LEVEL_NOTE = ("Trusted: Coq kernel+VM; CPython's pickle/copy protocol and native reducers as stated in Model/Pickle.v (standard-library tzinfo objects are opaque values "
              "of that protocol: they come back equal; checked on every run by the dt-foreign-* / time-foreign streams); the generator's reading of the class bodies "
              "(fail closed on unknown shapes; MRO/resolution tables compared with the live classes each run); Spec/Zone.v, Model/Duration.v (validated by C02/C09 and here); "
              "extraction+driver cross-checked with vm_compute.")
TECHNIQUE = "Coq proofs over a data-driven protocol model (argument lists generated from the AST) + differential correspondence on real objects through 8 copy routes"
